import AmaranthVerif.Model.Cdc

/-!
# Helper lemmas for C17: every model state machine refines the observer's record
-/

namespace Amaranth.Cdc
open Model

/-! ## generic -/

theorem snoc_ind {α : Type} {P : List α → Prop} (h0 : P [])
    (hs : ∀ l a, P l → P (l ++ [a])) (l : List α) : P l := by
  rw [← List.reverse_reverse l]
  induction l.reverse with
  | nil => exact h0
  | cons a t ih => rw [List.reverse_cons]; exact hs _ _ ih

/-- a relation between two state machines that every step preserves holds after every run -/
theorem foldl_rel {σ τ ε : Type} (R : σ → τ → Prop) (f : σ → ε → σ) (g : τ → ε → τ)
    (h : ∀ s t e, R s t → R (f s e) (g t e)) :
    ∀ (evs : List ε) (s : σ) (t : τ), R s t → R (evs.foldl f s) (evs.foldl g t) := by
  intro evs
  induction evs with
  | nil => intro s t h0; exact h0
  | cons e es ih => intro s t h0; exact ih _ _ (h _ _ _ h0)

theorem shift_length {α : Type} (x : α) (c : List α) : (shift x c).length = c.length := by
  simp [shift]

/-- shifting a window of a longer history is the window of the extended history -/
theorem shift_take {α : Type} (x : α) (L : List α) (n : Nat) (h : n ≤ L.length) :
    shift x (L.take n) = (x :: L).take n := by
  unfold shift
  rw [List.length_take, Nat.min_eq_left h]
  cases n with
  | zero => simp
  | succ m =>
    simp only [List.take_succ_cons, List.take_take]
    congr 2
    omega

/-- the last element of a full window is the element at its last index -/
theorem getLast?_take {α : Type} (L : List α) (n : Nat) (h1 : 1 ≤ n) (h : n ≤ L.length) :
    (L.take n).getLast? = L[n - 1]? := by
  rw [List.getLast?_eq_getElem?, List.length_take, Nat.min_eq_left h, List.getElem?_take]
  simp; omega

/-! ## FFSynchronizer -/

/-- the flops hold the `n` most recent samples, padded with the initial value -/
def FFRel (n w : Nat) (init : Int) (s : FFState) (r : FFObs) : Prop :=
  s.inp = r.inp ∧ s.flops = (r.samples ++ List.replicate n (signalInit w init)).take n

theorem ffRel_step (n w : Nat) (init : Int) (s : FFState) (r : FFObs) (e : Ev)
    (h : FFRel n w init s r) : FFRel n w init (ffStep w s e) (r.step w e) := by
  obtain ⟨hi, hf⟩ := h
  have key : shift s.inp s.flops
      = (r.inp :: r.samples ++ List.replicate n (signalInit w init)).take n := by
    rw [hf, hi]
    exact shift_take _ _ _ (by simp)
  cases e with
  | set v => exact ⟨rfl, hf⟩
  | iedge => exact ⟨hi, hf⟩
  | oedge => exact ⟨hi, key⟩
  | both => exact ⟨hi, key⟩

theorem ffRel_run (n w : Nat) (init : Int) (i0 : Nat) (evs : List Ev) :
    FFRel n w init (ffRun n w init i0 evs) (ffObserve w i0 evs) := by
  apply foldl_rel (FFRel n w init) _ _ (ffRel_step n w init)
  exact ⟨rfl, by simp [ffInit, FFObs.start]⟩

theorem ffRel_out (n w : Nat) (init : Int) (hn : 1 ≤ n) (s : FFState) (r : FFObs)
    (h : FFRel n w init s r) : s.out = r.out n w init := by
  obtain ⟨_, hf⟩ := h
  unfold FFState.out FFObs.out
  rw [hf, getLast?_take _ _ hn (by simp)]
  unfold initValue signalInit
  rw [List.getD_eq_getElem?_getD]
  by_cases hk : n - 1 < r.samples.length
  · rw [List.getElem?_append_left hk, List.getElem?_eq_getElem hk]
    rfl
  · have h1 : r.samples.length ≤ n - 1 := by omega
    have h2 : r.samples[n - 1]? = none := by simp; omega
    have h3 : n - 1 - r.samples.length < n := by omega
    rw [List.getElem?_append_right h1, h2, List.getElem?_replicate, if_pos h3]
    rfl

/-! ## AsyncFFSynchronizer -/

theorem shift_async (q n : Nat) :
    shift false (List.replicate (min q n) false ++ List.replicate (n - q) true)
      = List.replicate (min (q + 1) n) false ++ List.replicate (n - (q + 1)) true := by
  unfold shift
  by_cases h : q < n
  · have e1 : min q n = q := by omega
    have e2 : min (q+1) n = q + 1 := by omega
    rw [e1, e2]
    have : (false :: (List.replicate q false ++ List.replicate (n - q) true)) = List.replicate (q+1) false ++ List.replicate (n - q) true := by
      simp [List.replicate_succ]
    rw [this, List.take_append]
    simp
    have a1 : q + min (n - q) 1 = q + 1 := by omega
    have a2 : min (q + (n - q) - (q + 1)) (n - q) = n - (q + 1) := by omega
    rw [a1, a2]
  · have e1 : min q n = n := by omega
    have e2 : min (q+1) n = n := by omega
    have e3 : n - q = 0 := by omega
    have e4 : n - (q+1) = 0 := by omega
    rw [e1, e2, e3, e4]
    simp
    rw [← List.replicate_succ, List.take_replicate]
    simp

theorem asyncRst_eq (pos inp : Bool) : asyncRst pos inp = asserted pos inp := by
  cases pos <;> cases inp <;> rfl

/-- zeros have advanced `quiet` places into the chain of ones; an asserted input keeps it full -/
def AsyncRel (n : Nat) (pos : Bool) (s : AsyncState) (r : AsyncObs) : Prop :=
  s.inp = r.inp ∧
  s.flops = List.replicate (min r.quiet n) false ++ List.replicate (n - r.quiet) true ∧
  (asserted pos r.inp = true → r.quiet = 0)

theorem asyncRel_length {n : Nat} {pos : Bool} {s : AsyncState} {r : AsyncObs}
    (h : AsyncRel n pos s r) : s.flops.length = n := by
  rw [h.2.1]; simp; omega

theorem asyncRel_wake (n : Nat) (pos : Bool) (s : AsyncState) (r : AsyncObs)
    (h : AsyncRel n pos s r) :
    AsyncRel n pos (asyncWake pos s) ⟨r.inp, if asserted pos r.inp then 0 else r.quiet + 1⟩ := by
  have hl := asyncRel_length h
  obtain ⟨hi, hf, ha⟩ := h
  have hR : asyncRst pos s.inp = asserted pos r.inp := by rw [asyncRst_eq, hi]
  unfold asyncWake
  rw [hR]
  by_cases hA : asserted pos r.inp = true
  · rw [if_pos hA, if_pos hA]
    exact ⟨hi, by simp [hl], fun _ => rfl⟩
  · rw [if_neg hA, if_neg hA]
    refine ⟨hi, ?_, fun h => absurd h hA⟩
    show shift false s.flops = _
    rw [hf]; exact shift_async _ _

theorem asyncRel_step (n : Nat) (pos : Bool) (s : AsyncState) (r : AsyncObs) (e : Ev)
    (h : AsyncRel n pos s r) : AsyncRel n pos (asyncStep pos s e) (r.step pos e) := by
  cases e with
  | iedge => exact h
  | oedge => exact asyncRel_wake n pos s r h
  | both => exact asyncRel_wake n pos s r h
  | set v =>
    have hl := asyncRel_length h
    obtain ⟨hi, hf, ha⟩ := h
    have hR : asyncRst pos s.inp = asserted pos r.inp := by rw [asyncRst_eq, hi]
    show AsyncRel n pos
      (if (!asyncRst pos s.inp && asyncRst pos (level v)) = true
        then asyncWake pos { s with inp := level v } else { s with inp := level v })
      ⟨level v, if asserted pos (level v) = true then 0 else r.quiet⟩
    rw [hR, asyncRst_eq]
    by_cases hN : asserted pos (level v) = true
    · rw [if_pos hN]
      by_cases hO : asserted pos r.inp = true
      · rw [hO, hN, if_neg (by simp)]
        refine ⟨rfl, ?_, fun _ => rfl⟩
        show s.flops = _
        rw [hf, ha hO]
      · simp only [Bool.not_eq_true] at hO
        rw [hO, hN, if_pos (by simp)]
        unfold asyncWake
        rw [asyncRst_eq]
        show AsyncRel n pos (if asserted pos (level v) = true then _ else _) _
        rw [if_pos hN]
        exact ⟨rfl, by simp [hl], fun _ => rfl⟩
    · rw [if_neg hN]
      simp only [Bool.not_eq_true] at hN
      rw [hN, if_neg (by simp)]
      exact ⟨rfl, hf, fun h => by rw [hN] at h; cases h⟩

theorem asyncRel_run (n : Nat) (pos : Bool) (i0 : Nat) (evs : List Ev) :
    AsyncRel n pos (asyncRun n pos i0 evs) (asyncObserve pos i0 evs) := by
  apply foldl_rel (AsyncRel n pos) _ _ (asyncRel_step n pos)
  exact ⟨rfl, by simp [asyncInit, AsyncObs.start], fun _ => rfl⟩

theorem asyncRel_out (n : Nat) (pos : Bool) (hn : 1 ≤ n) (s : AsyncState) (r : AsyncObs)
    (h : AsyncRel n pos s r) : s.out = r.out n pos := by
  obtain ⟨hi, hf, ha⟩ := h
  unfold AsyncState.out AsyncObs.out
  rw [hf]
  by_cases hA : asserted pos r.inp = true
  · have hn0 : n ≠ 0 := by omega
    rw [ha hA, hA]; simp [List.getLast?_replicate, hn0]
  · simp only [Bool.not_eq_true] at hA
    rw [hA]
    by_cases hq : r.quiet < n
    · have : n - r.quiet ≠ 0 := by omega
      simp [List.getLast?_append, List.getLast?_replicate, this, hq]
    · have : n - r.quiet = 0 := by omega
      have h2 : min r.quiet n = n := by omega
      rw [this, h2]
      have hn0 : n ≠ 0 := by omega
      simp [List.getLast?_replicate, hq, hn0]

/-! ## PulseSynchronizer -/

/-- adjacent differences of a list of bits -/
def dl : List Bool → List Bool
  | a :: b :: t => (a ^^ b) :: dl (b :: t)
  | _ => []

def odd (k : Nat) : Bool := k % 2 == 1

theorem odd_succ (k : Nat) : odd (k + 1) = !odd k := by
  unfold odd
  rcases Nat.mod_two_eq_zero_or_one k with h | h <;> simp [Nat.add_mod, h]

theorem dl_length (L : List Bool) : (dl L).length = L.length - 1 := by
  induction L with
  | nil => rfl
  | cons a t ih =>
    cases t with
    | nil => rfl
    | cons b t => simp [dl, ih]

theorem dl_take (L : List Bool) (m : Nat) : dl (L.take (m + 1)) = (dl L).take m := by
  induction L generalizing m with
  | nil => simp [dl]
  | cons a t ih =>
    cases t with
    | nil => simp [dl]
    | cons b t =>
      cases m with
      | zero => simp [dl]
      | succ m =>
        have := ih m
        simp only [List.take_succ_cons] at this ⊢
        simp [dl, this]

/-- appending one element appends one difference -/
theorem dl_snoc (A : List Bool) (r d : Bool) (h : A ≠ []) :
    dl (A ++ [r]) = dl A ++ [(A.getLast?.getD d) ^^ r] := by
  induction A with
  | nil => exact absurd rfl h
  | cons a t ih =>
    cases t with
    | nil => simp [dl]
    | cons b t =>
      have := ih (by simp)
      simp only [List.cons_append] at this ⊢
      simp [dl, this, List.getLast?_cons_cons]

/-- the flops after a shift, followed by the flop that fell off, are the source and the old flops -/
theorem shift_snoc {α : Type} (x d : α) (c : List α) (h : c ≠ []) :
    shift x c ++ [c.getLast?.getD d] = x :: c := by
  unfold shift
  induction c generalizing x with
  | nil => exact absurd rfl h
  | cons a t ih =>
    cases t with
    | nil => simp
    | cons b t =>
      have := ih a (by simp)
      simp only [List.length_cons, List.take_succ_cons, List.cons_append, List.getLast?_cons_cons] at this ⊢
      rw [this]

theorem shift_cons {α : Type} (x : α) (c : List α) (h : c ≠ []) :
    ∃ rest, shift x c = x :: rest := by
  cases c with
  | nil => exact absurd rfl h
  | cons a t => exact ⟨(a :: t).take t.length, by simp [shift]⟩


/-- the adjacent differences of `i_toggle, stage0 … stage{n-1}, r_toggle` are the parities of the
pulse counts of the open window and of the `n` most recent closed windows -/
def PulseRel (n : Nat) (s : PulseState) (r : PulseObs) : Prop :=
  s.inp = r.inp ∧ s.flops.length = n ∧
  dl (s.itog :: s.flops ++ [s.rtog])
    = (((r.pend :: r.wins).map odd) ++ List.replicate (n + 1) false).take (n + 1)

theorem flops_ne_nil {n : Nat} (hn : 1 ≤ n) {c : List Bool} (h : c.length = n) : c ≠ [] := by
  intro h0; rw [h0] at h; simp at h; omega

/-- differences of `i_toggle :: flops` alone: drop the last one -/
theorem pulseRel_dl_flops {n : Nat} (_hn : 1 ≤ n) {s : PulseState} {r : PulseObs}
    (h : PulseRel n s r) :
    dl (s.itog :: s.flops) = (((r.pend :: r.wins).map odd) ++ List.replicate (n + 1) false).take n := by
  obtain ⟨_, hl, hd⟩ := h
  have : s.itog :: s.flops = (s.itog :: s.flops ++ [s.rtog]).take (n + 1) := by
    simp [hl]
  rw [this, dl_take, hd, List.take_take]
  congr 1; omega

theorem pulseRel_oedge {n : Nat} (hn : 1 ≤ n) {s : PulseState} {r : PulseObs} (h : PulseRel n s r)
    (x : Bool) (k : Nat) (hx : odd k = x) :
    dl ((s.itog ^^ x) :: shift s.itog s.flops ++ [s.otog])
      = (((k :: r.pend :: r.wins).map odd) ++ List.replicate (n + 1) false).take (n + 1) := by
  have hne := flops_ne_nil hn h.2.1
  have h1 := pulseRel_dl_flops hn h
  unfold PulseState.otog
  rw [List.cons_append, shift_snoc _ _ _ hne]
  simp only [dl, List.map_cons, List.cons_append, List.take_succ_cons]
  rw [h1]
  simp only [hx, List.cons.injEq]
  refine ⟨?_, by simp⟩
  cases x <;> cases s.itog <;> rfl

theorem pulseRel_step (n : Nat) (hn : 1 ≤ n) (s : PulseState) (r : PulseObs) (e : Ev)
    (h : PulseRel n s r) : PulseRel n (pulseStep s e) (r.step e) := by
  have hne := flops_ne_nil hn h.2.1
  cases e with
  | set v => exact ⟨rfl, h.2.1, h.2.2⟩
  | oedge =>
    refine ⟨h.1, by simp [pulseStep, shift_length, h.2.1], ?_⟩
    have := pulseRel_oedge hn h false 0 rfl
    simpa [pulseStep, PulseObs.step] using this
  | both =>
    by_cases hi : r.inp = true
    · refine ⟨by simp [pulseStep, PulseObs.step, hi, h.1], by simp [pulseStep, shift_length, h.2.1], ?_⟩
      have := pulseRel_oedge hn h true 1 rfl
      simpa [pulseStep, PulseObs.step, hi, h.1] using this
    · refine ⟨by simp [pulseStep, PulseObs.step, hi, h.1], by simp [pulseStep, shift_length, h.2.1], ?_⟩
      have := pulseRel_oedge hn h false 0 rfl
      simpa [pulseStep, PulseObs.step, hi, h.1] using this
  | iedge =>
    by_cases hi : r.inp = true
    · refine ⟨by simp [pulseStep, PulseObs.step, hi, h.1], h.2.1, ?_⟩
      obtain ⟨hI, hl, hd⟩ := h
      cases hc : s.flops with
      | nil => exact absurd hc hne
      | cons a t =>
        rw [hc] at hd
        simp only [pulseStep, PulseObs.step, hi, hI, hc, if_true, List.cons_append, dl, List.map_cons,
          List.take_succ_cons, odd_succ] at hd ⊢
        injection hd with hd1 hd2
        rw [hd2, ← hd1]
        simp
    · simp only [Bool.not_eq_true] at hi
      have : pulseStep s .iedge = s := by
        have h1 := h.1
        cases s
        simp only at h1
        simp [pulseStep, h1, hi]
      rw [this]
      simpa [PulseObs.step, hi] using h

theorem dl_replicate (x : Bool) (m : Nat) : dl (List.replicate m x) = List.replicate (m - 1) false := by
  induction m with
  | zero => rfl
  | succ k ih =>
    cases k with
    | zero => rfl
    | succ j =>
      simp only [List.replicate_succ] at ih ⊢
      simp [dl, ih, List.replicate_succ]

theorem pulseRel_run (n : Nat) (hn : 1 ≤ n) (evs : List Ev) :
    PulseRel n (pulseRun n evs) (pulseObserve evs) := by
  apply foldl_rel (PulseRel n) _ _ (pulseRel_step n hn)
  refine ⟨rfl, by simp [pulseInit], ?_⟩
  have e1 : (false :: List.replicate n false ++ [false]) = List.replicate (n + 2) false := by
    rw [List.replicate_succ, List.replicate_succ']; simp
  have e2 : List.map odd [0] ++ List.replicate (n + 1) false = List.replicate (n + 2) false := by
    simp [odd, List.replicate_succ]
  show dl (false :: List.replicate n false ++ [false]) = List.take (n + 1) (List.map odd [0] ++ _)
  rw [e1, e2, dl_replicate, List.take_replicate]
  congr 1; omega

/-- the output is the parity of the pulse count of the `n`-th most recent window -/
theorem pulseRel_out (n : Nat) (hn : 1 ≤ n) (s : PulseState) (r : PulseObs) (h : PulseRel n s r) :
    s.out = odd (r.wins.getD (n - 1) 0) := by
  obtain ⟨_, hl, hd⟩ := h
  have hne := flops_ne_nil hn hl
  have h1 : (dl (s.itog :: s.flops ++ [s.rtog])).getLast? = some s.out := by
    have := dl_snoc (s.itog :: s.flops) s.rtog false (by simp)
    rw [this, List.getLast?_concat]
    cases hc : s.flops with
    | nil => exact absurd hc hne
    | cons a t => simp [PulseState.out, PulseState.otog, hc, List.getLast?_cons_cons]
  rw [hd, getLast?_take _ _ (by omega) (by simp; omega)] at h1
  have h2 : n + 1 - 1 = n := by omega
  rw [h2] at h1
  rw [List.getD_eq_getElem?_getD]
  by_cases hk : n - 1 < r.wins.length
  · have h3 : n < (List.map odd (r.pend :: r.wins)).length := by simp; omega
    rw [List.getElem?_append_left h3] at h1
    have h4 : (r.pend :: r.wins)[n]? = r.wins[n - 1]? := by
      cases n with
      | zero => omega
      | succ m => simp
    rw [List.getElem?_map, h4, List.getElem?_eq_getElem hk] at h1
    rw [List.getElem?_eq_getElem hk]
    simp at h1 ⊢
    exact h1.symm
  · have h3 : (List.map odd (r.pend :: r.wins)).length ≤ n := by simp; omega
    have h5 : r.wins[n - 1]? = none := by simp; omega
    rw [List.getElem?_append_right h3, List.getElem?_replicate] at h1
    rw [h5]
    have h6 : n - (List.map odd (r.pend :: r.wins)).length < n + 1 := by omega
    rw [if_pos h6] at h1
    simp [odd] at h1 ⊢
    exact h1



/-! ### spacing, counting -/

theorem foldl_inv {σ ε : Type} (P : σ → Prop) (f : σ → ε → σ) (h : ∀ s e, P s → P (f s e)) :
    ∀ (evs : List ε) (s : σ), P s → P (evs.foldl f s) := by
  intro evs
  induction evs with
  | nil => intro s h0; exact h0
  | cons e es ih => intro s h0; exact ih _ (h _ _ h0)

/-- while the schedule is spaced no window holds more than one pulse -/
def SpacedInv (r : PulseObs) : Prop := r.spaced = true → r.pend ≤ 1 ∧ ∀ w ∈ r.wins, w ≤ 1

theorem spacedInv_step (r : PulseObs) (e : Ev) (h : SpacedInv r) : SpacedInv (r.step e) := by
  unfold SpacedInv at *
  cases e with
  | set v => exact h
  | iedge =>
    by_cases hi : r.inp = true
    · simp only [PulseObs.step, hi, if_true, Bool.and_eq_true, beq_iff_eq]
      rintro ⟨h1, h2⟩
      exact ⟨by omega, (h h1).2⟩
    · simp only [PulseObs.step, hi, if_false, Bool.false_eq_true]; exact h
  | oedge =>
    simp only [PulseObs.step]
    intro h1
    have := h h1
    exact ⟨by omega, by simpa using ⟨this.1, this.2⟩⟩
  | both =>
    by_cases hi : r.inp = true
    · simp only [PulseObs.step, hi, if_true]
      intro h1
      have := h h1
      exact ⟨by omega, by simpa using ⟨this.1, this.2⟩⟩
    · simp only [PulseObs.step, hi, if_false, Bool.false_eq_true]
      intro h1
      have := h h1
      exact ⟨by omega, by simpa using ⟨this.1, this.2⟩⟩

theorem spacedInv_run (evs : List Ev) : SpacedInv (pulseObserve evs) := by
  apply foldl_inv SpacedInv _ spacedInv_step
  intro _; exact ⟨by simp [PulseObs.start], by simp [PulseObs.start]⟩

theorem highCyclesFrom_snoc (out : Behaviour) (pre es : List Ev) (e : Ev) :
    highCyclesFrom out pre (es ++ [e])
      = highCyclesFrom out pre es + (if e.isOut && out (pre ++ es ++ [e]) then 1 else 0) := by
  induction es generalizing pre with
  | nil => simp [highCyclesFrom]
  | cons a t ih =>
    simp only [List.cons_append, highCyclesFrom, ih]
    simp [Nat.add_assoc]

theorem highCycles_snoc (out : Behaviour) (es : List Ev) (e : Ev) :
    highCycles out (es ++ [e])
      = highCycles out es + (if e.isOut && out (es ++ [e]) then 1 else 0) := by
  simpa [highCycles] using highCyclesFrom_snoc out [] es e

theorem pulseRun_snoc (n : Nat) (evs : List Ev) (e : Ev) :
    pulseRun n (evs ++ [e]) = pulseStep (pulseRun n evs) e := by
  simp [pulseRun, List.foldl_append]

theorem pulseObserve_snoc (evs : List Ev) (e : Ev) :
    pulseObserve (evs ++ [e]) = (pulseObserve evs).step e := by
  simp [pulseObserve, List.foldl_append]

/-- number of places where adjacent elements differ -/
def diffs (L : List Bool) : Nat := (dl L).count true

def b2n (b : Bool) : Nat := if b then 1 else 0

/-- what an output edge does to the differences of `i_toggle :: flops`: the last one leaves (and is
what the output shows next), a new one enters at the front -/
theorem diffs_shift {n : Nat} (hn : 1 ≤ n) (s : PulseState) (hl : s.flops.length = n) (y : Bool) :
    diffs (s.itog :: s.flops)
        = diffs (shift s.itog s.flops) + b2n ((shift s.itog s.flops).getLast?.getD false ^^ s.otog) ∧
    diffs (y :: shift s.itog s.flops) = b2n (y ^^ s.itog) + diffs (shift s.itog s.flops) := by
  have hne := flops_ne_nil hn hl
  obtain ⟨rest, hr⟩ := shift_cons s.itog s.flops hne
  constructor
  · have h1 := shift_snoc s.itog false s.flops hne
    have h2 := dl_snoc (shift s.itog s.flops) (s.flops.getLast?.getD false) false (by rw [hr]; simp)
    unfold diffs PulseState.otog
    rw [← h1, h2, List.count_append]
    simp [b2n, List.count_cons]
  · unfold diffs
    rw [hr]
    simp [dl, List.count_cons, b2n]
    omega

/-- **Conservation law** (no hypothesis): high output cycles so far, plus pulses in flight, plus
twice the pulses lost, equals the input pulses; nothing is lost iff the schedule is spaced. -/
def Conserved (_n : Nat) (c : Nat) (s : PulseState) (r : PulseObs) : Prop :=
  ∃ lost, c + diffs (s.itog :: s.flops) + 2 * lost = r.pulses ∧
    (r.spaced = true → lost = 0) ∧ (r.spaced = false → 1 ≤ lost)

theorem conserved_step (n : Nat) (hn : 1 ≤ n) (c : Nat) (s : PulseState) (r : PulseObs) (e : Ev)
    (hR : PulseRel n s r) (hS : SpacedInv r) (h : Conserved n c s r) :
    Conserved n (c + (if e.isOut && (pulseStep s e).out then 1 else 0)) (pulseStep s e) (r.step e) := by
  obtain ⟨lost, hc, hs1, hs0⟩ := h
  have hl := hR.2.1
  have hI := hR.1
  have hne := flops_ne_nil hn hl
  cases e with
  | set v => exact ⟨lost, by simpa [pulseStep, PulseObs.step, Ev.isOut] using hc, hs1, hs0⟩
  | oedge =>
    obtain ⟨d1, d2⟩ := diffs_shift hn s hl s.itog
    refine ⟨lost, ?_, hs1, hs0⟩
    show c + (if (true && ((shift s.itog s.flops).getLast?.getD false ^^ s.otog)) = true then 1 else 0)
      + diffs (s.itog :: shift s.itog s.flops) + 2 * lost = r.pulses
    rw [d2]; rw [d1] at hc
    generalize ((shift s.itog s.flops).getLast?.getD false ^^ s.otog) = X at *
    generalize diffs (shift s.itog s.flops) = D at *
    cases X <;> simp [b2n] at * <;> omega
  | both =>
    obtain ⟨d1, d2⟩ := diffs_shift hn s hl (s.itog ^^ s.inp)
    have hstep : r.step .both = if r.inp then
        { r with pend := 1, wins := r.pend :: r.wins, pulses := r.pulses + 1, idle := 0 }
      else { r with pend := 0, wins := r.pend :: r.wins, idle := r.idle + 1 } := rfl
    by_cases hi : r.inp = true
    · rw [hstep, if_pos hi]
      refine ⟨lost, ?_, hs1, hs0⟩
      show c + (if (true && ((shift s.itog s.flops).getLast?.getD false ^^ s.otog)) = true then 1 else 0)
        + diffs ((s.itog ^^ s.inp) :: shift s.itog s.flops) + 2 * lost = r.pulses + 1
      rw [d2, hI, hi]; rw [d1] at hc
      generalize ((shift s.itog s.flops).getLast?.getD false ^^ s.otog) = X at *
      generalize diffs (shift s.itog s.flops) = D at *
      cases X <;> cases s.itog <;> simp [b2n] at * <;> omega
    · rw [hstep, if_neg hi]
      simp only [Bool.not_eq_true] at hi
      refine ⟨lost, ?_, hs1, hs0⟩
      show c + (if (true && ((shift s.itog s.flops).getLast?.getD false ^^ s.otog)) = true then 1 else 0)
        + diffs ((s.itog ^^ s.inp) :: shift s.itog s.flops) + 2 * lost = r.pulses
      rw [d2, hI, hi]; rw [d1] at hc
      generalize ((shift s.itog s.flops).getLast?.getD false ^^ s.otog) = X at *
      generalize diffs (shift s.itog s.flops) = D at *
      cases X <;> cases s.itog <;> simp [b2n] at * <;> omega
  | iedge =>
    have hstep : r.step .iedge = if r.inp then
        { r with pend := r.pend + 1, pulses := r.pulses + 1, idle := 0,
                 spaced := r.spaced && r.pend == 0 }
      else r := rfl
    have hmstep : pulseStep s .iedge = { s with itog := s.itog ^^ s.inp } := rfl
    by_cases hi : r.inp = true
    · rw [hstep, if_pos hi, hmstep, hI, hi]
      -- the first difference is the parity of the open window
      have hd := pulseRel_dl_flops hn hR
      cases hc' : s.flops with
      | nil => exact absurd hc' hne
      | cons a t =>
        rw [hc'] at hd hc
        have hn' : n = (n - 1) + 1 := by omega
        rw [hn'] at hd
        simp only [dl, List.map_cons, List.cons_append, List.take_succ_cons] at hd
        injection hd with hd1 hd2
        have e1 : diffs (s.itog :: a :: t) = b2n (odd r.pend) + diffs (a :: t) := by
          unfold diffs; simp only [dl, List.count_cons, hd1, b2n]; simp; omega
        have e2 : diffs ((s.itog ^^ true) :: a :: t) = b2n (!odd r.pend) + diffs (a :: t) := by
          unfold diffs; simp only [dl, List.count_cons, ← hd1, b2n]
          cases s.itog <;> cases a <;> simp <;> omega
        rw [e1] at hc
        by_cases hp : odd r.pend = true
        · refine ⟨lost + 1, ?_, ?_, fun _ => by omega⟩
          · show c + (if (false && _) = true then 1 else 0) + diffs ((s.itog ^^ true) :: a :: t) + 2 * (lost + 1) = r.pulses + 1
            rw [e2, hp]; rw [hp] at hc
            simp [b2n] at hc ⊢; omega
          · show (r.spaced && r.pend == 0) = true → _
            intro h
            simp only [Bool.and_eq_true, beq_iff_eq] at h
            rw [h.2] at hp; simp [odd] at hp
        · simp only [Bool.not_eq_true] at hp
          refine ⟨lost, ?_, ?_, ?_⟩
          · show c + (if (false && _) = true then 1 else 0) + diffs ((s.itog ^^ true) :: a :: t) + 2 * lost = r.pulses + 1
            rw [e2, hp]; rw [hp] at hc
            simp [b2n] at hc ⊢; omega
          · show (r.spaced && r.pend == 0) = true → _
            intro h
            simp only [Bool.and_eq_true, beq_iff_eq] at h
            exact hs1 h.1
          · show (r.spaced && r.pend == 0) = false → _
            intro h
            by_cases hsp : r.spaced = true
            · -- spaced so far and the open window is even, hence empty: stays spaced
              have := (hS hsp).1
              have hp0 : r.pend = 0 := by
                unfold odd at hp
                have : r.pend % 2 = 0 := by
                  rcases Nat.mod_two_eq_zero_or_one r.pend with h' | h'
                  · exact h'
                  · rw [h'] at hp; simp at hp
                omega
              rw [hsp, hp0] at h; simp at h
            · simp only [Bool.not_eq_true] at hsp
              exact hs0 hsp
    · rw [hstep, if_neg hi, hmstep, hI]
      simp only [Bool.not_eq_true] at hi
      rw [hi]
      refine ⟨lost, ?_, hs1, hs0⟩
      show c + (if (false && _) = true then 1 else 0) + diffs ((s.itog ^^ false) :: s.flops) + 2 * lost = r.pulses
      simpa using hc


theorem diffs_replicate (x : Bool) (m : Nat) : diffs (x :: List.replicate m x) = 0 := by
  unfold diffs
  rw [← List.replicate_succ, dl_replicate]
  simp [List.count_replicate]

theorem conserved_run (n : Nat) (hn : 1 ≤ n) (evs : List Ev) :
    Conserved n (highCycles (Model.pulseOut n) evs) (pulseRun n evs) (pulseObserve evs) := by
  induction evs using snoc_ind with
  | h0 =>
    refine ⟨0, ?_, fun _ => rfl, fun h => by simp [pulseObserve, PulseObs.start] at h⟩
    show 0 + diffs (false :: List.replicate n false) + 2 * 0 = 0
    rw [diffs_replicate]
  | hs l e ih =>
    rw [highCycles_snoc, pulseRun_snoc, pulseObserve_snoc]
    have : Model.pulseOut n (l ++ [e]) = (pulseStep (pulseRun n l) e).out := by
      unfold Model.pulseOut; rw [pulseRun_snoc]
    rw [this]
    exact conserved_step n hn _ _ _ e (pulseRel_run n hn l) (spacedInv_run l) ih

/-- after `idle` output edges without an input pulse the first `idle` flops equal `i_toggle` -/
def IdleRel (n : Nat) (s : PulseState) (r : PulseObs) : Prop :=
  s.inp = r.inp ∧ s.flops.length = n ∧ ∀ j, j < min r.idle n → s.flops[j]? = some s.itog

theorem idleRel_shift {n : Nat} {s : PulseState} {r : PulseObs} (h : IdleRel n s r) :
    ∀ j, j < min (r.idle + 1) n → (shift s.itog s.flops)[j]? = some s.itog := by
  intro j hj
  obtain ⟨_, hl, hf⟩ := h
  unfold shift
  rw [List.getElem?_take, if_pos (by omega)]
  cases j with
  | zero => rfl
  | succ k => simpa using hf k (by omega)

theorem idleRel_step (n : Nat) (s : PulseState) (r : PulseObs) (e : Ev)
    (h : IdleRel n s r) : IdleRel n (pulseStep s e) (r.step e) := by
  have hsh := idleRel_shift h
  obtain ⟨hI, hl, hf⟩ := h
  cases e with
  | set v => exact ⟨rfl, hl, hf⟩
  | oedge => exact ⟨hI, by simp [pulseStep, shift_length, hl], hsh⟩
  | both =>
    have hstep : r.step .both = if r.inp then
        { r with pend := 1, wins := r.pend :: r.wins, pulses := r.pulses + 1, idle := 0 }
      else { r with pend := 0, wins := r.pend :: r.wins, idle := r.idle + 1 } := rfl
    by_cases hi : r.inp = true
    · rw [hstep, if_pos hi]
      exact ⟨hI.trans (by rw [hi]), by simp [pulseStep, shift_length, hl], fun j hj => by simp at hj⟩
    · rw [hstep, if_neg hi]
      simp only [Bool.not_eq_true] at hi
      refine ⟨hI.trans (by rw [hi]), by simp [pulseStep, shift_length, hl], ?_⟩
      show ∀ j, j < min (r.idle + 1) n → (shift s.itog s.flops)[j]? = some (s.itog ^^ s.inp)
      rw [hI, hi]; simpa using hsh
  | iedge =>
    have hstep : r.step .iedge = if r.inp then
        { r with pend := r.pend + 1, pulses := r.pulses + 1, idle := 0,
                 spaced := r.spaced && r.pend == 0 }
      else r := rfl
    by_cases hi : r.inp = true
    · rw [hstep, if_pos hi]
      exact ⟨hI.trans (by rw [hi]), hl, fun j hj => by simp at hj⟩
    · rw [hstep, if_neg hi]
      simp only [Bool.not_eq_true] at hi
      refine ⟨hI, hl, ?_⟩
      show ∀ j, j < min r.idle n → s.flops[j]? = some (s.itog ^^ s.inp)
      rw [hI, hi]; simpa using hf

theorem idleRel_run (n : Nat) (evs : List Ev) : IdleRel n (pulseRun n evs) (pulseObserve evs) := by
  apply foldl_rel (IdleRel n) _ _ (idleRel_step n)
  exact ⟨rfl, by simp [pulseInit], fun j hj => by simp [PulseObs.start] at hj⟩

/-- `n` idle output edges flush the synchroniser: nothing is in flight -/
theorem idleRel_flushed {n : Nat} {s : PulseState} {r : PulseObs} (h : IdleRel n s r)
    (hq : n ≤ r.idle) : diffs (s.itog :: s.flops) = 0 := by
  obtain ⟨_, hl, hf⟩ := h
  have : s.flops = List.replicate n s.itog := by
    apply List.ext_getElem?
    intro j
    by_cases hj : j < n
    · rw [hf j (by omega), List.getElem?_replicate, if_pos hj]
    · rw [List.getElem?_replicate, if_neg hj]; simp; omega
  rw [this, diffs_replicate]

/-! ## recorder lemmas used by the contract sentences -/

theorem outEdges_cons (e : Ev) (es : List Ev) :
    outEdges (e :: es) = outEdges es + (if e.isOut then 1 else 0) := by
  simp [outEdges, List.countP_cons]

/-- one sample is taken per output edge -/
theorem ff_samples_from (w : Nat) (r : FFObs) (evs : List Ev) :
    (evs.foldl (FFObs.step w) r).samples.length = r.samples.length + outEdges evs := by
  induction evs generalizing r with
  | nil => simp [outEdges]
  | cons e es ih =>
    rw [List.foldl_cons, ih, outEdges_cons]
    cases e <;> simp [FFObs.step, Ev.isOut] <;> omega

/-- while nothing drives the input, every output edge samples the same value -/
theorem ff_noSet_from (w : Nat) (r : FFObs) (tail : List Ev) (h : noSet tail = true) :
    tail.foldl (FFObs.step w) r = ⟨r.inp, List.replicate (outEdges tail) r.inp ++ r.samples⟩ := by
  induction tail generalizing r with
  | nil => simp [outEdges]
  | cons e es ih =>
    have h2 : noSet es = true := by
      simp only [noSet, List.all_cons, Bool.and_eq_true] at h ⊢; exact h.2
    rw [List.foldl_cons, ih _ h2, outEdges_cons]
    cases e with
    | set v => simp [noSet] at h
    | iedge => simp [FFObs.step, Ev.isOut]
    | oedge => simp [FFObs.step, Ev.isOut, List.replicate_succ']
    | both => simp [FFObs.step, Ev.isOut, List.replicate_succ']

/-- with the input released and never re-asserted, `quiet` counts output edges -/
theorem async_quiet_from (pos : Bool) (r : AsyncObs) (tail : List Ev)
    (h0 : asserted pos r.inp = false) (h : ∀ e ∈ tail, e.noAssert pos = true) :
    asserted pos (tail.foldl (AsyncObs.step pos) r).inp = false ∧
    (tail.foldl (AsyncObs.step pos) r).quiet = r.quiet + outEdges tail := by
  induction tail generalizing r with
  | nil => exact ⟨h0, by simp [outEdges]⟩
  | cons e es ih =>
    have he := h e (by simp)
    have hes : ∀ e' ∈ es, e'.noAssert pos = true := fun e' m => h e' (by simp [m])
    rw [List.foldl_cons, outEdges_cons]
    cases e with
    | set v =>
      simp only [Ev.noAssert, Bool.not_eq_true'] at he
      have := ih (AsyncObs.step pos r (.set v)) (by simpa [AsyncObs.step] using he) hes
      simpa [AsyncObs.step, he, Ev.isOut] using this
    | iedge => simpa [AsyncObs.step, Ev.isOut] using ih r h0 hes
    | oedge =>
      have := ih (AsyncObs.step pos r .oedge) (by simpa [AsyncObs.step] using h0) hes
      simp only [AsyncObs.step, h0, Bool.false_eq_true, if_false, Ev.isOut, if_true] at this ⊢
      exact ⟨this.1, by omega⟩
    | both =>
      have := ih (AsyncObs.step pos r .both) (by simpa [AsyncObs.step] using h0) hes
      simp only [AsyncObs.step, h0, Bool.false_eq_true, if_false, Ev.isOut, if_true] at this ⊢
      exact ⟨this.1, by omega⟩

/-- once the spacing hypothesis has failed it stays failed: it holds of every prefix -/
theorem spaced_from (r : PulseObs) (q : List Ev) :
    (q.foldl PulseObs.step r).spaced = true → r.spaced = true := by
  induction q generalizing r with
  | nil => exact id
  | cons e es ih =>
    intro h
    have := ih _ h
    cases e with
    | set v => exact this
    | oedge => exact this
    | iedge =>
      by_cases hi : r.inp = true
      · simp only [PulseObs.step, hi, if_true, Bool.and_eq_true] at this; exact this.1
      · simpa [PulseObs.step, hi] using this
    | both =>
      by_cases hi : r.inp = true
      · simpa [PulseObs.step, hi] using this
      · simpa [PulseObs.step, hi] using this

theorem spaced_prefix (p q : List Ev) (h : Spaced (p ++ q)) : Spaced p := by
  unfold Spaced pulseObserve at *
  rw [List.foldl_append] at h
  exact spaced_from _ q h

end Amaranth.Cdc
