import AmaranthVerif.Proofs.EngineClock

/-!
# Testbenches: order, delays, sampling
-/

namespace Amaranth.Engine
open Amaranth

/-! ## Whole runs do not depend on the schedule -/

theorem mkSim_sched_perm (D : Design) (kinds : List ProcKind) (scripts : List (List TbOp)) (a b : Sched) (fuel : Nat)
    (hc : CompatWrites (simDefs D kinds scripts)) (hn : SchedNodup a) (he : SchedEquiv a b) :
    mkSim D kinds scripts a fuel = mkSim D kinds scripts b fuel := by
  unfold mkSim
  congr 1
  funext s
  rw [settle_sched_perm _ (simDefs_wakeComm D kinds scripts) hc a b hn he]

/-! ## Testbench order -/

/-- the turn of testbench `t` in one pass over `_testbenches` -/
def tbTurn (S : Sim) (acc : EState × Bool) (t : Nat) : EState × Bool :=
  let o := S.nproc + t
  let l := getLoc acc.1 o
  if l.runnable then
    let script := S.scripts.getD t []
    (tbExec S t script (2 * script.length + 2) (setLoc acc.1 o { l with runnable := false }), true)
  else acc

theorem tbPass_eq (S : Sim) (s : EState) :
    tbPass S s = (List.range S.scripts.length).foldl (tbTurn S) (s, false) := rfl

/-- testbench `n` takes its turn in the state left by the turns of testbenches `0 … n-1`, taken in
this order -/
theorem tbTurns_succ (S : Sim) (acc : EState × Bool) (n : Nat) :
    (List.range (n + 1)).foldl (tbTurn S) acc = tbTurn S ((List.range n).foldl (tbTurn S) acc) n := by
  rw [List.range_succ, List.foldl_append]; rfl

/-! ## Delays -/

/-- a testbench that awaits a trigger with a delay of `n` registers the deadline `now + n` -/
theorem tbExec_wait_delay (S : Sim) (t : Nat) (script : List TbOp) (fuel : Nat) (s : EState) (tr : Trigger) (n : Nat)
    (hop : script[(getLoc s (S.nproc + t)).pc]? = some (.wait tr))
    (hrep : (getLoc s (S.nproc + t)).report = false) (hd : tr.delay? = some n) :
    (tbExec S t script (fuel + 1) s).timers = s.timers.set (S.nproc + t) (some (s.now + n)) ∧
    (tbExec S t script (fuel + 1) s).now = s.now ∧
    (tbExec S t script (fuel + 1) s).curr = s.curr := by
  simp only [tbExec, hop, hrep, TbOp.trigger, Option.getD_some, hd, setLoc]
  exact ⟨rfl, rfl, rfl⟩

/-- the timeline waker of owner `o`, registered for the instant `T`, is called by exactly the
`_PyTimeline.advance()` that moves `now` to `T`; until then it stays registered and `now ≤ T` -/
theorem waker_fires_at_deadline (ps : List ProcDef) (s : EState) (o T : Nat) (l : Local)
    (ht : s.timers[o]? = some (some T)) (hl : s.locals[o]? = some l) :
    ((advanceTime ps s).1.now = T ∧ (advanceTime ps s).1.locals[o]? = some ((ps.getD o default).fire l) ∧
      (advanceTime ps s).1.timers[o]? = some none) ∨
    ((advanceTime ps s).1.now < T ∧ (advanceTime ps s).1.locals[o]? = some l ∧
      (advanceTime ps s).1.timers[o]? = some (some T)) := by
  rcases advanceTime_spec ps s with ⟨_, hnone⟩ | ⟨d, _, hmin, _, hnow, htm, hloc, _⟩
  · exact absurd ht (hnone o _)
  · have hd : d ≤ T := hmin o _ ht
    by_cases hdk : d = T
    · left
      subst hdk
      exact ⟨hnow, by rw [hloc o, if_pos ht, hl]; rfl, by rw [htm o, if_pos ht]⟩
    · right
      have hne : s.timers[o]? ≠ some (some d) := by
        rw [ht]; intro h; injection h with h; injection h with h; exact hdk h.symm
      exact ⟨by rw [hnow]; omega, by rw [hloc o, if_neg hne]; exact hl, by rw [htm o, if_neg hne]; exact ht⟩

/-! ## Sampling -/

@[simp] theorem applyEffect_obs (s : EState) (p : Nat) (e : Option Effect) : (applyEffect s p e).obs = s.obs := by
  cases e <;> rfl

/-- processes never write `curr` -/
theorem runProcs_curr (ps : List ProcDef) (order : List Nat) (s : EState) : (runProcs ps order s).curr = s.curr := by
  unfold runProcs
  induction order generalizing s with
  | nil => rfl
  | cons p rest ih =>
    simp only [List.foldl_cons]
    rw [ih]
    unfold stepProc
    exact applyEffect_curr _ _ _

/-- a slot that is not pending keeps its value through a commit -/
theorem commit_curr_of_eq (ps : List ProcDef) (order : List Nat) (s : EState) (i : Nat)
    (h : s.next.val i = s.curr.val i) : (commit ps order s).curr.val i = s.curr.val i := by
  unfold commit
  induction order generalizing s with
  | nil => rfl
  | cons j rest ih =>
    simp only [List.foldl_cons]
    by_cases hji : j = i
    · subst hji
      rw [commitSlot_of_eq ps s j h.symm]
      exact ih s h
    · rw [ih (commitSlot ps s j) (by rw [commitSlot_next, commitSlot_curr_ne _ _ _ _ hji]; exact h)]
      exact commitSlot_curr_ne _ _ _ _ hji

/-- the values a waiting testbench gets are sampled in phase 1a of the delta, from `curr` as the
previous commit left it — before any process of this delta runs -/
theorem trigPhase_tb (ps : List ProcDef) (ctx : Ctx) (doms : List DomCfg) (script : List TbOp) (o : Nat)
    (hdef : ps[o]? = some (tbDef ctx doms script)) (s : EState) (l : Local)
    (hl : s.locals[o]? = some l) (ha : l.active = true) :
    (trigPhase ps s).locals[o]? = some (trigRun ctx (tbTrigger doms script l) l s.curr) := by
  unfold trigPhase
  simp only [List.getElem?_zipWith, hdef, hl, ha, if_true, tbDef]

/-- the committed edge activates a testbench that waits for the tick of this domain -/
theorem tick_activated (cfg : DomCfg) (es : List Expr) (l : Local) (old new : Int) (hw : l.waiting = true)
    (hedge : bitOf old 0 != bitOf new 0 && bitOf new 0 == cfg.posedge) :
    (trigWake (tickTrigger cfg es) l cfg.clk old new).active = true := by
  unfold trigWake
  simp only [hw, if_true]
  have : (tickTrigger cfg es).any (·.firesOn cfg.clk old new) = true := by
    unfold tickTrigger
    split <;> simp [TrigElem.firesOn, hedge]
  simp [this]

/-- a delta neither runs a testbench nor records an observation -/
theorem delta_obs (ps : List ProcDef) (o : Orders) (s : EState) : (delta ps o s).1.obs = s.obs := by
  unfold delta
  simp only
  have h1 : ∀ (l : List Nat) (z : EState), (l.foldl (commitSlot ps) z).obs = z.obs := by
    intro l
    induction l with
    | nil => intro z; rfl
    | cons i rest ih =>
      intro z
      simp only [List.foldl_cons]; rw [ih]
      unfold commitSlot; simp only; split <;> rfl
  have h2 : ∀ (l : List Nat) (z : EState), (l.foldl (stepProc ps) z).obs = z.obs := by
    intro l
    induction l with
    | nil => intro z; rfl
    | cons i rest ih =>
      intro z
      simp only [List.foldl_cons]; rw [ih]
      unfold stepProc; exact applyEffect_obs _ _ _
  unfold commit runProcs
  rw [h1, h2]; rfl

/-! ## An instance of `DisjointWrites`: two clocks on different signals -/

theorem clock_updates_slot (slot phase period : Nat) (l : Local) (cur : Env) :
    ∀ u ∈ ((clockDef slot phase period).run l cur).updates, u.slot = slot := by
  intro u hu
  simp only [clockDef] at hu
  split at hu
  · simp at hu
  · simp at hu; rw [hu]

theorem updatesOf_mem (ps : List ProcDef) (s : EState) (p : Nat) (u : Update) (h : u ∈ updatesOf ps s p) :
    ∃ d l, ps[p]? = some d ∧ u ∈ (d.run l s.curr).updates := by
  unfold updatesOf effectOf at h
  cases hd : ps[p]? with
  | none => simp [hd] at h
  | some d =>
    cases hl : s.locals[p]? with
    | none => simp [hd, hl] at h
    | some l =>
      by_cases hr : l.runnable = true
      · simp only [hd, hl, hr, if_true] at h
        exact ⟨d, _, rfl, h⟩
      · simp [hd, hl, hr] at h

def twoClocks : List ProcDef := [clockDef 0 4 7, clockDef 1 0 10]

theorem twoClocks_disjoint : DisjointWrites twoClocks := by
  intro s p q hpq u hu v hv
  obtain ⟨d, l, hd, hu⟩ := updatesOf_mem _ _ _ _ hu
  obtain ⟨d', l', hd', hv⟩ := updatesOf_mem _ _ _ _ hv
  left
  match p, q with
  | 0, 0 => exact absurd rfl hpq
  | 0, 1 =>
    simp only [twoClocks, List.getElem?_cons_zero, List.getElem?_cons_succ, Option.some.injEq] at hd hd'
    subst hd; subst hd'
    rw [clock_updates_slot _ _ _ _ _ u hu, clock_updates_slot _ _ _ _ _ v hv]; decide
  | 1, 0 =>
    simp only [twoClocks, List.getElem?_cons_zero, List.getElem?_cons_succ, Option.some.injEq] at hd hd'
    subst hd; subst hd'
    rw [clock_updates_slot _ _ _ _ _ u hu, clock_updates_slot _ _ _ _ _ v hv]; decide
  | 1, 1 => exact absurd rfl hpq
  | p + 2, _ => simp [twoClocks] at hd
  | 0, q + 2 => simp [twoClocks] at hd'
  | 1, q + 2 => simp [twoClocks] at hd'


end Amaranth.Engine
