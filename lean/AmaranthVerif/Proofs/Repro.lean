import AmaranthVerif.Model.Repro
import AmaranthVerif.Spec.Repro

/-!
# Lemmas for C09: `sorted` is a canonical enumeration; association lists under permutation;
# the missing-domain loop; extraction
-/

namespace Amaranth.Repro

/-! ## `sortNames` -/

theorem leName_iff {a b : String} : leName a b = true ↔ a ≤ b := by simp [leName]

theorem insertName_perm (a : String) (l : List String) : (insertName a l).Perm (a :: l) := by
  induction l with
  | nil => exact List.Perm.refl _
  | cons b bs ih =>
    unfold insertName
    split
    · exact ((List.perm_cons b).mpr ih).trans (List.Perm.swap a b bs)
    · exact List.Perm.refl _

theorem sortNames_perm (l : List String) : (sortNames l).Perm l := by
  induction l with
  | nil => exact List.Perm.refl _
  | cons a as ih => exact (insertName_perm a _).trans ((List.perm_cons a).mpr ih)

theorem insertName_sorted (a : String) (l : List String) (h : l.Pairwise (· ≤ ·)) :
    (insertName a l).Pairwise (· ≤ ·) := by
  induction l with
  | nil => simp [insertName]
  | cons b bs ih =>
    rw [List.pairwise_cons] at h
    unfold insertName
    split
    · rename_i hba
      rw [List.pairwise_cons]
      refine ⟨?_, ih h.2⟩
      intro x hx
      rcases List.mem_cons.mp ((insertName_perm a bs).mem_iff.mp hx) with hx | hx
      · cases hx; exact leName_iff.mp hba
      · exact h.1 x hx
    · rename_i hba
      have hab : a ≤ b := by
        have : ¬ b ≤ a := fun h' => hba (leName_iff.mpr h')
        exact String.not_lt.mp (String.lt_asymm (String.not_le.mp this))
      rw [List.pairwise_cons]
      refine ⟨?_, List.pairwise_cons.mpr h⟩
      intro x hx
      rcases List.mem_cons.mp hx with hx | hx
      · cases hx; exact hab
      · exact String.le_trans hab (h.1 x hx)

theorem sortNames_sorted (l : List String) : (sortNames l).Pairwise (· ≤ ·) := by
  induction l with
  | nil => simp [sortNames]
  | cons a as ih => exact insertName_sorted a _ ih

/-- two ascending enumerations of the same collection are the same list -/
theorem ascending_unique {l₁ l₂ : List String} (h₁ : l₁.Pairwise (· ≤ ·)) (h₂ : l₂.Pairwise (· ≤ ·))
    (hp : l₁.Perm l₂) : l₁ = l₂ :=
  List.Perm.eq_of_pairwise (fun _ _ _ _ hab hba => String.le_antisymm hab hba) h₁ h₂ hp

/-- `sorted` of a collection does not depend on the order in which the collection is enumerated -/
theorem sortNames_congr {l₁ l₂ : List String} (h : l₁.Perm l₂) : sortNames l₁ = sortNames l₂ :=
  ascending_unique (sortNames_sorted l₁) (sortNames_sorted l₂)
    ((sortNames_perm l₁).trans (h.trans (sortNames_perm l₂).symm))

theorem sortNames_of_sorted {l : List String} (h : l.Pairwise (· ≤ ·)) : sortNames l = l :=
  ascending_unique (sortNames_sorted l) h (sortNames_perm l)

theorem sortNames_idem (l : List String) : sortNames (sortNames l) = sortNames l :=
  sortNames_of_sorted (sortNames_sorted l)

/-! ## The specification's ascending enumeration -/

theorem place_perm (a : String) (l : List String) : (Spec.place a l).Perm (a :: l) := by
  induction l with
  | nil => exact List.Perm.refl _
  | cons b bs ih =>
    unfold Spec.place
    split
    · exact List.Perm.refl _
    · exact ((List.perm_cons b).mpr ih).trans (List.Perm.swap a b bs)

theorem place_sorted (a : String) (l : List String) (h : l.Pairwise (· ≤ ·)) :
    (Spec.place a l).Pairwise (· ≤ ·) := by
  induction l with
  | nil => simp [Spec.place]
  | cons b bs ih =>
    rw [List.pairwise_cons] at h
    unfold Spec.place
    split
    · rename_i hab
      have hab : a ≤ b := String.not_lt.mp (String.lt_asymm hab)
      rw [List.pairwise_cons]
      refine ⟨?_, List.pairwise_cons.mpr h⟩
      intro x hx
      rcases List.mem_cons.mp hx with hx | hx
      · cases hx; exact hab
      · exact String.le_trans hab (h.1 x hx)
    · rename_i hab
      have hba : b ≤ a := String.not_lt.mp hab
      rw [List.pairwise_cons]
      refine ⟨?_, ih h.2⟩
      intro x hx
      rcases List.mem_cons.mp ((place_perm a bs).mem_iff.mp hx) with hx | hx
      · cases hx; exact hba
      · exact h.1 x hx

theorem ascending_spec (l : List String) : Spec.IsAscendingEnumOf (Spec.ascending l) l := by
  induction l with
  | nil => exact ⟨List.Perm.refl _, by simp [Spec.ascending]⟩
  | cons a as ih =>
    exact ⟨(place_perm a _).trans ((List.perm_cons a).mpr ih.1), place_sorted a _ ih.2⟩

/-- the model's `sorted` computes the specification's ascending enumeration -/
theorem sortNames_eq_ascending (l : List String) : sortNames l = Spec.ascending l :=
  ascending_unique (sortNames_sorted l) (ascending_spec l).2
    ((sortNames_perm l).trans (ascending_spec l).1.symm)

/-! ## Association lists under permutation -/

theorem lookup_perm {β : Type} {a b : List (String × β)} (h : a.Perm b) (hn : (a.map (·.1)).Nodup) (k : String) :
    a.lookup k = b.lookup k := by
  induction h with
  | nil => rfl
  | cons x _ ih =>
    rw [List.map_cons, List.nodup_cons] at hn
    obtain ⟨k', v⟩ := x
    simp only [List.lookup_cons]
    split
    · rfl
    · exact ih hn.2
  | swap x y l =>
    obtain ⟨kx, vx⟩ := x
    obtain ⟨ky, vy⟩ := y
    simp only [List.map_cons, List.nodup_cons, List.mem_cons, not_or] at hn
    simp only [List.lookup_cons]
    by_cases h1 : k == ky <;> by_cases h2 : k == kx <;> simp [h1, h2]
    exfalso
    have e1 : k = ky := by simpa using h1
    have e2 : k = kx := by simpa using h2
    exact hn.1.1 (e1.symm.trans e2)
  | trans h₁ _ ih₁ ih₂ =>
    rw [ih₁ hn]
    exact ih₂ ((h₁.map (·.1)).nodup_iff.mp hn)

/-! ## Reset and fresh construction, slot by slot and process by process -/

theorem slot_reset_fresh (x : Slot) : x.reset = x.decl.fresh := by cases x <;> rfl
theorem proc_reset_fresh (x : Proc) : x.reset = x.decl.fresh := by cases x <;> rfl
theorem slot_fresh_decl (d : SlotDecl) : d.fresh.decl = d := by cases d <;> rfl
theorem proc_fresh_decl (d : ProcDecl) : d.fresh.decl = d := by cases d <;> rfl

/-- the initial state of a design is a state of that design -/
theorem design_initial (d : Design) : (initial d).design = d := by
  cases d
  simp only [initial, EngineState.design, List.map_map]
  congr 1 <;> (apply List.map_id''; intro x) <;> first | exact slot_fresh_decl x | exact proc_fresh_decl x

/-! ## The static part of an engine state never changes -/

theorem map_set_same {α β : Type} (g : α → β) (l : List α) (i : Nat) (x : α)
    (h : ∀ y, l[i]? = some y → g x = g y) : (l.set i x).map g = l.map g := by
  induction l generalizing i with
  | nil => rfl
  | cons a as ih =>
    cases i with
    | zero => simp only [List.set_cons_zero, List.map_cons]; rw [h a (by simp)]
    | succ j =>
      simp only [List.set_cons_succ, List.map_cons]
      rw [ih j (fun y hy => h y (by simpa using hy))]

theorem map_modify_same {α β : Type} (g : α → β) (l : List α) (i : Nat) (f : α → α)
    (h : ∀ y, g (f y) = g y) : (l.modify i f).map g = l.map g := by
  induction l generalizing i with
  | nil => simp
  | cons a as ih =>
    cases i with
    | zero => simp [h a]
    | succ j => simp [ih j]

theorem slot_commit_decl (x : Slot) : x.commit.decl = x.decl := by cases x <;> rfl

theorem opUpdate_slots_decl (s : EngineState) (i : Nat) (v : Int) :
    (opUpdate s i v).slots.map Slot.decl = s.slots.map Slot.decl := by
  unfold opUpdate
  split
  · rename_i init c n hs
    split
    · exact map_set_same _ _ _ _ (fun y hy => by rw [hs] at hy; cases hy; rfl)
    · rfl
  · rfl

theorem opUpdate_procs (s : EngineState) (i : Nat) (v : Int) :
    (opUpdate s i v).procs = s.procs ∧ (opUpdate s i v).tbs = s.tbs
      ∧ (opUpdate s i v).timeline = s.timeline := by
  unfold opUpdate
  split
  · split <;> simp
  · simp

theorem opUpdate_design (s : EngineState) (i : Nat) (v : Int) : (opUpdate s i v).design = s.design := by
  simp only [EngineState.design, opUpdate_slots_decl, (opUpdate_procs s i v).1, (opUpdate_procs s i v).2.1]

theorem opMemWrite_design (s : EngineState) (i a : Nat) (v : Int) : (opMemWrite s i a v).design = s.design := by
  unfold opMemWrite
  split
  · rename_i init data q hs
    split
    · simp only [EngineState.design]
      congr 1
      exact map_set_same _ _ _ _ (fun y hy => by rw [hs] at hy; cases hy; rfl)
    · rfl
  · rfl

theorem foldl_modify_decl (pending : List Nat) (sl : List Slot) :
    (pending.foldl (fun sl i => sl.modify i Slot.commit) sl).map Slot.decl = sl.map Slot.decl := by
  induction pending generalizing sl with
  | nil => rfl
  | cons i is ih =>
    simp only [List.foldl_cons]
    rw [ih, map_modify_same _ _ _ _ slot_commit_decl]

theorem opCommit_design (s : EngineState) : (opCommit s).design = s.design := by
  simp only [opCommit, EngineState.design, foldl_modify_decl]

theorem opRunClock_design (s : EngineState) (k w : Nat) : (opRunClock s k w).design = s.design := by
  unfold opRunClock
  split
  · rename_i slot ph pe r cr hk
    simp only [EngineState.design]
    congr 1
    exact map_set_same _ _ _ _ (fun y hy => by rw [hk] at hy; cases hy; rfl)
  · rename_i slot ph pe r cr hk
    split
    · rename_i i0 c n hs
      have h := opUpdate_procs s slot (if c == 0 then 1 else 0)
      simp only [EngineState.design, opUpdate_slots_decl, h.1, h.2.1]
      congr 1
      exact map_set_same _ _ _ _ (fun y hy => by rw [hk] at hy; cases hy; rfl)
    · simp only [EngineState.design]
      congr 1
      exact map_set_same _ _ _ _ (fun y hy => by rw [hk] at hy; cases hy; rfl)
  · rfl

theorem onProcs_design (s : EngineState) (tb : Bool) (k : Nat) (f : Proc → Proc) (h : ∀ p, (f p).decl = p.decl) :
    (onProcs s tb k f).design = s.design := by
  unfold onProcs
  split <;> simp only [EngineState.design, map_modify_same _ _ _ _ h]

theorem step_design (s : EngineState) (op : Op) : (step s op).1.design = s.design := by
  cases op <;> simp only [step]
  case update i v => exact opUpdate_design s i v
  case memWrite i a v => exact opMemWrite_design s i a v
  case commit => exact opCommit_design s
  case setWaker => rfl
  case advance => rfl
  case runClock k w => exact opRunClock_design s k w
  case runRtl k => exact onProcs_design _ _ _ _ (fun p => by cases p <;> rfl)
  case wakeProc k => exact onProcs_design _ _ _ _ (fun p => by cases p <;> rfl)
  case coroAwait tb k t => exact onProcs_design _ _ _ _ (fun p => by cases p <;> rfl)
  case coroFinish tb k => exact onProcs_design _ _ _ _ (fun p => by cases p <;> rfl)
  case triggerRun tb k => exact onProcs_design _ _ _ _ (fun p => by cases p <;> rfl)
  case activate => rfl
  case clearActive => rfl
  case setCritical tb k v => exact onProcs_design _ _ _ _ (fun p => by cases p <;> rfl)
  case setRunning => rfl

theorem run_design (s : EngineState) (script : List Op) : (run s script).1.design = s.design := by
  induction script generalizing s with
  | nil => rfl
  | cons op ops ih =>
    simp only [run]
    rw [ih, step_design]

/-! ## Build plans -/

theorem addFile_ok {p p' : Plan} {n : String} {c : Bytes} (h : p.addFile n c = .ok p') :
    p' = { p with files := p.files ++ [(n, c)] } ∧ n ∉ p.names := by
  unfold Plan.addFile at h
  split at h
  · cases h
  · split at h
    · cases h
    · rename_i hc _
      cases h
      exact ⟨rfl, by simpa using hc⟩

theorem foldl_addFile_ok (calls : List (String × Bytes)) (p0 p : Plan)
    (h : calls.foldlM (fun p c => p.addFile c.1 c.2) p0 = .ok p) (hn : p0.names.Nodup) :
    p.script = p0.script ∧ p.files = p0.files ++ calls ∧ p.names.Nodup := by
  induction calls generalizing p0 with
  | nil =>
    simp only [List.foldlM_nil, pure, Except.pure] at h
    cases h
    exact ⟨rfl, by simp, hn⟩
  | cons c rest ih =>
    rw [List.foldlM_cons] at h
    cases hc : p0.addFile c.1 c.2 with
    | error e => rw [hc] at h; cases h
    | ok p1 =>
      rw [hc] at h
      obtain ⟨e, hnot⟩ := addFile_ok hc
      have hn1 : p1.names.Nodup := by
        subst e
        simp only [Plan.names, List.map_append, List.map_cons, List.map_nil]
        exact List.nodup_append.mpr ⟨hn, by simp, by
          intro a ha b hb
          simp only [List.mem_singleton] at hb
          subst hb
          intro hab
          subst hab
          exact hnot ha⟩
      obtain ⟨h1, h2, h3⟩ := ih p1 h hn1
      subst e
      exact ⟨h1, by simp [h2], h3⟩

/-- a plan built by `add_file` calls holds exactly the files of the calls, in call order, and the names are
pairwise distinct -/
theorem ofCalls_ok {script : String} {calls : List (String × Bytes)} {p : Plan}
    (h : Plan.ofCalls script calls = .ok p) : p = ⟨script, calls⟩ ∧ (calls.map (·.1)).Nodup := by
  obtain ⟨h1, h2, h3⟩ := foldl_addFile_ok calls ⟨script, []⟩ p h (by simp [Plan.names])
  simp only [List.nil_append] at h2
  cases p
  simp only at h1 h2
  subst h1 h2
  exact ⟨rfl, h3⟩

theorem content_congr {p₁ p₂ : Plan} (hp : p₁.files.Perm p₂.files) (hn : p₁.names.Nodup) (n : String) :
    p₁.content n = p₂.content n := by
  simp only [Plan.content, lookup_perm hp hn n]

theorem names_sorted_congr {p₁ p₂ : Plan} (hp : p₁.files.Perm p₂.files) :
    sortNames p₁.names = sortNames p₂.names :=
  sortNames_congr (by unfold Plan.names; exact hp.map _)

theorem digestInput_congr {p₁ p₂ : Plan} (hs : p₁.script = p₂.script) (hp : p₁.files.Perm p₂.files)
    (hn : p₁.names.Nodup) : p₁.digestInput = p₂.digestInput := by
  simp only [Plan.digestInput, names_sorted_congr hp, hs]
  congr 2
  funext n
  rw [content_congr hp hn n]

theorem archive_congr {p₁ p₂ : Plan} (hp : p₁.files.Perm p₂.files) (hn : p₁.names.Nodup) :
    p₁.archive = p₂.archive := by
  simp only [Plan.archive, names_sorted_congr hp]
  congr 1
  funext n
  rw [content_congr hp hn n]

theorem archive_names (p : Plan) : p.archive.map (·.name) = sortNames p.names := by
  simp [Plan.archive, List.map_map, Function.comp_def]

theorem content_eq_contentOf (p : Plan) (n : String) : p.content n = Spec.contentOf p.files n := by
  unfold Plan.content Spec.contentOf
  generalize p.files = files
  induction files with
  | nil => rfl
  | cons e es ih =>
    obtain ⟨k, v⟩ := e
    simp only [List.lookup_cons, List.find?_cons]
    by_cases hk : n = k
    · subst hk; simp
    · have h1 : (n == k) = false := by simpa using hk
      have h2 : (k == n) = false := by simpa using (fun h => hk h.symm)
      simp only [h1, h2]
      exact ih

/-! ## Extraction -/

/-- the path each file of the plan is written to -/
def planPaths (p : Plan) : List (List String) := p.files.map (fun f => pathParts f.1)

/-- what `extract` needs from a plan to succeed in an empty directory: after `pathlib` normalisation
(`a//b`, `./a`) no two files have the same path, no path is empty (`.`), none contains `..`, and none is a
directory of another -/
structure Extractable (p : Plan) : Prop where
  nodup : (planPaths p).Nodup
  noParent : ∀ q ∈ planPaths p, ".." ∉ q
  nonempty : ∀ q ∈ planPaths p, q ≠ []
  prefixFree : ∀ a ∈ planPaths p, ∀ b ∈ planPaths p, a ∉ properPrefixes b

/-- the tree after the files `done` have been written: exactly these files, and only directories that lead
to one of them -/
def ExtInv (done : List (String × Bytes)) (t : Tree) : Prop :=
  t.files = done.map (fun f => (pathParts f.1, f.2))
    ∧ ∀ d ∈ t.dirs, ∃ f ∈ done, d ∈ properPrefixes (pathParts f.1)

theorem mem_addDirs (ps ds : List (List String)) (d : List String)
    (h : d ∈ ps.foldl (fun ds d => if ds.contains d then ds else ds ++ [d]) ds) : d ∈ ds ∨ d ∈ ps := by
  induction ps generalizing ds with
  | nil => exact Or.inl h
  | cons q qs ih =>
    simp only [List.foldl_cons] at h
    rcases ih _ h with h' | h'
    · split at h'
      · exact Or.inl h'
      · rcases List.mem_append.mp h' with h'' | h''
        · exact Or.inl h''
        · simp only [List.mem_singleton] at h''
          subst h''
          exact Or.inr (List.mem_cons_self ..)
    · exact Or.inr (List.mem_cons_of_mem _ h')

theorem extractOne_ok (all done : List (String × Bytes)) (x : String × Bytes) (t : Tree)
    (hP : ∀ f ∈ all, ".." ∉ pathParts f.1) (hE : ∀ f ∈ all, pathParts f.1 ≠ [])
    (hF : ∀ f ∈ all, ∀ g ∈ all, pathParts f.1 ∉ properPrefixes (pathParts g.1))
    (hsub : ∀ f ∈ done, f ∈ all) (hx : x ∈ all)
    (hnew : ∀ f ∈ done, pathParts f.1 ≠ pathParts x.1) (inv : ExtInv done t) :
    ∃ t', extractOne t x = .ok t' ∧ ExtInv (done ++ [x]) t' := by
  obtain ⟨hfiles, hdirs⟩ := inv
  have h1 : (pathParts x.1).contains ".." = false := by
    have := hP x hx
    simpa using this
  have h2 : ((pathParts x.1).isEmpty || t.dirs.contains (pathParts x.1)) = false := by
    rw [Bool.or_eq_false_iff]
    refine ⟨by simpa using hE x hx, ?_⟩
    rw [Bool.eq_false_iff]
    intro hc
    have hm : pathParts x.1 ∈ t.dirs := by simpa using hc
    obtain ⟨f, hf, hpre⟩ := hdirs _ hm
    exact hF x hx f (hsub f hf) hpre
  have h3 : (properPrefixes (pathParts x.1)).any t.isFile = false := by
    rw [Bool.eq_false_iff]
    intro hc
    rw [List.any_eq_true] at hc
    obtain ⟨d, hd, hfile⟩ := hc
    unfold Tree.isFile at hfile
    rw [List.any_eq_true] at hfile
    obtain ⟨e, he, hed⟩ := hfile
    rw [hfiles, List.mem_map] at he
    obtain ⟨f, hf, hfe⟩ := he
    subst hfe
    have : pathParts f.1 = d := by simpa using hed
    subst this
    exact hF f (hsub f hf) x hx hd
  have hfilter : t.files.filter (fun e => e.1 != pathParts x.1) = t.files := by
    rw [List.filter_eq_self]
    intro e he
    rw [hfiles, List.mem_map] at he
    obtain ⟨f, hf, hfe⟩ := he
    subst hfe
    simpa using hnew f hf
  refine ⟨{ dirs := (properPrefixes (pathParts x.1)).foldl
                      (fun ds d => if ds.contains d then ds else ds ++ [d]) t.dirs,
            files := t.files ++ [(pathParts x.1, x.2)] }, ?_, ?_, ?_⟩
  · simp only [extractOne, h1, h2, h3, hfilter, Bool.false_eq_true, if_false]
  · simp [hfiles]
  · intro d hd
    rcases mem_addDirs _ _ _ hd with h | h
    · obtain ⟨f, hf, hpre⟩ := hdirs d h
      exact ⟨f, List.mem_append_left _ hf, hpre⟩
    · exact ⟨x, by simp, h⟩

theorem extract_fold (all : List (String × Bytes))
    (hP : ∀ f ∈ all, ".." ∉ pathParts f.1) (hE : ∀ f ∈ all, pathParts f.1 ≠ [])
    (hF : ∀ f ∈ all, ∀ g ∈ all, pathParts f.1 ∉ properPrefixes (pathParts g.1))
    (hN : (all.map (fun f => pathParts f.1)).Nodup)
    (rest done : List (String × Bytes)) (t : Tree) (hsplit : all = done ++ rest) (inv : ExtInv done t) :
    ∃ t', rest.foldlM extractOne t = .ok t' ∧ ExtInv all t' := by
  induction rest generalizing done t with
  | nil =>
    refine ⟨t, rfl, ?_⟩
    rw [hsplit, List.append_nil]
    exact inv
  | cons x rest ih =>
    have hx : x ∈ all := by rw [hsplit]; simp
    have hsub : ∀ f ∈ done, f ∈ all := fun f hf => by rw [hsplit]; exact List.mem_append_left _ hf
    have hnew : ∀ f ∈ done, pathParts f.1 ≠ pathParts x.1 := by
      intro f hf heq
      rw [hsplit, List.map_append, List.map_cons, List.nodup_append] at hN
      exact hN.2.2 _ (List.mem_map_of_mem hf) _ (List.mem_cons_self ..) heq
    obtain ⟨t1, h1, inv1⟩ := extractOne_ok all done x t hP hE hF hsub hx hnew inv
    obtain ⟨t', h', inv'⟩ := ih (done ++ [x]) t1 (by rw [hsplit]; simp) inv1
    refine ⟨t', ?_, inv'⟩
    rw [List.foldlM_cons, h1]
    exact h'

/-! ## The missing-domain loop with a callback that creates a domain of the requested name -/

theorem withDomains_self (f : Frag) : f.withDomains f.domains = f := by cases f; rfl

theorem propagateDown_domains (f : Frag) : (propagateDown f).domains = f.domains := by
  cases f
  simp [propagateDown, propagateInto, inheritDomains, Frag.domains]

theorem createLoop_domains (r : String → Bool) (missing : String → Missing)
    (hm : ∀ n, missing n = .domain ⟨n, r n⟩) (names : List String) (f : Frag) (new0 : List Dom)
    (hnd : names.Nodup) (hc : "comb" ∉ names) (hd : ∀ n ∈ names, n ∉ f.domainNames) :
    names.foldlM (createStep missing) (f, new0)
      = .ok (f.withDomains (f.domains ++ names.map (fun n => ⟨n, r n⟩)),
             new0 ++ names.map (fun n => ⟨n, r n⟩)) := by
  induction names generalizing f new0 with
  | nil => simp [withDomains_self, pure, Except.pure]
  | cons n rest ih =>
    rw [List.nodup_cons] at hnd
    have hn : (n == "comb") = false := by
      have : n ≠ "comb" := fun h => hc (by rw [h]; exact List.mem_cons_self ..)
      simpa using this
    have hcont : f.domainNames.contains n = false := by
      have := hd n (List.mem_cons_self ..)
      simpa using this
    have hstep : createStep missing (f, new0) n
        = .ok (f.withDomains (f.domains ++ [⟨n, r n⟩]), new0 ++ [⟨n, r n⟩]) := by
      simp only [createStep, hn, hm, Frag.addDomain, hcont, Bool.false_eq_true, if_false]
      rfl
    rw [List.foldlM_cons, hstep]
    have hrest : ∀ m ∈ rest, m ∉ (f.withDomains (f.domains ++ [⟨n, r n⟩])).domainNames := by
      intro m hmem hin
      cases f
      simp only [Frag.withDomains, Frag.domainNames, Frag.domains, List.map_append, List.map_cons,
        List.map_nil, List.mem_append, List.mem_singleton] at hin
      rcases hin with hin | hin
      · exact hd m (List.mem_cons_of_mem _ hmem) (by simpa [Frag.domainNames, Frag.domains] using hin)
      · subst hin; exact hnd.1 hmem
    have := ih (f.withDomains (f.domains ++ [⟨n, r n⟩])) (new0 ++ [⟨n, r n⟩]) hnd.2
      (fun h => hc (List.mem_cons_of_mem _ h)) hrest
    simp only [bind, Except.bind]
    rw [this]
    cases f
    simp [Frag.withDomains, Frag.domains]

/-- a port of the model as the specification writes it: (domain, is-reset) -/
def toSpecPort (p : String × PortKind) : String × Bool := (p.1, p.2 == .rst)

theorem portsOf_spec (r : String → Bool) (names : List String) :
    (portsOf (names.map (fun n => ⟨n, r n⟩))).map toSpecPort
      = names.flatMap (fun n => (n, false) :: (if r n then [(n, true)] else [])) := by
  induction names with
  | nil => rfl
  | cons n rest ih =>
    simp only [portsOf, List.map_cons, List.flatMap_cons, List.map_append] at ih ⊢
    rw [ih]
    cases r n <;> simp [toSpecPort]

/-! ## Committing the pending set in any order -/

theorem modify_comm {α : Type} (l : List α) (i j : Nat) (f : α → α) :
    (l.modify i f).modify j f = (l.modify j f).modify i f := by
  apply List.ext_getElem?
  intro k
  simp only [List.getElem?_modify]
  by_cases h1 : i = k <;> by_cases h2 : j = k <;> simp [h1, h2]

theorem foldl_perm {α β : Type} (f : β → α → β) (comm : ∀ b a₁ a₂, f (f b a₁) a₂ = f (f b a₂) a₁)
    {l₁ l₂ : List α} (h : l₁.Perm l₂) (b : β) : l₁.foldl f b = l₂.foldl f b := by
  induction h generalizing b with
  | nil => rfl
  | cons x _ ih => simp only [List.foldl_cons, ih]
  | swap x y l => simp only [List.foldl_cons, comm]
  | trans _ _ ih₁ ih₂ => rw [ih₁, ih₂]

theorem opCommit_perm (s : EngineState) {p₁ p₂ : List Nat} (h : p₁.Perm p₂) :
    opCommit { s with pending := p₁ } = opCommit { s with pending := p₂ } := by
  simp only [opCommit]
  rw [foldl_perm _ (fun sl i j => modify_comm sl i j Slot.commit) h]

end Amaranth.Repro
