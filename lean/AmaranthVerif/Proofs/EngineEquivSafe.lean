import AmaranthVerif.Proofs.EngineEquivSync3

/-!
# Decidable side conditions and the packaged equivalence theorems

* `kindSafe`: a checker for "the updates of this process keep every signal inside its shape"
  (`UpdSafe`), covering clocks on 1-bit signals, the documented process forms that set a whole signal,
  and compiled single assignments to a whole signal;
* `envNb`, `scriptsWriteOk`, `scriptsTwf`: checkers for the other hypotheses;
* `comb_equiv_runs`, `sync_equiv_runs`: the two simulations make the same observations and have the
  same `curr`, `next`, `now` after any number of `advance()` calls, after `run()` and after `run_until()`.
-/

namespace Amaranth.Engine
open Amaranth

/-! ## Checkers -/

/-- every initial value lies in its signal's shape -/
def envNb (ctx : Ctx) (E : Env) : Bool :=
  E.length == ctx.length && (List.range ctx.length).all fun i =>
    decide (ctx.shape i).WF && decide ((ctx.shape i).contains (E.val i))

theorem envNb_sound {ctx : Ctx} {E : Env} (h : envNb ctx E = true) : EnvN ctx E := by
  unfold envNb at h
  simp only [Bool.and_eq_true, beq_iff_eq, List.all_eq_true, List.mem_range, decide_eq_true_eq] at h
  exact ⟨h.1, fun i hi => h.2 i hi⟩

theorem shape_wf_of_envN {ctx : Ctx} {E : Env} (h : EnvN ctx E) (i : Nat) : (ctx.shape i).WF := (envN_envOk h i).1

theorem updSafe_setUpd (ctx : Ctx) (out : Nat) (v : Int) (hwf : (ctx.shape out).WF) (x : Int) :
    (ctx.shape (setUpd ctx out v).slot).contains (applyUpdate (setUpd ctx out v) x) := by
  show (ctx.shape out).contains (applyUpdate ⟨out, norm (ctx.shape out) v, -1⟩ x)
  rw [full_write]
  exact norm_contains _ hwf _

theorem updSafe_clock (ctx : Ctx) (slot phase period : Nat) (h0 : (ctx.shape slot).contains 0)
    (h1 : (ctx.shape slot).contains 1) : UpdSafe ctx (clockDef slot phase period) := by
  intro l cur _ u hu x _
  simp only [clockDef] at hu
  split at hu
  · simp at hu
  · simp only [List.mem_singleton] at hu
    subst hu
    show (ctx.shape slot).contains (applyUpdate ⟨slot, _, -1⟩ x)
    rw [full_write]
    cases (cur.val slot == 0) <;> simpa [b2i]

theorem updSafe_userComb (ctx : Ctx) (ins : List Nat) (out : Nat) (e : Expr) : UpdSafe ctx (userCombDef ctx ins out e) := by
  intro l cur hcur u hu x _
  simp only [userCombDef, List.mem_singleton] at hu
  subst hu
  exact updSafe_setUpd ctx out _ (shape_wf_of_envN hcur out) x

theorem updSafe_userSync (ctx : Ctx) (cfg : DomCfg) (ins : List Nat) (out : Nat) (e : Expr) (init : Int) :
    UpdSafe ctx (userSyncDef ctx cfg ins out e init) := by
  intro l cur hcur u hu x _
  simp only [userSyncDef] at hu
  split at hu
  · simp at hu
  · split at hu
    · simp only [List.mem_singleton] at hu; subst hu
      exact updSafe_setUpd ctx out _ (shape_wf_of_envN hcur out) x
    · split at hu
      · simp only [List.mem_singleton] at hu; subst hu
        exact updSafe_setUpd ctx out _ (shape_wf_of_envN hcur out) x
      · simp at hu

theorem updSafe_userLateComb (ctx : Ctx) (n : Nat) (ins : List Nat) (out : Nat) (e : Expr) :
    UpdSafe ctx (userLateCombDef ctx n ins out e) := by
  intro l cur hcur u hu x _
  simp only [userLateCombDef] at hu
  split at hu
  · simp at hu
  · split at hu
    · simp at hu
    · simp only [List.mem_singleton] at hu; subst hu
      exact updSafe_setUpd ctx out _ (shape_wf_of_envN hcur out) x

/-- a compiled single assignment to a whole signal writes a value of the signal's shape -/
theorem updSafe_assign (ctx : Ctx) (out : Nat) (ex : Expr) (nx : Env) (hout : out < ctx.length)
    (hwf : (ctx.shape out).WF) (hV : (ctx.shape out).contains (nx.val out)) :
    ∀ u ∈ procUpdates ctx (.assign (.sig out) ex) nx, ∀ x,
      (ctx.shape u.slot).contains x → (ctx.shape u.slot).contains (applyUpdate u x) := by
  intro u hu x hx
  rw [procUpdates_assign _ _ _ _ hout] at hu
  split at hu
  · simp at hu
  · next hw =>
    simp only [List.mem_singleton] at hu
    subst hu
    show (ctx.shape out).contains (applyUpdate ⟨out, _, _⟩ x)
    rw [compiled_write _ hwf _ _ hV hx (by omega)]
    exact hV

theorem updSafe_comb_assign (D : Design) (out : Nat) (ex : Expr) (hout : out < D.ctx.length) :
    UpdSafe D.ctx (combDef D (.assign (.sig out) ex)) := by
  intro l cur hcur u hu x hx
  simp only [combDef] at hu
  refine updSafe_assign D.ctx out ex _ hout (shape_wf_of_envN hcur out) ?_ u hu x hx
  rw [combNext_assign_val _ _ _ _ _ hout]
  exact norm_contains _ (shape_wf_of_envN hcur out) _

theorem updSafe_sync_assign (D : Design) (d out : Nat) (ex : Expr) (hout : out < D.ctx.length)
    (hinit : EnvN D.ctx D.inits) : UpdSafe D.ctx (syncDef D d (.assign (.sig out) ex)) := by
  intro l cur hcur u hu x hx
  simp only [syncDef] at hu
  refine updSafe_assign D.ctx out ex _ hout (shape_wf_of_envN hcur out) ?_ u hu x hx
  have hV : (D.ctx.shape out).contains ((execRtl D.ctx cur (.assign (.sig out) ex) cur).val out) := by
    simp only [execRtl, assignRtlG]
    rw [val_put_eq _ _ _ (by rw [hcur.len]; exact hout)]
    exact norm_contains _ (shape_wf_of_envN hcur out) _
  unfold syncNext
  simp only
  split
  · split
    · rw [val_map_range _ _ _ hout]
      split
      · exact (hinit.ok out hout).2
      · exact hV
    · exact hV
  · exact hV

/-- a checker for `UpdSafe`: clocks on signals that can hold 0 and 1, the documented process forms that
set a whole signal, compiled single assignments to a whole signal of the design -/
def kindSafe (D : Design) : ProcKind → Bool
  | .clock slot _ _ => decide ((D.ctx.shape slot).contains 0) && decide ((D.ctx.shape slot).contains 1)
  | .userComb _ _ _ => true
  | .userSync _ _ _ _ => true
  | .userLateComb _ _ _ _ => true
  | .comb (.assign (.sig out) _) => decide (out < D.ctx.length)
  | .sync _ (.assign (.sig out) _) => decide (out < D.ctx.length)
  | _ => false

theorem kindSafe_sound (D : Design) (hinit : EnvN D.ctx D.inits) (k : ProcKind) (h : kindSafe D k = true) :
    UpdSafe D.ctx (k.toDef D) := by
  unfold kindSafe at h
  split at h
  · simp only [Bool.and_eq_true, decide_eq_true_eq] at h
    exact updSafe_clock D.ctx _ _ _ h.1 h.2
  · exact updSafe_userComb D.ctx _ _ _
  · exact updSafe_userSync D.ctx _ _ _ _ _
  · exact updSafe_userLateComb D.ctx _ _ _ _
  · exact updSafe_comb_assign D _ _ (by simpa using h)
  · exact updSafe_sync_assign D _ _ _ (by simpa using h) hinit
  · cases h

/-- the decidable form of `ReplHyp` -/
def replOk (D : Design) (pre post : List ProcKind) (out : Nat) : Bool :=
  decide (out < D.ctx.length) &&
  (pre ++ post).all (fun k => (kindMasks D k).all (fun x => x.1 != out)) &&
  (pre ++ post).all (kindSafe D)

theorem replOk_sound {D : Design} {pre post : List ProcKind} {out : Nat} (hinit : EnvN D.ctx D.inits)
    (h : replOk D pre post out = true) : ReplHyp D pre post out := by
  unfold replOk at h
  simp only [Bool.and_eq_true, decide_eq_true_eq, List.all_eq_true, bne_iff_ne, ne_eq] at h
  exact ⟨h.1.1, fun k hk x hx => h.1.2 k hk x hx, fun k hk => kindSafe_sound D hinit k (h.2 k hk)⟩

/-- every write of every script goes through a well-formed target that does not mention `out` -/
def scriptsWriteOk (ctx : Ctx) (out : Nat) (scripts : List (List TbOp)) : Bool :=
  scripts.all fun sc => sc.all fun op => match op with
    | .set tgt _ => decide (writeOk ctx out tgt)
    | .setFrom tgt _ => decide (writeOk ctx out tgt)
    | _ => true

theorem scriptsWriteOk_sound {ctx : Ctx} {out : Nat} {scripts : List (List TbOp)}
    (h : scriptsWriteOk ctx out scripts = true) : ∀ sc ∈ scripts, ScriptWrites (writeOk ctx out) sc := by
  unfold scriptsWriteOk at h
  rw [List.all_eq_true] at h
  intro sc hsc op hop
  have := List.all_eq_true.mp (h sc hsc) op hop
  cases op <;> simp_all

/-- every write of every script goes through a well-formed target -/
def scriptsTwf (ctx : Ctx) (scripts : List (List TbOp)) : Bool :=
  scripts.all fun sc => sc.all fun op => match op with
    | .set tgt _ => tgt.twf ctx
    | .setFrom tgt _ => tgt.twf ctx
    | _ => true

theorem scriptsTwf_sound {ctx : Ctx} {scripts : List (List TbOp)}
    (h : scriptsTwf ctx scripts = true) : ∀ sc ∈ scripts, ScriptWrites (fun tgt => tgt.twf ctx = true) sc := by
  unfold scriptsTwf at h
  rw [List.all_eq_true] at h
  intro sc hsc op hop
  have := List.all_eq_true.mp (h sc hsc) op hop
  cases op <;> simp_all

/-- the decidable form of `SyncHyp` (apart from the initial values) -/
def syncOk (D : Design) (d out : Nat) : Bool :=
  let cfg := D.doms.getD d default
  !(cfg.async && cfg.rst.isSome) && decide (D.ctx.shape cfg.clk = Shape.u 1) && decide (cfg.clk < D.ctx.length) &&
  (match cfg.rst with
   | some r => decide (D.ctx.shape r = Shape.u 1) && decide (r < D.ctx.length) && !(D.resetLess.getD out false)
   | none => true)

theorem syncOk_sound {D : Design} {d out : Nat} (hinit : EnvN D.ctx D.inits) (h : syncOk D d out = true) :
    SyncHyp D d out := by
  unfold syncOk at h
  simp only [Bool.and_eq_true, Bool.not_eq_true', decide_eq_true_eq] at h
  obtain ⟨⟨⟨h1, h2⟩, h3⟩, h4⟩ := h
  refine ⟨h1, h2, h3, fun r hr => ?_, hinit⟩
  rw [hr] at h4
  simp only [Bool.and_eq_true, decide_eq_true_eq, Bool.not_eq_true'] at h4
  exact ⟨h4.1.1, h4.1.2, h4.2⟩

/-! ## What an observer can see -/

/-- the two states agree on everything an observer can see: the values of all signals (current and
pending), the time, and the observations recorded so far -/
structure SameObs (a b : EState) : Prop where
  curr : b.curr = a.curr
  next : b.next = a.next
  now : b.now = a.now
  obs : b.obs = a.obs

theorem Mid.sameObs {p : Nat} {a b : EState} (h : Mid p a b) : SameObs a b := ⟨h.curr, h.next, h.now, h.obs⟩

/-- **A combinational assignment replaced by the documented process form.** -/
theorem comb_equiv_runs (D : Design) (pre post : List ProcKind) (scripts : List (List TbOp)) (out : Nat) (e : Expr)
    (sched : Sched) (fuel : Nat) (H : ReplHyp D pre post out) (hwf : e.wf D.ctx = true) (hinit : EnvN D.ctx D.inits)
    (hsc : ∀ sc ∈ scripts, ScriptWrites (writeOk D.ctx out) sc)
    (hnd : SchedNodup sched) (hl : ∀ k, pre.length ∈ (sched k).procs) (n : Nat) :
    SameObs (advanceN (mkSim D (combKindsA pre post out e) scripts sched fuel) n (initState D (combKindsA pre post out e) scripts))
      (advanceN (mkSim D (combKindsB pre post out e) scripts sched fuel) n (initState D (combKindsB pre post out e) scripts)) ∧
    SameObs (run (mkSim D (combKindsA pre post out e) scripts sched fuel) n (initState D (combKindsA pre post out e) scripts))
      (run (mkSim D (combKindsB pre post out e) scripts sched fuel) n (initState D (combKindsB pre post out e) scripts)) ∧
    ∀ deadline,
      SameObs (runUntil (mkSim D (combKindsA pre post out e) scripts sched fuel) deadline n (initState D (combKindsA pre post out e) scripts))
        (runUntil (mkSim D (combKindsB pre post out e) scripts sched fuel) deadline n (initState D (combKindsB pre post out e) scripts)) := by
  have hS := comb_simRel (scripts := scripts) H hwf hsc sched hnd hl fuel
  have h0 := comb_init (pre := pre) (post := post) (scripts := scripts) (out := out) (e := e) hinit
  exact ⟨(advanceN_rel2 hS n _ _ h0).1.sameObs, (run_rel2 hS n _ _ h0).1.sameObs,
    fun dl => (runUntil_rel2 hS dl n _ _ h0).1.sameObs⟩

/-- **A register replaced by the documented process form** (domain without asynchronous reset). -/
theorem sync_equiv_runs (D : Design) (pre post : List ProcKind) (scripts : List (List TbOp)) (d out : Nat) (e : Expr)
    (sched : Sched) (fuel : Nat) (H : ReplHyp D pre post out) (HS : SyncHyp D d out) (hwf : e.wf D.ctx = true)
    (hsc : ∀ sc ∈ scripts, ScriptWrites (fun tgt => tgt.twf D.ctx = true) sc)
    (hnd : SchedNodup sched) (hl : ∀ k, pre.length ∈ (sched k).procs) (n : Nat) :
    SameObs (advanceN (mkSim D (syncKindsA pre post d out e) scripts sched fuel) n (initState D (syncKindsA pre post d out e) scripts))
      (advanceN (mkSim D (syncKindsB pre post d out e) scripts sched fuel) n (initState D (syncKindsB pre post d out e) scripts)) ∧
    SameObs (run (mkSim D (syncKindsA pre post d out e) scripts sched fuel) n (initState D (syncKindsA pre post d out e) scripts))
      (run (mkSim D (syncKindsB pre post d out e) scripts sched fuel) n (initState D (syncKindsB pre post d out e) scripts)) ∧
    ∀ deadline,
      SameObs (runUntil (mkSim D (syncKindsA pre post d out e) scripts sched fuel) deadline n (initState D (syncKindsA pre post d out e) scripts))
        (runUntil (mkSim D (syncKindsB pre post d out e) scripts sched fuel) deadline n (initState D (syncKindsB pre post d out e) scripts)) := by
  have hS := sync_simRel (scripts := scripts) H HS hwf hsc sched hnd hl fuel
  have h0 := sync_init (pre := pre) (post := post) (scripts := scripts) (d := d) (out := out) (e := e) HS.inits
  exact ⟨(advanceN_rel2 hS n _ _ h0).1.sameObs, (run_rel2 hS n _ _ h0).1.sameObs,
    fun dl => (runUntil_rel2 hS dl n _ _ h0).1.sameObs⟩

end Amaranth.Engine
