import AmaranthVerif.Spec.Format

/-!
# The recogniser of the format-spec grammar: what a successful parse says about the string
-/

namespace Amaranth
namespace Fmt

/-! ## single stages -/

theorem alignOf?_char {c : Char} {a : Align} (h : alignOf? c = some a) : a.char = c := by
  unfold alignOf? at h
  split at h
  · cases h; subst_vars; rfl
  · split at h
    · cases h; subst_vars; rfl
    · split at h
      · cases h; subst_vars; rfl
      · split at h
        · cases h; subst_vars; rfl
        · cases h

theorem signOf?_char {c : Char} {a : Sign} (h : signOf? c = some a) : a.char = c := by
  unfold signOf? at h
  split at h
  · cases h; subst_vars; rfl
  · split at h
    · cases h; subst_vars; rfl
    · split at h
      · cases h; subst_vars; rfl
      · cases h

theorem grpOf?_char {c : Char} {a : Grp} (h : grpOf? c = some a) : a.char = c := by
  unfold grpOf? at h
  split at h
  · cases h; subst_vars; rfl
  · split at h
    · cases h; subst_vars; rfl
    · cases h

theorem tyOf?_char {c : Char} {a : Ty} (h : tyOf? c = some a) : a.char = c := by
  unfold tyOf? at h
  repeat' split at h
  all_goals first | (cases h; subst_vars; rfl) | cases h

theorem optHead_sound {α : Type} (f : Char → Option α) (ch : α → Char)
    (hf : ∀ c a, f c = some a → ch a = c) (s : List Char) :
    s = ((optHead f s).1.map ch).toList ++ (optHead f s).2 := by
  cases s with
  | nil => rfl
  | cons c rest =>
    cases h : f c with
    | none => simp [optHead, h]
    | some a => simp [optHead, h, hf c a h]

theorem flag_sound (ch : Char) (s : List Char) :
    s = (if (flag ch s).1 then [ch] else []) ++ (flag ch s).2 := by
  cases s with
  | nil => rfl
  | cons c rest =>
    unfold flag
    by_cases h : c = ch <;> simp [h]

theorem takeWhile_all (p : Char → Bool) (l : List Char) : (l.takeWhile p).all p = true := by
  induction l with
  | nil => rfl
  | cons x xs ih =>
    by_cases h : p x = true
    · simp [h, ih]
    · simp [h]

/-- a digit string as the grammar wants it: empty, or `[1-9][0-9]*` -/
def WidthStr (wd : List Char) : Prop :=
  wd = [] ∨ ∃ d ds, wd = d :: ds ∧ isDigit19 d = true ∧ ds.all isDigit = true

theorem isDigit_of_19 {c : Char} (h : isDigit19 c = true) : isDigit c = true := by
  unfold isDigit19 at h; unfold isDigit
  simp only [Bool.and_eq_true, decide_eq_true_eq] at *
  refine ⟨?_, h.2⟩
  have : ('0' : Char) ≤ '1' := by decide
  exact Char.le_trans this h.1

theorem takeWidth_sound (s : List Char) :
    s = (takeWidth s).1 ++ (takeWidth s).2 ∧ WidthStr (takeWidth s).1 := by
  cases s with
  | nil => exact ⟨rfl, Or.inl rfl⟩
  | cons c rest =>
    unfold takeWidth
    by_cases h : isDigit19 c = true
    · simp only [h, if_true]
      refine ⟨(List.takeWhile_append_dropWhile (p := isDigit) (l := c :: rest)).symm, Or.inr ?_⟩
      have hd := isDigit_of_19 h
      exact ⟨c, rest.takeWhile isDigit, by simp [hd], h, takeWhile_all isDigit rest⟩
    · simp only [h]
      exact ⟨rfl, Or.inl rfl⟩

theorem chain6 {t r1 r2 r3 r4 r5 s1 s2 s3 s4 s5 s6 : List Char} (e1 : t = s1 ++ r1) (e2 : r1 = s2 ++ r2)
    (e3 : r2 = s3 ++ r3) (e4 : r3 = s4 ++ r4) (e5 : r4 = s5 ++ r5) (e6 : r5 = s6) :
    t = s1 ++ s2 ++ s3 ++ s4 ++ s5 ++ s6 := by
  subst e6 e5 e4 e3 e2 e1
  simp only [List.append_assoc]

/-- the text of everything after `[[fill]align]` -/
def tailText (sp : Spec) (wd : List Char) : List Char :=
  (sp.sign.map Sign.char).toList ++ (if sp.alt then ['#'] else []) ++ (if sp.zero then ['0'] else []) ++
  wd ++ (sp.group.map Grp.char).toList ++ (sp.ty.map Ty.char).toList

theorem parseTail_sound (fill : Option Char) (align : Option Align) (t : List Char) (sp : Spec)
    (h : parseTail fill align t = some sp) :
    ∃ wd, t = tailText sp wd ∧ WidthStr wd ∧ sp.fill = fill ∧ sp.align = align ∧
      sp.width = (if wd = [] then none else some (digitsVal wd)) := by
  unfold parseTail at h
  simp only at h
  split at h
  · rename_i hend
    cases h
    refine ⟨(takeWidth (flag '0' (flag '#' (optHead signOf? t).2).2).2).1, ?_, ?_, rfl, rfl, rfl⟩
    · unfold tailText
      simp only
      have e1 := optHead_sound signOf? Sign.char (fun c a => signOf?_char) t
      have e2 := flag_sound '#' (optHead signOf? t).2
      have e3 := flag_sound '0' (flag '#' (optHead signOf? t).2).2
      have e4 := (takeWidth_sound (flag '0' (flag '#' (optHead signOf? t).2).2).2).1
      have e5 := optHead_sound grpOf? Grp.char (fun c a => grpOf?_char)
        (takeWidth (flag '0' (flag '#' (optHead signOf? t).2).2).2).2
      have e6 := optHead_sound tyOf? Ty.char (fun c a => tyOf?_char)
        (optHead grpOf? (takeWidth (flag '0' (flag '#' (optHead signOf? t).2).2).2).2).2
      rw [hend, List.append_nil] at e6
      exact chain6 e1 e2 e3 e4 e5 e6
    · exact (takeWidth_sound _).2
  · cases h

/-- the whole spec as text -/
def specText' (sp : Spec) (wd : List Char) : List Char :=
  sp.fill.toList ++ (sp.align.map Align.char).toList ++ tailText sp wd

theorem parseSpecL_sound (s : List Char) (sp : Spec) (h : parseSpecL s = some sp) :
    ∃ wd, s = specText' sp wd ∧ WidthStr wd ∧ (sp.fill.isSome → sp.align.isSome) ∧ sp.fill ≠ some '\n' ∧
      sp.width = (if wd = [] then none else some (digitsVal wd)) := by
  unfold parseSpecL at h
  split at h
  · obtain ⟨wd, ht, hw, hf, ha, hwd⟩ := parseTail_sound _ _ _ _ h
    exact ⟨wd, by simp [specText', hf, ha, ← ht], hw, by simp [hf], by simp [hf], hwd⟩
  · rename_i f
    split at h
    · rename_i al hal
      obtain ⟨wd, ht, hw, hf, ha, hwd⟩ := parseTail_sound _ _ _ _ h
      exact ⟨wd, by simp [specText', hf, ha, ← ht, alignOf?_char hal], hw, by simp [hf], by simp [hf], hwd⟩
    · obtain ⟨wd, ht, hw, hf, ha, hwd⟩ := parseTail_sound _ _ _ _ h
      exact ⟨wd, by simp [specText', hf, ha, ← ht], hw, by simp [hf], by simp [hf], hwd⟩
  · rename_i f a rest
    split at h
    · rename_i al hal
      split at h
      · cases h
      · rename_i hnl
        obtain ⟨wd, ht, hw, hf, ha, hwd⟩ := parseTail_sound _ _ _ _ h
        exact ⟨wd, by simp [specText', hf, ha, ← ht, alignOf?_char hal], hw, by simp [ha], by simp [hf, hnl], hwd⟩
    · split at h
      · rename_i al hal
        obtain ⟨wd, ht, hw, hf, ha, hwd⟩ := parseTail_sound _ _ _ _ h
        exact ⟨wd, by simp [specText', hf, ha, ← ht, alignOf?_char hal], hw, by simp [hf], by simp [hf], hwd⟩
      · obtain ⟨wd, ht, hw, hf, ha, hwd⟩ := parseTail_sound _ _ _ _ h
        exact ⟨wd, by simp [specText', hf, ha, ← ht], hw, by simp [hf], by simp [hf], hwd⟩

/-! ## the extra rules -/

theorem reject_none (sp : Spec) (sh : Shape) (h : sp.reject sh = none) :
    sp.align ≠ some .center ∧ sp.group ≠ some .comma ∧ sp.ty ≠ some .n ∧
    (sp.ty = some .c ∨ sp.ty = some .s →
      sh.signed = false ∧ sp.align ≠ some .eq ∧ sp.alt = false ∧ sp.zero = false ∧ sp.sign = none ∧
      sp.group = none ∧ (sp.ty = some .s → sh.width % 8 = 0)) := by
  unfold Spec.reject at h
  split at h; · cases h
  split at h; · cases h
  split at h; · cases h
  rename_i h1 h2 h3
  refine ⟨h1, h2, h3, ?_⟩
  intro hcs
  rw [if_pos hcs] at h
  split at h; · cases h
  split at h; · cases h
  split at h; · cases h
  split at h; · cases h
  split at h; · cases h
  split at h; · cases h
  split at h; · cases h
  rename_i a b c d e f g
  refine ⟨by simpa using a, b, by simpa using c, by simpa using d, by simpa using e, by simpa using f, ?_⟩
  intro hs
  by_cases hw : sh.width % 8 = 0
  · exact hw
  · exact absurd ⟨hs, hw⟩ g

/-- the parsed specification as the parts of the documented grammar -/
def Spec.parts (sp : Spec) (wd : List Char) : Parts :=
  { fill := sp.fill, align := sp.align.map Align.char, sign := sp.sign.map Sign.char, alt := sp.alt,
    zero := sp.zero, width := wd, group := sp.group.isSome, ty := sp.ty.map Ty.char }

/-- every specification that `Format` accepts for a shape is in the documented grammar -/
theorem acceptsL_documented (s : List Char) (sh : Shape) (h : acceptsL s sh = true) : Documented s sh := by
  unfold acceptsL rejectL at h
  cases hp : parseSpecL s with
  | none => simp [hp] at h
  | some sp =>
    simp only [hp, Option.isNone_iff_eq_none] at h
    obtain ⟨wd, hs, hw, hfa, hnl, _⟩ := parseSpecL_sound s sp hp
    obtain ⟨h1, h2, h3, h4⟩ := reject_none sp sh h
    refine ⟨sp.parts wd, ?_, ?_, ?_⟩
    · constructor
      · intro hf
        have := hfa hf
        simp only [Spec.parts, Option.isSome_map]; exact this
      · exact hnl
      · intro a ha
        simp only [Spec.parts, Option.map_eq_some_iff] at ha
        obtain ⟨al, hal, rfl⟩ := ha
        cases al with
        | left => left; rfl
        | right => right; left; rfl
        | eq => right; right; rfl
        | center => exact absurd hal h1
      · intro c hc
        simp only [Spec.parts, Option.map_eq_some_iff] at hc
        obtain ⟨sg, _, rfl⟩ := hc
        cases sg with
        | minus => left; rfl
        | plus => right; left; rfl
        | space => right; right; rfl
      · exact hw
      · intro t ht
        simp only [Spec.parts, Option.map_eq_some_iff] at ht
        obtain ⟨ty, hty, rfl⟩ := ht
        cases ty with
        | n => exact absurd hty h3
        | b => simp [Ty.char]
        | o => simp [Ty.char]
        | d => simp [Ty.char]
        | x => simp [Ty.char]
        | X => simp [Ty.char]
        | c => simp [Ty.char]
        | s => simp [Ty.char]
    · have hcs : ∀ {c : Char}, (sp.parts wd).ty = some c → c = 'c' ∨ c = 's' → sp.ty = some .c ∨ sp.ty = some .s := by
        intro c hc hcc
        simp only [Spec.parts, Option.map_eq_some_iff] at hc
        obtain ⟨ty, hty, rfl⟩ := hc
        cases ty <;> simp_all [Ty.char]
      constructor
      · intro hc
        have := h4 (by rcases hc with hc | hc; exact hcs hc (Or.inl rfl); exact hcs hc (Or.inr rfl))
        exact this.1
      · intro hc
        have := h4 (by rcases hc with hc | hc; exact hcs hc (Or.inl rfl); exact hcs hc (Or.inr rfl))
        obtain ⟨_, a, b, c, d, e, _⟩ := this
        refine ⟨?_, by simp [Spec.parts, d], b, c, by simp [Spec.parts, e]⟩
        intro hal
        simp only [Spec.parts, Option.map_eq_some_iff] at hal
        obtain ⟨al, hal, hch⟩ := hal
        cases al <;> simp_all [Align.char]
      · intro hs'
        have hss : sp.ty = some .s := by
          simp only [Spec.parts, Option.map_eq_some_iff] at hs'
          obtain ⟨ty, hty, hch⟩ := hs'
          cases ty <;> simp_all [Ty.char]
        exact (h4 (Or.inr hss)).2.2.2.2.2.2 hss
    · rw [hs]
      unfold Parts.text specText' tailText Spec.parts
      simp only [List.append_assoc]
      congr 3
      congr 3
      cases hg : sp.group with
      | none => rfl
      | some g =>
        cases g with
        | under => rfl
        | comma => exact absurd hg h2

end Fmt
end Amaranth
