import AmaranthVerif.Spec.Denote
import AmaranthVerif.Proofs.ShapeLemmas

/-! # Pattern matching: `value == (mask & test)` is the bitwise reading of a pattern -/

namespace Amaranth

theorem foldl_testBit (g : PatBit → Nat) (hg : ∀ b, g b ≤ 1) (p : Pat) (acc i : Nat) :
    (p.foldl (fun a b => 2 * a + g b) acc).testBit i =
      if i < p.length then decide (g (p.reverse.getD i .any) = 1) else acc.testBit (i - p.length) := by
  induction p generalizing acc i with
  | nil => simp
  | cons b rest ih =>
    rw [List.foldl_cons, ih]
    have hb := hg b
    simp only [List.length_cons, List.reverse_cons]
    by_cases h1 : i < rest.length
    · have h2 : i < rest.length + 1 := by omega
      simp only [h1, h2, if_true]
      have h1' : i < rest.reverse.length := by simpa using h1
      simp [List.getD_eq_getElem?_getD, List.getElem?_append_left h1']
    · by_cases h3 : i = rest.length
      · subst h3
        simp only [Nat.lt_irrefl, if_false, Nat.sub_self, Nat.lt_succ_self, if_true]
        have e : (rest.reverse ++ [b]).getD rest.length .any = b := by
          rw [List.getD_eq_getElem?_getD, List.getElem?_append_right (by simp)]; simp
        rw [e, Nat.testBit_zero]
        congr 1
        apply propext; constructor <;> intro h <;> omega
      · have h4 : ¬ i < rest.length + 1 := by omega
        simp only [h1, h4, if_false]
        obtain ⟨k, hk⟩ : ∃ k, i - rest.length = k + 1 := ⟨i - rest.length - 1, by omega⟩
        rw [hk, Nat.testBit_add_one]
        have : (2 * acc + g b) / 2 = acc := by omega
        rw [this]; congr 1; omega

theorem valueNat_testBit (p : Pat) (i : Nat) :
    p.valueNat.testBit i = (decide (i < p.length) && (p.reverse.getD i .any == .one)) := by
  unfold Pat.valueNat
  rw [foldl_testBit (fun b => if b = .one then 1 else 0) (by intro b; split <;> omega)]
  by_cases h : i < p.length
  · simp only [h, if_true, decide_true, Bool.true_and]
    cases p.reverse.getD i .any <;> simp
  · simp [h]

theorem maskNat_testBit (p : Pat) (i : Nat) :
    p.maskNat.testBit i = (decide (i < p.length) && (p.reverse.getD i .any != .any)) := by
  unfold Pat.maskNat
  rw [foldl_testBit (fun b => if b = .any then 0 else 1) (by intro b; split <;> omega)]
  by_cases h : i < p.length
  · simp only [h, if_true, decide_true, Bool.true_and]
    cases p.reverse.getD i .any <;> simp
  · simp [h]

/-- `ibit` of a non-negative integer is `Nat.testBit` -/
theorem ibit_ofNat (n i : Nat) : ibit (n : Int) i = n.testBit i := by
  unfold ibit
  rw [Nat.testBit_eq_decide_div_mod_eq]
  have h : ((n : Int) / 2 ^ i) % 2 = ((n / 2 ^ i % 2 : Nat) : Int) := by
    push_cast; rfl
  rw [h]
  by_cases hh : n / 2 ^ i % 2 = 1
  · simp [hh]
  · have : ¬ (((n / 2 ^ i % 2 : Nat) : Int) = 1) := by omega
    simp only [hh, decide_false]
    simpa using this

/-- bit `i < w` of `v` only depends on `v mod 2^w` -/
theorem ibit_emod (v : Int) {w i : Nat} (h : i < w) : ibit (v % 2 ^ w) i = ibit v i := by
  unfold ibit
  have e : (2 : Int) ^ w = 2 ^ i * 2 ^ (w - i) := by rw [← two_pow_add']; congr 1; omega
  have hpi := two_pow_pos' i
  have e2 : (2 : Int) ^ (w - i) = 2 * 2 ^ (w - i - 1) := two_pow_pred _ (by omega)
  -- v = q * 2^w + r ; r / 2^i = v / 2^i - q * 2^(w-i)
  have hv := Int.emod_add_mul_ediv v (2 ^ w)
  have key : v % 2 ^ w / 2 ^ i = v / 2 ^ i - (v / 2 ^ w) * 2 ^ (w - i) := by
    have : v % 2 ^ w = v - 2 ^ i * ((v / 2 ^ w) * 2 ^ (w - i)) := by
      rw [e] at hv ⊢
      have : 2 ^ i * 2 ^ (w - i) * (v / (2 ^ i * 2 ^ (w - i))) = 2 ^ i * ((v / (2 ^ i * 2 ^ (w - i))) * 2 ^ (w - i)) := by
        rw [Int.mul_assoc, Int.mul_comm (2 ^ (w - i))]
      omega
    rw [this, Int.sub_mul_ediv_left _ _ (Int.ne_of_gt hpi)]
  rw [key, e2]
  have : v / 2 ^ w * (2 * 2 ^ (w - i - 1)) = 2 * (v / 2 ^ w * 2 ^ (w - i - 1)) := by
    rw [← Int.mul_assoc, Int.mul_comm _ 2, Int.mul_assoc]
  rw [this]
  congr 1
  omega

theorem pb_zo : (PatBit.zero == PatBit.one) = false := by decide
theorem pb_za : (PatBit.zero != PatBit.any) = true := by decide
theorem pb_oo : (PatBit.one == PatBit.one) = true := by decide
theorem pb_oa : (PatBit.one != PatBit.any) = true := by decide
theorem pb_ao : (PatBit.any == PatBit.one) = false := by decide
theorem pb_aa : (PatBit.any != PatBit.any) = false := by decide

/-- The compiled test `value == (mask & test)` on the masked test value is the bitwise reading of the pattern. -/
theorem pattern_match_iff (p : Pat) (w : Nat) (hp : p.length = w) (t v : Int)
    (ht : t % 2 ^ w = v % 2 ^ w) :
    ((p.valueNat : Int) == pyAnd (p.maskNat : Int) (t % 2 ^ w)) = p.matchesSpec v := by
  have h0 : 0 ≤ t % 2 ^ w := Int.emod_nonneg _ (Int.ne_of_gt (two_pow_pos' w))
  obtain ⟨T, hT⟩ := Int.eq_ofNat_of_zero_le h0
  rw [hT]
  have hpy : pyAnd (p.maskNat : Int) (T : Int) = ((p.maskNat &&& T : Nat) : Int) := rfl
  rw [hpy]
  have hbit : ∀ i, i < w → T.testBit i = ibit v i := by
    intro i hi
    rw [← ibit_ofNat, ← hT, ht, ibit_emod v hi]
  unfold Pat.matchesSpec
  rw [Bool.eq_iff_iff]
  simp only [beq_iff_eq, List.all_eq_true, List.mem_range]
  constructor
  · intro h i hi
    have h' : p.valueNat = p.maskNat &&& T := by exact_mod_cast h
    have hb := congrArg (fun x => x.testBit i) h'
    simp only [Nat.testBit_and, valueNat_testBit, maskNat_testBit, hi, decide_true, Bool.true_and] at hb
    rw [hbit i (by omega)] at hb
    cases hc : p.reverse.getD i .any <;> rw [hc] at hb <;>
      simp only [pb_zo, pb_za, pb_oo, pb_oa, pb_ao, pb_aa, Bool.true_and, Bool.false_and] at hb ⊢
    · exact Bool.not_eq_true' _ |>.mpr hb.symm
    · exact hb.symm
  · intro h
    have : p.valueNat = p.maskNat &&& T := by
      apply Nat.eq_of_testBit_eq
      intro i
      simp only [Nat.testBit_and, valueNat_testBit, maskNat_testBit]
      by_cases hi : i < p.length
      · have hs := h i hi
        simp only [hi, decide_true, Bool.true_and]
        rw [hbit i (by omega)]
        cases hc : p.reverse.getD i .any <;> rw [hc] at hs <;>
          simp only [pb_zo, pb_za, pb_oo, pb_oa, pb_ao, pb_aa, Bool.true_and, Bool.false_and] at hs ⊢
        · exact (Bool.not_eq_true' _ |>.mp hs).symm
        · exact hs.symm
      · simp [hi]
    exact_mod_cast this

end Amaranth
