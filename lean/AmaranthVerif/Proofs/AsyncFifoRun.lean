import AmaranthVerif.Proofs.AsyncFifoInv
import AmaranthVerif.Model.AsyncFifoObs

/-! # From the one-step invariant to whole runs of the AsyncFIFO model -/

namespace Amaranth.AsyncFifo

theorem Inv.step {c : Cfg} {g : Ghost} {s : State} (h : Inv c g s) (hn : 1 ≤ c.ctrBits) (e : Event) :
    Inv c (gstep c g s e) (step c s e) := by
  rw [step_eq_stepG]; exact h.stepG hn _ _ _

/-- ghost and model run side by side -/
def grun (c : Cfg) : Ghost → State → List Event → Ghost
  | g, _, [] => g
  | g, s, e :: es => grun c (gstep c g s e) (step c s e) es

theorem Inv.run {c : Cfg} (hn : 1 ≤ c.ctrBits) : ∀ (es : List Event) {g : Ghost} {s : State}, Inv c g s →
    Inv c (grun c g s es) (run c s es)
  | [], _, _, h => h
  | e :: es, _, _, h => Inv.run hn es (h.step hn e)

theorem gstep_written (c : Cfg) (g : Ghost) (s : State) (e : Event) :
    (gstep c g s e).written = g.written ++ (accepted c s e).toList := by
  simp only [gstep, gstepG, accepted]; split <;> simp

theorem gstep_readLog (c : Cfg) (g : Ghost) (s : State) (e : Event) :
    (gstep c g s e).readLog = g.readLog ++ (delivered s e).toList := by
  simp only [gstep, gstepG, delivered]; split <;> simp

theorem grun_written (c : Cfg) : ∀ (es : List Event) (g : Ghost) (s : State),
    (grun c g s es).written = g.written ++ writes c s es
  | [], g, s => by simp [grun, writes]
  | e :: es, g, s => by simp [grun, writes, grun_written c es, gstep_written]

theorem grun_readLog (c : Cfg) : ∀ (es : List Event) (g : Ghost) (s : State),
    (grun c g s es).readLog = g.readLog ++ reads c s es
  | [], g, s => by simp [grun, reads]
  | e :: es, g, s => by simp [grun, reads, grun_readLog c es, gstep_readLog]

theorem grun_append (c : Cfg) : ∀ (es fs : List Event) (g : Ghost) (s : State),
    grun c g s (es ++ fs) = grun c (grun c g s es) (run c s es) fs
  | [], _, _, _ => rfl
  | e :: es, fs, g, s => by simp [grun, run, grun_append c es]

theorem run_append (c : Cfg) : ∀ (es fs : List Event) (s : State), run c s (es ++ fs) = run c (run c s es) fs
  | [], _, _ => rfl
  | e :: es, fs, s => by simp [run, run_append c es]

/-- the ghost of a run from power-on -/
def ghostOf (c : Cfg) (es : List Event) : Ghost := grun c Ghost.init init es

theorem reach_inv (c : Cfg) (hn : 1 ≤ c.ctrBits) (es : List Event) : Inv c (ghostOf c es) (run c init es) :=
  Inv.run hn es (inv_init c)

theorem ghostOf_written (c : Cfg) (es : List Event) : (ghostOf c es).written = writes c init es := by
  simp [ghostOf, grun_written, Ghost.init]

theorem ghostOf_readLog (c : Cfg) (es : List Event) : (ghostOf c es).readLog = reads c init es := by
  simp [ghostOf, grun_readLog, Ghost.init]

section
variable {c : Cfg} {g : Ghost} {s : State}

theorem Inv.nread_le (h : Inv c g s) : g.nread ≤ g.written.length := by
  have := h.ord; unfold Ghost.P at this; omega

theorem Inv.readLog_length (h : Inv c g s) : g.readLog.length = g.nread := by
  rw [h.log, List.length_take]; have := h.nread_le; omega

theorem Inv.rLevel_eq (h : Inv c g s) (hn : 1 ≤ c.ctrBits) : s.rLevel c = g.p1 - g.nread := by
  have hM : 0 < c.M := Nat.two_pow_pos _
  have h2 : c.M = 2 * c.depth := two_depth c.ctrBits hn
  have hD : 0 < c.depth := Nat.two_pow_pos _
  have ho := h.ord
  unfold State.rLevel State.produceRBin
  rw [h.ps1, grayDecode_gray c.ctrBits (g.p1 % c.M) (Nat.mod_lt _ hM), h.cbin, level_eq hM (by omega) (by omega)]

theorem Inv.rRdy_iff (h : Inv c g s) (hn : 1 ≤ c.ctrBits) : s.rRdy = true ↔ g.nread < g.p1 := by
  unfold State.rRdy
  have := h.rEmpty_iff hn
  have ho := h.ord
  cases hr : s.rEmpty
  · simp; rw [hr] at this; simp at this; omega
  · simp; rw [hr] at this; simp at this; omega

theorem Inv.wRdy_lt (h : Inv c g s) (hn : 1 ≤ c.ctrBits) (hw : s.wRdy c = true) : g.P < g.nread + c.depth := by
  unfold State.wRdy at hw
  have hf : ¬ s.wFull c = true := by intro hf; rw [hf] at hw; simp at hw
  rw [h.wFull_iff hn] at hf
  have := h.ord
  omega

theorem Inv.rData_eq (h : Inv c g s) (hn : 1 ≤ c.ctrBits) (hr : s.rRdy = true) :
    g.written[g.nread]? = some s.rData := by
  have hlt := (h.rRdy_iff hn).1 hr
  have ho := h.ord
  have hP : g.nread < g.written.length := by unfold Ghost.P at ho; omega
  rw [h.rdata (by omega), List.getD_eq_getElem?_getD, List.getElem?_eq_getElem hP]; rfl

end

/-- words accepted and not yet delivered after the run `es` from power-on -/
def held (c : Cfg) (es : List Event) : Nat := (writes c init es).length - (reads c init es).length

theorem held_eq (c : Cfg) (hc : 1 ≤ c.ctrBits) (es : List Event) :
    held c es = (ghostOf c es).P - (ghostOf c es).nread := by
  unfold held Ghost.P
  rw [← ghostOf_written, ← ghostOf_readLog, (reach_inv c hc es).readLog_length]

/-- read-clock edges in an event list -/
def rEdges (es : List Event) : Nat := (es.filter Event.isR).length

theorem gstep_quiet_noWrite (c : Cfg) (g : Ghost) (s : State) (e : Event) (he : e.inp.wEn = false) :
    (gstep c g s e).quiet = g.quiet + b2n e.isR ∧ (gstep c g s e).written = g.written := by
  simp only [gstep, gstepG, doWrite, he, Bool.and_false, Bool.false_eq_true, if_false]
  cases e.isR <;> simp [b2n]

theorem grun_quiet (c : Cfg) : ∀ (post : List Event) (g : Ghost) (s : State), (∀ e ∈ post, e.inp.wEn = false) →
    g.quiet + rEdges post ≤ (grun c g s post).quiet
  | [], g, s, _ => by simp [grun, rEdges]
  | e :: post, g, s, h => by
    have he := h e (List.mem_cons_self)
    have := grun_quiet c post (gstep c g s e) (step c s e) (fun x hx => h x (List.mem_cons_of_mem _ hx))
    rw [(gstep_quiet_noWrite c g s e he).1] at this
    simp only [grun, rEdges, List.filter_cons] at this ⊢
    cases hr : e.isR <;> simp [hr, b2n, rEdges] at this ⊢ <;> omega

/-! ## Draining: the reader keeps `r_en` asserted and nothing is written any more -/

/-- what is left to do: words still held, plus synchroniser stages not yet caught up -/
def Ghost.todo (g : Ghost) : Nat := (g.P - g.nread) + (2 - min 2 g.quiet)

theorem Inv.todo_step {c : Cfg} {g : Ghost} {s : State} (h : Inv c g s) (hn : 1 ≤ c.ctrBits) (e : Event)
    (hw : e.inp.wEn = false) (hr : e.inp.rEn = true) :
    (gstep c g s e).todo ≤ g.todo - b2n e.isR := by
  obtain ⟨hq, hwr⟩ := gstep_quiet_noWrite c g s e hw
  have hP : (gstep c g s e).P = g.P := by unfold Ghost.P; rw [hwr]
  have hC : (gstep c g s e).nread = g.nread + b2n (e.isR && doRead s e.inp) := by
    simp only [gstep, gstepG]; split <;> simp [b2n, *]
  unfold Ghost.todo
  rw [hP, hC, hq]
  cases hR : e.isR
  · simp [b2n]
  · simp only [Bool.true_and, b2n, if_true]
    by_cases hq2 : 2 ≤ g.quiet
    · have := (h.q2 hq2).1
      by_cases hlt : g.nread < g.P
      · have hrdy : s.rRdy = true := (h.rRdy_iff hn).2 (by omega)
        have : doRead s e.inp = true := by simp [doRead, hrdy, hr]
        simp only [this, if_true]
        omega
      · have : ∀ b : Bool, g.P - (g.nread + if b = true then 1 else 0) = 0 := by intro b; split <;> omega
        rw [this]; omega
    · have : ∀ b : Bool, g.P - (g.nread + if b = true then 1 else 0) ≤ g.P - g.nread := by intro b; split <;> omega
      have := this (doRead s e.inp)
      omega

theorem Inv.todo_run {c : Cfg} (hn : 1 ≤ c.ctrBits) : ∀ (post : List Event) {g : Ghost} {s : State}, Inv c g s →
    (∀ e ∈ post, e.inp.wEn = false ∧ e.inp.rEn = true) → (grun c g s post).todo ≤ g.todo - rEdges post
  | [], _, _, _, _ => by simp [grun, rEdges]
  | e :: post, g, s, h, hq => by
    have he := hq e (List.mem_cons_self)
    have h1 := h.todo_step hn e he.1 he.2
    have h2 := Inv.todo_run hn post (h.step hn e) (fun x hx => hq x (List.mem_cons_of_mem _ hx))
    simp only [grun, rEdges, List.filter_cons] at h2 ⊢
    cases hr : e.isR <;> simp [hr, b2n, rEdges] at h1 h2 ⊢ <;> omega

end Amaranth.AsyncFifo
