import AmaranthVerif.Model.Memory

/-!
# The write queue of `_PyMemoryState` as an object of its own (`sim/pysim.py`)

`Model/Memory.lean` has `qwrite` (= `write`) and `commit` (the rows after `commit()`); here are the value
`commit()` *returns* (`changed`: some queued row differs from the committed one) and a script of writes
followed by one commit, which is what the unit-level correspondence runs on the real class.
-/

namespace Amaranth.Mem

/-- the Boolean `commit()` returns: `any(self.data[addr] != value for addr, value in write_queue.items())` -/
def commitChanged (rows : List Int) (q : Queue) : Bool :=
  (List.range rows.length).any fun a =>
    match q.getD a none with
    | some v => v != rows.getD a 0
    | none => false

/-- one `write(addr, value, mask)` call; `mask = none` is the Python default (whole row) -/
structure QOp where
  addr : Nat
  value : Int
  mask : Option Int
deriving Repr, Inhabited

/-- `write` without a mask stores the (sign-fixed) value itself -/
def qwriteOp (sh : Shape) (rows : List Int) (q : Queue) (op : QOp) : Queue :=
  match op.mask with
  | some m => qwrite sh rows q op.addr op.value m
  | none => if op.addr < rows.length then q.set op.addr (some (resign sh op.value)) else q

/-- a delta cycle: writes in call order, then `commit()`; the result is the rows and the returned flag -/
def runOps (sh : Shape) (rows : List Int) (ops : List QOp) : List Int × Bool :=
  let q := ops.foldl (qwriteOp sh rows) (Queue.empty rows.length)
  (commit rows q, commitChanged rows q)

end Amaranth.Mem
