import AmaranthVerif.Spec.Williams

/-!
# Model of `amaranth/lib/crc/__init__.py`

* `compute`      — `Parameters.compute`: the (crc_width + data_width)-wide register, a word at a time;
* `matF`, `matG` — `Parameters._matrices`: responses of `compute` to the unit vectors;
* `residue`      — `Parameters.residue`;
* `Processor`, `hwStep`, `hwCrc`, `hwMatch` — `Processor.__init__` / `Processor.elaborate`: the XOR
  network selected by F and G, `start`/`valid` muxing, input reflection (`data[::-1]`), output
  reflection (`crc_reg[::-1]`) and output XOR, `match_detected` against the residue.

The parameter record and `reflect` (`Parameters._reflect`: format most significant bit first, read
back reversed) are shared with the Spec; everything else is written from the code.
-/

namespace Amaranth.Crc
open Amaranth.Williams (Params reflect Cycle)

/-- `f` applied `n` times (`for _ in range(n)`) -/
def iter {α : Type} (f : α → α) : Nat → α → α
  | 0, a => a
  | n + 1, a => iter f n (f a)

/-- `Algorithm.__init__` range checks on integers (`operator.index` already applied to all four):
    `none` is acceptance, `some "ValueError"` a rejection -/
def constructAlgorithm (crcWidth poly init xorOut : Int) : Option String :=
  if ¬ crcWidth > 0 then some "ValueError"
  else if ¬ (0 ≤ poly ∧ poly < 2 ^ crcWidth.toNat) then some "ValueError"
  else if ¬ (0 ≤ init ∧ init < 2 ^ crcWidth.toNat) then some "ValueError"
  else if ¬ (0 ≤ xorOut ∧ xorOut < 2 ^ crcWidth.toNat) then some "ValueError"
  else none

/-- `Parameters.__init__`: `data_width` is converted (`none`: not an integer) and checked after the
    algorithm exists -/
def constructParameters (dataWidth : Option Int) : Option String :=
  match dataWidth with
  | none => some "TypeError"
  | some dw => if ¬ dw > 0 then some "ValueError" else none

/-- one turn of the inner `for _ in range(self.data_width)` loop of `compute` -/
def shiftStep (topBit polyShifted crc : Nat) : Nat :=
  if crc &&& topBit != 0 then (crc <<< 1) ^^^ polyShifted else crc <<< 1

/-- body of `for word in data:` in `Parameters.compute` (after the range check of the word) -/
def computeWord (p : Params) (dw : Nat) (crc word : Nat) : Nat :=
  let topBit := 1 <<< (p.width + dw - 1)
  let crcMask := (1 <<< (p.width + dw)) - 1
  let polyShifted := p.poly <<< dw
  let word := if p.refin then reflect word dw else word
  let crc := crc ^^^ (word <<< p.width)
  let crc := iter (shiftStep topBit polyShifted) dw crc
  crc &&& crcMask

/-- the wide register after the loop, shifted back: `crc >>= self.data_width` -/
def computeReg (p : Params) (dw : Nat) (data : List Nat) : Nat :=
  (data.foldl (computeWord p dw) (p.init <<< dw)) >>> dw

/-- the last three statements of `compute`: optional reflection, output xor -/
def finish (p : Params) (crc : Nat) : Nat :=
  (if p.refout then reflect crc p.width else crc) ^^^ p.xorout

/-- `Parameters.compute(data)` for words that pass the range check -/
def compute (p : Params) (dw : Nat) (data : List Nat) : Nat :=
  finish p (computeReg p dw data)

/-- `Parameters.compute(data)` including `if not 0 <= word <= word_max: raise ValueError` -/
def computeChecked (p : Params) (dw : Nat) (data : List Int) : Option Nat :=
  if data.all (fun x => 0 ≤ x && x < 2 ^ dw) then some (compute p dw (data.map Int.toNat)) else none

/-- `algo.reflect_input = algo.reflect_output = False; algo.xor_output = 0` in `_matrices` -/
def plain (p : Params) (init : Nat) : Params :=
  { p with init := init, refin := false, refout := false, xorout := 0 }

/-- `Parameters._matrices`: row `j` of F is the response to register bit `j`, row `j` of G the
    response to data bit `j`; entry `[j][i]` is bit `i` of the row -/
def matF (p : Params) (dw : Nat) : List Nat :=
  (List.range p.width).map fun j => compute (plain p (2 ^ j)) dw [0]

def matG (p : Params) (dw : Nat) : List Nat :=
  (List.range dw).map fun j => compute (plain p 0) dw [2 ^ j]

/-- `Parameters.residue` -/
def residue (p : Params) : Nat :=
  let init := if p.refout then reflect p.xorout p.width else p.xorout
  compute { p with init := init, refin := false, xorout := 0 } p.width [0]

/-- what `Processor.__init__` precomputes -/
structure Processor where
  p : Params
  dw : Nat
  F : List Nat
  G : List Nat
  residue : Nat

def Processor.create (p : Params) (dw : Nat) : Processor :=
  { p := p, dw := dw, F := matF p dw, G := matG p dw, residue := Crc.residue p }

/-- `for j in range(n): if matrix[j][i]: bit ^= v[j]` over the rows from index `j` on -/
def xorRows : List Nat → Nat → Nat → Nat → Bool
  | [], _, _, _ => false
  | row :: rows, j, v, i => ((row.testBit i && v.testBit j) ^^ xorRows rows (j + 1) v i)

/-- an `n`-bit signal assembled from its bits -/
def ofFn : Nat → (Nat → Bool) → Nat
  | 0, _ => 0
  | n + 1, f => ofFn n f ^^^ (if f n then 2 ^ n else 0)

/-- `sig[::-1]` of an `n`-bit signal -/
def rev (x n : Nat) : Nat := ofFn n fun i => x.testBit (n - 1 - i)

/-- next value of `crc_reg` at a clock edge -/
def hwStep (h : Processor) (reg : Nat) (start valid : Bool) (data : Nat) : Nat :=
  let dataIn := if h.p.refin then rev data h.dw else data
  let source := if start then h.p.init else reg
  if valid then
    ofFn h.p.width fun i => (xorRows h.F 0 source i ^^ xorRows h.G 0 dataIn i)
  else if start then h.p.init
  else reg

/-- the `crc` output -/
def hwCrc (h : Processor) (reg : Nat) : Nat :=
  (if h.p.refout then rev reg h.p.width else reg) ^^^ h.p.xorout

/-- the `match_detected` output -/
def hwMatch (h : Processor) (reg : Nat) : Bool :=
  (if h.p.refout then rev reg h.p.width else reg) == h.residue

/-- `crc_reg` after a sequence of cycles, from its reset value -/
def hwRun (h : Processor) (cycles : List Cycle) : Nat :=
  cycles.foldl (fun reg c => hwStep h reg c.start c.valid c.data) h.p.init

end Amaranth.Crc
