/-!
# Model: `Netlist.check_comb_cycles` (amaranth/hdl/_nir.py) — the DFS as written

A *net* is one bit. The harness renumbers the nets of a real netlist as `(cell, bit)`:

* every cell of `netlist.cells` is a `Cell`; `fused = not cell.comb_edges_is_per_bit()`;
  `width = len(cell.output_nets())`;
  `ins = list(cell.comb_edges_to(·))` for a fused (word-level) cell, for which the code says the
  result does not depend on the bit; `bitIns[b] = list(cell.comb_edges_to(b))` otherwise;
* a late-bound net (a signal bit) is a bit of a per-bit pseudo-cell whose only edge is
  `netlist.connections[net]`; a constant net is a bit of a per-bit pseudo-cell without edges.
  (The three branches `is_const` / `is_late` / cell of `traverse` differ only in what they append to
  the diagnostic path, so they are one branch here.)
* `roots` is the exact order in which the two final loops call `traverse`.

`traverse` follows the Python function statement by statement: `checked` and `busy` are the two
sets (lists here; `add` is `cons`, `remove` is `filter (· ≠ x)`, only membership is ever asked),
both are threaded through the recursion as the mutable state they are; a hit on a busy net creates
the `Cycle(start)` object; each frame the cycle passes through appends its own net to the path;
a frame raises when the cycle's start is its own net; otherwise the net (and its fused siblings) are
moved from `busy` to `checked` and the cycle object is *returned* to the caller.
The top-level loops `assert traverse(net) is None`.

`fix = true` is the repaired behaviour for finding F5 (raise also when `cycle.start` is one of the
fused siblings in `extra_nets`); `fix = false` is the code as it stands.

The recursion is bounded by `fuel`; `Properties/C06.lean` proves the bound used by `detect` is
never reached.
-/

namespace Amaranth.CombCycle

/-- `(cell index, output bit)` -/
abbrev Net := Nat × Nat

structure Cell where
  /-- `not comb_edges_is_per_bit()`: a word-level cell; its outputs are marked together -/
  fused : Bool
  /-- number of output nets -/
  width : Nat
  /-- `comb_edges_to(bit)` of a word-level cell (independent of `bit`) -/
  ins : List Net
  /-- `comb_edges_to(bit)` of a bit-precise cell, one list per output bit -/
  bitIns : List (List Net)
deriving Repr, DecidableEq, Inhabited

structure Graph where
  cells : List Cell
  /-- the nets on which the two final loops call `traverse`, in order -/
  roots : List Net
deriving Repr, DecidableEq, Inhabited

/-- `cell.comb_edges_to(net.bit)`; a net that is not an output of any cell has no edges -/
def Graph.succ (g : Graph) (n : Net) : List Net :=
  match g.cells[n.1]? with
  | none => []
  | some c =>
    if n.2 < c.width then (if c.fused then c.ins else c.bitIns.getD n.2 []) else []

/-- `extra_nets`: the other outputs of the net's cell when it is word-level, else `[]` -/
def Graph.extra (g : Graph) (n : Net) : List Net :=
  match g.cells[n.1]? with
  | none => []
  | some c =>
    if c.fused && decide (n.2 < c.width) then
      ((List.range c.width).filter (fun b => b != n.2)).map (fun b => (n.1, b))
    else []

/-- all output nets of all cells -/
def Graph.nets (g : Graph) : List Net :=
  (List.range g.cells.length).flatMap fun i =>
    (List.range (g.cells.getD i default).width).map fun b => (i, b)

/-- every net mentioned as the source of an edge -/
def Graph.targets (g : Graph) : List Net :=
  g.cells.flatMap fun c => c.ins ++ c.bitIns.flatten

/-- every net the traversal can ever touch -/
def Graph.universe (g : Graph) : List Net := g.nets ++ g.roots ++ g.targets

/-- the `Cycle` object; `path` is kept newest-first, i.e. it is `reversed(cycle.path)` -/
structure Cyc where
  start : Net
  path : List Net
deriving Repr, DecidableEq

/-- what one call of `traverse` does -/
inductive Res
  /-- normal return; the new contents of `busy`, `checked`; the returned `Cycle` or `None` -/
  | ret (busy checked : List Net) (cyc : Option Cyc)
  /-- `raise CombinationalCycle`, with the path in the order the message prints it -/
  | raise (path : List Net)
  /-- `assert extra_net not in checked` failed -/
  | assertFail
  | outOfFuel
deriving Repr, DecidableEq

inductive Outcome
  | ok
  | cycle (path : List Net)
  /-- a bare `AssertionError` -/
  | assertFail
  | outOfFuel
deriving Repr, DecidableEq

/-- continue with `k` after a call that returned `None`; a returned `Cycle` (`break`) or an
exception ends the loop -/
def Res.andThen (r : Res) (k : List Net → List Net → Res) : Res :=
  match r with
  | .ret b c none => k b c
  | r => r

/-- `for src, src_loc in cell.comb_edges_to(net.bit): cycle = traverse(src); if cycle is not None: …; break` -/
def loopEdges (f : List Net → List Net → Net → Res) : List Net → List Net → List Net → Res
  | busy, checked, [] => .ret busy checked none
  | busy, checked, s :: ss => (f busy checked s).andThen fun b c => loopEdges f b c ss

/-- `busy.remove(net)`, `busy.remove(extra_net)…` -/
def removeAll (xs : List Net) (busy : List Net) : List Net :=
  busy.filter fun x => !xs.contains x

/-- the tail of `traverse(net)` after the edge loop: append to the path, raise if the cycle is
closed, otherwise move `net` and `extra_nets` from `busy` to `checked` and return the cycle -/
def finish (fix : Bool) (n : Net) (ex : List Net) : Res → Res
  | .ret b c none => .ret (removeAll (n :: ex) b) (ex.reverse ++ n :: c) none
  | .ret b c (some cy) =>
    -- `cycle.path.append((cell, net.bit, src_loc))`
    if cy.start = n || (fix && ex.contains cy.start) then .raise (n :: cy.path)
    else .ret (removeAll (n :: ex) b) (ex.reverse ++ n :: c) (some ⟨cy.start, n :: cy.path⟩)
  | r => r

/-- `traverse(net)` -/
def traverse (succ extra : Net → List Net) (fix : Bool) : Nat → List Net → List Net → Net → Res
  | 0, _, _, _ => .outOfFuel
  | fuel + 1, busy, checked, n =>
    if n ∈ checked then .ret busy checked none
    else if n ∈ busy then .ret busy checked (some ⟨n, []⟩)
    else
      -- `extra_nets`; `assert extra_net not in checked`; `busy.add(...)`
      if (extra n).any (fun e => decide (e ∈ checked)) then .assertFail
      else
        finish fix n (extra n)
          (loopEdges (traverse succ extra fix fuel) ((extra n).reverse ++ n :: busy) checked (succ n))

/-- the two final loops: `assert traverse(net) is None` -/
def run (succ extra : Net → List Net) (fix : Bool) (fuel : Nat) : List Net → List Net → List Net → Outcome
  | [], _, _ => .ok
  | r :: rs, busy, checked =>
    match traverse succ extra fix fuel busy checked r with
    | .ret b c none => run succ extra fix fuel rs b c
    | .ret _ _ (some _) => .assertFail
    | .raise p => .cycle p
    | .assertFail => .assertFail
    | .outOfFuel => .outOfFuel

def detectWith (fix : Bool) (fuel : Nat) (g : Graph) : Outcome :=
  run g.succ g.extra fix fuel g.roots [] []

/-- enough for any graph (`C06.fuel_enough`) -/
def Graph.fuel (g : Graph) : Nat := g.universe.length + 1

/-- `check_comb_cycles` with the F5 repair -/
def detect (g : Graph) : Outcome := detectWith true g.fuel g

/-- `check_comb_cycles` as it stands (finding F5) -/
def detectUnfixed (g : Graph) : Outcome := detectWith false g.fuel g

/-- every net that has an edge is visited by the final loops (true of the real code, which iterates
`cell.output_nets(idx)` for every cell and every bit of every signal; the only nets it does not
start from are the constants; reported by the driver for every dumped netlist) -/
def Graph.Covers (g : Graph) : Prop := ∀ n ∈ g.nets, g.succ n ≠ [] → n ∈ g.roots

instance (g : Graph) : Decidable g.Covers := by unfold Graph.Covers; infer_instance

/-- F5 witness, `a.eq(a[1:3] + 1)` reduced to two bits: cell 0 is the adder (word-level, outputs
`o0 o1`, inputs the signal bits `a1`), cell 1 holds the late nets `a0 a1` connected to `o0 o1`. -/
def f5Witness : Graph :=
  { cells := [ { fused := true,  width := 2, ins := [(1, 1)], bitIns := [] },
               { fused := false, width := 2, ins := [], bitIns := [[(0, 0)], [(0, 1)]] } ],
    roots := [(0, 0), (0, 1), (1, 0), (1, 1)] }

end Amaranth.CombCycle
