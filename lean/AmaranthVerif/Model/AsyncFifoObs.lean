import AmaranthVerif.Model.AsyncFifo
import AmaranthVerif.Spec.Queue2

/-! # What the two-sided queue monitor (Spec/Queue2) is shown of a model run

Pure plumbing: model outputs → `Queue2.Obs`, model events → `Queue2.Clock × Queue2.Strobes`
(the write port carries `w_data` truncated to `width` bits). -/

namespace Amaranth.AsyncFifo

def toObs (o : Out) : Queue2.Obs := ⟨o.wRdy, o.rRdy, o.rData, o.wLevel, o.rLevel⟩

def clockOf : Event → Queue2.Clock
  | .w _ => .w
  | .r _ => .r
  | .both _ => .both

def strobesOf (c : Cfg) (e : Event) : Queue2.Strobes := ⟨e.inp.wEn, e.inp.wData % 2 ^ c.width, e.inp.rEn⟩

/-- the run of an `AsyncFIFO` from state `s`, as the monitor sees it: each event with the outputs after it -/
def specTrace (c : Cfg) (s : State) : List Event → List (Queue2.Clock × Queue2.Strobes × Queue2.Obs)
  | [] => []
  | e :: es => (clockOf e, strobesOf c e, toObs (outputs c (step c s e))) :: specTrace c (step c s e) es

/-- the same for an `AsyncFIFOBuffered` -/
def bspecTrace (c : Cfg) (s : BState) : List Event → List (Queue2.Clock × Queue2.Strobes × Queue2.Obs)
  | [] => []
  | e :: es => (clockOf e, strobesOf c e, toObs (boutputs c (bstep c s e))) :: bspecTrace c (bstep c s e) es

/-- number of read-clock edges the drain bound allows: 2 synchroniser stages (+1 output register) -/
def drainBound : Nat := 2
def bdrainBound : Nat := 3

end Amaranth.AsyncFifo
