import AmaranthVerif.Model.Dsl
import AmaranthVerif.Spec.FsmSpec

/-!
# `Module.FSM` / `State` / `m.next` / `fsm.ongoing()` as `amaranth/hdl/_dsl.py` builds them

* **Encoding.** `fsm_data["encoding"]` is an ordered dict; a name gets the code `len(encoding)` the first time it is
  *mentioned*: by `m.State(name)`, by `m.next = name` (inside a state body, at any depth of If/Switch, but not inside
  a nested FSM — that `m.next` binds to the nested FSM), or by `fsm.ongoing(name)` (`encOrder`, `code`).
* **State register.** `Signal(Enum(… range(len(encoding))))`: unsigned, `bits_for(len(encoding) - 1)` bits
  (`bits_for(0) = 1`); `Signal(0)` when no state was defined (`fsmWidth`). Its initial value is the code of `init=`,
  or of the first state *defined* (`fsmInitCode`).
* **`m.next = S`** is the late-bound `fsm_state.eq(encoding[S])` in the FSM's domain; the integer becomes
  `Const(k)`, `bits_for(k)` bits wide (`nextAssign`).
* **Closing the FSM** (`_pop_ctrl`): per domain that occurs in some state body, one
  `Switch(fsm_state, [(encoding[name], body[domain]) for name in states])` (definition order; patterns are the
  integer codes, `Switch.__init__` writes them as `to_binary(code, width)`), and, at module top level, after all other
  combinational statements, `ongoing[name].eq(fsm_state == encoding[name])` for every name in encoding order
  (`FProg.ongoing`; FSMs in the order in which they close).
* Everything is per domain: a construct contributes a statement to domain `d` only if some statement of `d` occurs
  inside it (`lowerD` returns the empty list otherwise).
-/

namespace Amaranth

/-- `if name not in encoding: encoding[name] = len(encoding)` -/
def addName (order : List String) (s : String) : List String := if s ∈ order then order else order ++ [s]

mutual
/-- the state names one item mentions for the innermost enclosing FSM, in program order -/
def FProg.mentions : FProg → List String
  | .assign .. => []
  | .ifs branches els => FProg.ifMentions branches ++ FProg.listMentions els
  | .switch _ cases => FProg.caseMentions cases
  | .fsm _ _ => []
  | .next name => [name]
  | .watch name => [name]
def FProg.listMentions : List FProg → List String
  | [] => []
  | p :: ps => FProg.mentions p ++ FProg.listMentions ps
def FProg.ifMentions : List (Expr × List FProg) → List String
  | [] => []
  | (_, body) :: rest => FProg.listMentions body ++ FProg.ifMentions rest
def FProg.caseMentions : List (Option (List UPat) × List FProg) → List String
  | [] => []
  | (_, body) :: rest => FProg.listMentions body ++ FProg.caseMentions rest
end

/-- every mention of a state name inside one FSM block, in program order -/
def entryMentions : FsmEntries → List String
  | [] => []
  | (name, none) :: rest => name :: entryMentions rest
  | (name, some body) :: rest => name :: (FProg.listMentions body ++ entryMentions rest)

/-- the keys of `fsm_data["encoding"]`, in insertion order -/
def encOrder (entries : FsmEntries) : List String := (entryMentions entries).foldl addName []

/-- `encoding[name]` -/
def code (order : List String) (name : String) : Nat := order.idxOf name

/-- `decoding[v]`, for any integer `v` the register may hold -/
def decode (order : List String) (v : Int) : Option String := if 0 ≤ v then order[v.toNat]? else none

/-- width of the state register: `Signal(0)` without states, else the enum over `range(n)` -/
def fsmWidth (n : Nat) : Nat := if n = 0 then 0 else bitsFor ((n : Int) - 1) false

/-- `init = encoding[next(iter(states))]` / `encoding[fsm_init]` -/
def fsmInitCode (h : FsmHdr) (entries : FsmEntries) : Nat :=
  match h.init with
  | some s => code (encOrder entries) s
  | none => code (encOrder entries) ((definedStates entries).headD "")

/-- `Const(k)` -/
def constOf (k : Nat) : Expr := .const k ⟨bitsFor k false, false⟩

/-- `FSMNextStatement.resolve()` -/
def nextAssign (h : FsmHdr) (entries : FsmEntries) (name : String) : Prog :=
  .assign (.sig h.reg) (constOf (code (encOrder entries) name))

def bodiesEmpty {α : Type} : List (α × List Prog) → Bool
  | [] => true
  | (_, body) :: rest => body.isEmpty && bodiesEmpty rest

mutual
/-- the statements of domain `d` that one item contributes; `cx` is the innermost enclosing FSM -/
def FProg.lowerD (d : String) (cx : Option (FsmHdr × FsmEntries)) : FProg → List Prog
  | .assign dom lhs rhs => if dom = d then [.assign lhs rhs] else []
  | .ifs branches els =>
    let bs := FProg.lowerBranches d cx branches
    let e := FProg.lowerListD d cx els
    if bodiesEmpty bs && e.isEmpty then [] else [.ifs bs e]
  | .switch test cases =>
    let cs := FProg.lowerCasesD d cx cases
    if bodiesEmpty cs then [] else [.switch test cs]
  | .fsm h entries =>
    let cs := FProg.lowerStates d (h, entries) (encOrder entries) entries
    if bodiesEmpty cs then [] else [.switch (.sig h.reg) cs]
  | .next name =>
    match cx with
    | some (h, entries) => if h.dom = d then [nextAssign h entries name] else []
    | none => []
  | .watch _ => []
def FProg.lowerListD (d : String) (cx : Option (FsmHdr × FsmEntries)) : List FProg → List Prog
  | [] => []
  | p :: ps => FProg.lowerD d cx p ++ FProg.lowerListD d cx ps
def FProg.lowerBranches (d : String) (cx : Option (FsmHdr × FsmEntries)) :
    List (Expr × List FProg) → List (Expr × List Prog)
  | [] => []
  | (c, body) :: rest => (c, FProg.lowerListD d cx body) :: FProg.lowerBranches d cx rest
def FProg.lowerCasesD (d : String) (cx : Option (FsmHdr × FsmEntries)) :
    List (Option (List UPat) × List FProg) → List (Option (List UPat) × List Prog)
  | [] => []
  | (pats, body) :: rest => (pats, FProg.lowerListD d cx body) :: FProg.lowerCasesD d cx rest
/-- one case per State block, in definition order, selected by the state's code -/
def FProg.lowerStates (d : String) (me : FsmHdr × FsmEntries) (order : List String) :
    FsmEntries → List (Option (List UPat) × List Prog)
  | [] => []
  | (_, none) :: rest => FProg.lowerStates d me order rest
  | (name, some body) :: rest =>
    (some [UPat.int (code order name)], FProg.lowerListD d (some me) body) :: FProg.lowerStates d me order rest
end

/-- `ongoing[name].eq(fsm_state == encoding[name])` for every name, in encoding order -/
def fsmOngoing (h : FsmHdr) (order : List String) : List String → List Prog
  | [] => []
  | name :: rest =>
    .assign (.sig ((h.og.lookup name).getD 0)) (.op2 .eq (.sig h.reg) (constOf (code order name))) :: fsmOngoing h order rest

mutual
/-- `_top_comb_statements`: the FSMs append their `ongoing` assignments when they close (nested ones first) -/
def FProg.ongoing : FProg → List Prog
  | .assign .. => []
  | .ifs branches els => FProg.ifOngoing branches ++ FProg.listOngoing els
  | .switch _ cases => FProg.caseOngoing cases
  | .fsm h entries =>
    FProg.entryOngoing entries ++
      (if (definedStates entries).isEmpty then [] else fsmOngoing h (encOrder entries) (encOrder entries))
  | .next _ => []
  | .watch _ => []
def FProg.listOngoing : List FProg → List Prog
  | [] => []
  | p :: ps => FProg.ongoing p ++ FProg.listOngoing ps
def FProg.ifOngoing : List (Expr × List FProg) → List Prog
  | [] => []
  | (_, body) :: rest => FProg.listOngoing body ++ FProg.ifOngoing rest
def FProg.caseOngoing : List (Option (List UPat) × List FProg) → List Prog
  | [] => []
  | (_, body) :: rest => FProg.listOngoing body ++ FProg.caseOngoing rest
def FProg.entryOngoing : FsmEntries → List Prog
  | [] => []
  | (_, none) :: rest => FProg.entryOngoing rest
  | (_, some body) :: rest => FProg.listOngoing body ++ FProg.entryOngoing rest
end

/-- the whole module, one domain: the statements of the program, then (for `comb`) the top-level `ongoing` drivers -/
def lowerProgram (d : String) (items : List FProg) : List Prog :=
  FProg.lowerListD d none items ++ (if d = "comb" then FProg.listOngoing items else [])

/-! ## What the DSL accepts -/

mutual
/-- what the DSL accepts without raising, given the signals of the design: well-formed conditions, tests and
right-hand sides; string patterns as wide as the test; inside an FSM: no state defined twice, every mentioned state
defined, `init=` names a defined state, the domain is not `comb`; `m.next` only inside a state. The state register
`fsm.state` is the signal the FSM made: unsigned, `fsmWidth` bits. -/
def FProg.ok (ctx : Ctx) (cx : Option (FsmHdr × FsmEntries)) : FProg → Bool
  | .assign _ _ r => r.wf ctx
  | .ifs branches els => FProg.ifOk ctx cx branches && FProg.listOk ctx cx els
  | .switch test cases => test.wf ctx && FProg.casesOk ctx cx (widthOf ctx test) cases
  | .fsm h entries =>
    decide (h.dom ≠ "comb") && decide (h.reg < ctx.length) &&
    decide (ctx.shape h.reg = ⟨fsmWidth (encOrder entries).length, false⟩) &&
    decide ((definedStates entries).Nodup) &&
    (encOrder entries).all (fun s => (definedStates entries).contains s) &&
    (match h.init with | some s => (definedStates entries).contains s | none => true) &&
    FProg.entriesOk ctx (h, entries) entries
  | .next _ => cx.isSome
  | .watch _ => cx.isSome
def FProg.listOk (ctx : Ctx) (cx : Option (FsmHdr × FsmEntries)) : List FProg → Bool
  | [] => true
  | p :: ps => FProg.ok ctx cx p && FProg.listOk ctx cx ps
def FProg.ifOk (ctx : Ctx) (cx : Option (FsmHdr × FsmEntries)) : List (Expr × List FProg) → Bool
  | [] => true
  | (c, body) :: rest => c.wf ctx && FProg.listOk ctx cx body && FProg.ifOk ctx cx rest
def FProg.casesOk (ctx : Ctx) (cx : Option (FsmHdr × FsmEntries)) (w : Nat) :
    List (Option (List UPat) × List FProg) → Bool
  | [] => true
  | (none, body) :: rest => FProg.listOk ctx cx body && FProg.casesOk ctx cx w rest
  | (some pats, body) :: rest =>
    pats.all (fun p => match p with | .bits q => q.length == w | .int _ => true) &&
      FProg.listOk ctx cx body && FProg.casesOk ctx cx w rest
def FProg.entriesOk (ctx : Ctx) (me : FsmHdr × FsmEntries) : FsmEntries → Bool
  | [] => true
  | (_, none) :: rest => FProg.entriesOk ctx me rest
  | (_, some body) :: rest => FProg.listOk ctx (some me) body && FProg.entriesOk ctx me rest
end

/-! ## Statement lists up to empty blocks

Real amaranth leaves out the `Default` of an If without `Else`, where the model's `lowerIf` writes an empty one; the
comparison of the model's statements with the ones amaranth built is made after removing what cannot execute
anything: empty sequences and choices all of whose remaining alternatives are empty. -/

def Stmt.isSkip : Stmt → Bool
  | .skip => true
  | _ => false

def Stmt.prune : Stmt → Stmt
  | .skip => .skip
  | .seq a b =>
    let a' := a.prune
    let b' := b.prune
    if a'.isSkip then b' else if b'.isSkip then a' else .seq a' b'
  | .assign l r => .assign l r
  | .ite t p thn els =>
    let thn' := thn.prune
    let els' := els.prune
    if thn'.isSkip && els'.isSkip then .skip else .ite t p thn' els'

end Amaranth
