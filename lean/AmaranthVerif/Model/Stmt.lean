import AmaranthVerif.Model.Assign

/-!
# Statements and per-domain processes of the compiled simulator

* `Stmt`: `Assign`, `Switch` (as a first-match chain `ite test pats thn els`, the default case being
  the all-don't-care pattern and the end of the chain `skip`), statement lists (`seq`).
* `execRtl` follows `_StatementCompiler`: right-hand sides, switch tests and offsets read the
  *current* values, assignments are read-modify-writes of the pending `next_<signal>` variables.
* `lhsMask` follows `LHSMaskCollector` (which bits of which signal a process drives).
* `combProcess` / `syncProcess` follow `_FragmentCompiler`: start from `init` (comb) or from the
  pending value (sync), run the statements, apply the domain reset, commit `update(next, mask)`.
-/

namespace Amaranth

inductive Stmt
  | skip
  | seq (a b : Stmt)
  | assign (lhs rhs : Expr)
  | ite (test : Expr) (pats : List Pat) (thn els : Stmt)
deriving Repr, Inhabited

def execRtl (ctx : Ctx) (cur : Env) : Stmt → Env → Env
  | .skip, nxt => nxt
  | .seq a b, nxt => execRtl ctx cur b (execRtl ctx cur a nxt)
  | .assign lhs rhs, nxt => assignRtlG ctx cur lhs (rtlValue ctx cur rhs) nxt
  | .ite test pats thn els, nxt =>
    let t := mask (widthOf ctx test) (evalRtl ctx cur test)
    if matchesAny pats t then execRtl ctx cur thn nxt else execRtl ctx cur els nxt

abbrev MaskTab := List Int

def MaskTab.get (t : MaskTab) (i : Nat) : Int := t.getD i 0

/-- `LHSMaskCollector.visit_value(value, mask)` -/
def lhsMask (ctx : Ctx) : Expr → Int → MaskTab → MaskTab
  | .sig i, m, t => t.set i (pyOr (t.get i) (pyAnd m (pyShl 1 (ctx.shape i).width - 1)))
  | .op1 .u a, m, t => lhsMask ctx a m t
  | .op1 .s a, m, t => lhsMask ctx a m t
  | .slice a s e, m, t => lhsMask ctx a (pyAnd (pyShl m s) (pyShl 1 e - pyShl 1 s)) t
  | .part a _ _ _, _, t => lhsMask ctx a (-1) t
  | .cat lo hi, m, t => lhsMask ctx hi (pyShr m (widthOf ctx lo)) (lhsMask ctx lo m t)
  | .ite _ _ thn els, m, t => lhsMask ctx els m (lhsMask ctx thn m t)
  | _, _, t => t

/-- which signals a target mentions at all (`self.lhs.setdefault(value, 0)`) -/
def lhsSigs : Expr → List Nat
  | .sig i => [i]
  | .op1 .u a => lhsSigs a
  | .op1 .s a => lhsSigs a
  | .slice a _ _ => lhsSigs a
  | .part a _ _ _ => lhsSigs a
  | .cat lo hi => lhsSigs lo ++ lhsSigs hi
  | .ite _ _ thn els => lhsSigs thn ++ lhsSigs els
  | _ => []

def stmtMask (ctx : Ctx) : Stmt → MaskTab → MaskTab
  | .skip, t => t
  | .seq a b, t => stmtMask ctx b (stmtMask ctx a t)
  | .assign lhs _, t => lhsMask ctx lhs (-1) t
  | .ite _ _ thn els, t => stmtMask ctx els (stmtMask ctx thn t)

def stmtSigs : Stmt → List Nat
  | .skip => []
  | .seq a b => stmtSigs a ++ stmtSigs b
  | .assign lhs _ => lhsSigs lhs
  | .ite _ _ thn els => stmtSigs thn ++ stmtSigs els

/-- `slots[i].update(next_i, mask)` with the sign extension of the mask for signed signals -/
def commitMask (s : Shape) (old new m : Int) : Int :=
  let m' := if s.signed && (pyAnd m (pyShl 1 (s.width - 1)) != 0) then pyOr m (pyShl (-1) s.width) else m
  pyOr (pyAnd old (pyNot m')) (pyAnd new m')

structure DomainCfg where
  /-- value of the reset signal at this edge (`none`: reset-less domain) -/
  rst : Option Int := none
deriving Repr

/-- one run of a combinational process -/
def combProcess (ctx : Ctx) (inits : Env) (body : Stmt) (cur : Env) : Env :=
  let n := ctx.length
  let tab := stmtMask ctx body (List.replicate n 0)
  let driven := stmtSigs body
  let start := (List.range n).map fun i => if driven.contains i then inits.val i else cur.val i
  let nxt := execRtl ctx cur body start
  (List.range n).map fun i => commitMask (ctx.shape i) (cur.val i) (nxt.val i) (tab.get i)

/-- one active edge of a synchronous process; `resetLess i` tells whether signal `i` is reset-less -/
def syncProcess (ctx : Ctx) (inits : Env) (resetLess : List Bool) (rst : Option Int) (body : Stmt) (cur : Env) : Env :=
  let n := ctx.length
  let tab := stmtMask ctx body (List.replicate n 0)
  let driven := stmtSigs body
  let nxt0 := execRtl ctx cur body cur
  let nxt : Env := match rst with
    | some r =>
      if pyAnd 1 r != 0 then
        (List.range n).map fun i =>
          if driven.contains i && !(resetLess.getD i false) then inits.val i else nxt0.val i
      else nxt0
    | none => nxt0
  (List.range n).map fun i => commitMask (ctx.shape i) (cur.val i) (nxt.val i) (tab.get i)

end Amaranth
