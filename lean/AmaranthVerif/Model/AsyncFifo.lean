/-!
# Model of `amaranth.lib.fifo.AsyncFIFO` and `AsyncFIFOBuffered`

Follows `amaranth/lib/fifo.py` register by register.  One model step is one *clock event*:
a rising edge of the write clock, of the read clock, or of both at once.  All registers of a
domain sample the values their inputs had immediately *before* the event (a coincident edge reads
pre-event values on both sides), which is what `wEdge`/`rEdge` taking a separate *source* state
express.

Reset: the write-domain reset `ResetSignal(w_domain)` is held low throughout (the property does
not quantify over resets), so the asynchronous set of `rst_cdc` (`AsyncFFSynchronizer`) never
fires.  Its two flops are however *initialised to 1*, so after power-on the internal `r_rst` is
high until two read-clock edges have passed; this power-on transient and the `with m.If(r_rst)`
branch it activates (`r_empty` forced, read counters loaded from `produce_r_gry`, output register
`r_rst`) are modelled (`rst0`, `rst1`, `rRst`).

Data words are natural numbers; the write port stores `w_data` truncated to `width` bits.
The storage is a function from addresses to words (`Memory(shape=width, depth=depth, init=[])`,
all rows initially 0).

F6 (defect of the current tree): `w_full` indexes `[-2]` of the Gray counters, which raises
`IndexError` when the counters are 1 bit wide (`AsyncFIFO(depth=1)`, `AsyncFIFOBuffered(depth=1|2)`).
`wFull` below is the *repaired* comparison (1-bit counters: full iff the Gray codes differ);
`wFullOld` is the comparison of the current tree, partial on the counter width.
-/

namespace Amaranth.AsyncFifo

/-! ## Gray coding helpers (`_gray_encode`, `_gray_decode`) -/

/-- `_gray_encode(val) = val ^ val[1:]` -/
def gray (x : Nat) : Nat := x ^^^ (x >>> 1)

/-- `_gray_decode(val)` for an `n`-bit `val`: `out[i] = val[i] ^ val[i+1] ^ … ^ val[n-1]`,
i.e. `val ^ (val >> 1) ^ … ^ (val >> (n-1))` (closed form of the loop in the source; tied to the
real function by the `graytab` request of the correspondence check). -/
def grayDecode : Nat → Nat → Nat
  | 0, _ => 0
  | k + 1, g => g ^^^ grayDecode k (g >>> 1)

/-! ## Constructors: depth rounding (`__init__`) and the index checks of `elaborate` -/

/-- `int.bit_length`, with fuel (structural, so that the kernel can evaluate it) -/
def bitLengthAux : Nat → Nat → Nat
  | 0, _ => 0
  | f + 1, n => if n = 0 then 0 else bitLengthAux f (n / 2) + 1

/-- `int.bit_length` -/
def bitLength (n : Nat) : Nat := bitLengthAux n n

/-- `amaranth.utils.ceil_log2` -/
def ceilLog2 (n : Nat) : Nat := if n = 0 then 0 else bitLength (n - 1)

/-- `amaranth.utils.bits_for` on a non-negative argument: the width of `Signal(range(n + 1))` -/
def bitsFor (n : Nat) : Nat := if n = 0 then 0 else ceilLog2 (n + 1)

/-- what a successfully constructed FIFO remembers: the (rounded) `depth` attribute and the
counter width `_ctr_bits` of the (inner) `AsyncFIFO` -/
structure Built where
  depth : Nat
  ctrBits : Nat
deriving Repr, DecidableEq

inductive CtorErr | valueError
deriving Repr, DecidableEq

/-- `AsyncFIFO.__init__(depth=…, exact_depth=…)` -/
def ctorAsync (depth : Nat) (exact : Bool) : Except CtorErr Built :=
  if depth != 0 then
    let depthBits := ceilLog2 depth
    if exact && depth != 1 <<< depthBits then .error .valueError
    else .ok ⟨1 <<< depthBits, depthBits + 1⟩
  else .ok ⟨0, 0 + 1⟩

/-- `AsyncFIFOBuffered.__init__`; `ctrBits` is that of the inner `AsyncFIFO(depth=self.depth - 1)`
created by `elaborate` (which is not created at all when the depth is 0) -/
def ctorBuffered (depth : Nat) (exact : Bool) : Except CtorErr Built :=
  if depth != 0 then
    let depthBits := ceilLog2 (depth - 1)
    if exact && depth != (1 <<< depthBits) + 1 then .error .valueError
    else
      match ctorAsync (((1 <<< depthBits) + 1) - 1) false with
      | .ok inner => .ok ⟨(1 <<< depthBits) + 1, inner.ctrBits⟩
      | .error e => .error e
  else .ok ⟨0, 1⟩

inductive ElabErr | indexError
deriving Repr, DecidableEq

/-- `Value.__getitem__` with an integer index on a value of length `len` -/
def indexOk (len : Nat) (i : Int) : Bool := decide (-(len : Int) ≤ i) && decide (i < (len : Int))

/-- The integer indexings performed by `AsyncFIFO.elaborate` on the current tree:
`produce_w_gry[-1]`, `[-2]` (slices never raise). -/
def elaborateOld (b : Built) : Except ElabErr Unit :=
  if b.depth = 0 then .ok ()
  else if indexOk b.ctrBits (-1) && indexOk b.ctrBits (-2) then .ok () else .error .indexError

/-- The same after the repair of F6: `[-2]` is only evaluated when the counters have ≥ 2 bits. -/
def elaborate (b : Built) : Except ElabErr Unit :=
  if b.depth = 0 then .ok ()
  else if b.ctrBits = 1 then (if indexOk b.ctrBits (-1) then .ok () else .error .indexError)
  else if indexOk b.ctrBits (-1) && indexOk b.ctrBits (-2) then .ok () else .error .indexError

/-! ## AsyncFIFO -/

/-- static configuration of an elaborated `AsyncFIFO` with non-zero depth -/
structure Cfg where
  /-- `_ctr_bits = depth_bits + 1` -/
  ctrBits : Nat
  /-- `width` -/
  width : Nat
deriving Repr, DecidableEq

/-- modulus of the binary / Gray counters -/
def Cfg.M (c : Cfg) : Nat := 2 ^ c.ctrBits
/-- `self.depth` (a power of two) -/
def Cfg.depth (c : Cfg) : Nat := 2 ^ (c.ctrBits - 1)

/-- values of the input ports at the moment of a clock event -/
structure Inp where
  wEn : Bool
  wData : Nat
  rEn : Bool
deriving Repr, DecidableEq

/-- one clock event: rising edge of the write clock, the read clock, or both at once -/
inductive Event
  | w (i : Inp)
  | r (i : Inp)
  | both (i : Inp)
deriving Repr, DecidableEq

def Event.inp : Event → Inp
  | .w i | .r i | .both i => i
def Event.isW : Event → Bool
  | .w _ | .both _ => true
  | .r _ => false
def Event.isR : Event → Bool
  | .r _ | .both _ => true
  | .w _ => false

structure State where
  /-- `produce_w_bin` (write domain) -/
  produceWBin : Nat
  /-- `produce_w_gry` (write domain) -/
  produceWGry : Nat
  /-- `consume_r_bin` (read domain, reset-less) -/
  consumeRBin : Nat
  /-- `consume_r_gry` (read domain, reset-less) -/
  consumeRGry : Nat
  /-- `produce_cdc.stage0` (read domain) -/
  pStage0 : Nat
  /-- `produce_cdc.stage1` = `produce_r_gry` (read domain) -/
  pStage1 : Nat
  /-- `consume_cdc.stage0` (write domain) -/
  cStage0 : Nat
  /-- `consume_cdc.stage1` = `consume_w_gry` (write domain) -/
  cStage1 : Nat
  /-- `consume_w_bin` (write domain) -/
  consumeWBin : Nat
  /-- `w_level` register (write domain) -/
  wLevel : Nat
  /-- `storage` rows -/
  mem : Nat → Nat
  /-- data register of the synchronous read port = `r_data` (read domain) -/
  rData : Nat
  /-- `rst_cdc.stage0` (read clock, initial value 1, asynchronous set never fires) -/
  rst0 : Bool
  /-- `rst_cdc.stage1` = the internal `r_rst` -/
  rst1 : Bool
  /-- the output register `self.r_rst` (read domain) -/
  rRst : Bool

def init : State :=
  { produceWBin := 0, produceWGry := 0, consumeRBin := 0, consumeRGry := 0,
    pStage0 := 0, pStage1 := 0, cStage0 := 0, cStage1 := 0, consumeWBin := 0,
    wLevel := 0, mem := fun _ => 0, rData := 0, rst0 := true, rst1 := true, rRst := false }

/-- The full comparison of the current tree on `n`-bit Gray codes; `none` = `IndexError`. -/
def wFullOld (n p c : Nat) : Option Bool :=
  if n < 2 then none
  else some ((p.testBit (n - 1) != c.testBit (n - 1)) &&     -- produce_w_gry[-1]  != consume_w_gry[-1]
             (p.testBit (n - 2) != c.testBit (n - 2)) &&     -- produce_w_gry[-2]  != consume_w_gry[-2]
             (p % 2 ^ (n - 2) == c % 2 ^ (n - 2)))           -- produce_w_gry[:-2] == consume_w_gry[:-2]

/-- Repaired (F6): with 1-bit counters (depth 1) the queue is full iff the two codes differ. -/
def wFull (n p c : Nat) : Bool :=
  if n < 2 then p != c
  else (p.testBit (n - 1) != c.testBit (n - 1)) &&
       (p.testBit (n - 2) != c.testBit (n - 2)) &&
       (p % 2 ^ (n - 2) == c % 2 ^ (n - 2))

/-- `w_full` -/
def State.wFull (c : Cfg) (s : State) : Bool := AsyncFifo.wFull c.ctrBits s.produceWGry s.cStage1
/-- `r_empty` (`consume_r_gry == produce_r_gry`, overridden to 1 while the internal `r_rst` is high) -/
def State.rEmpty (s : State) : Bool := s.rst1 || s.consumeRGry == s.pStage1
/-- `w_rdy` -/
def State.wRdy (c : Cfg) (s : State) : Bool := !s.wFull c
/-- `r_rdy` -/
def State.rRdy (s : State) : Bool := !s.rEmpty
/-- `produce_r_bin` (combinational decode of `produce_r_gry`) -/
def State.produceRBin (c : Cfg) (s : State) : Nat := grayDecode c.ctrBits s.pStage1
/-- `r_level` (combinational, truncated to the counter width) -/
def State.rLevel (c : Cfg) (s : State) : Nat := (s.produceRBin c + c.M - s.consumeRBin) % c.M

def b2n (b : Bool) : Nat := if b then 1 else 0

/-- `do_write = w_rdy & w_en` -/
def doWrite (c : Cfg) (s : State) (i : Inp) : Bool := s.wRdy c && i.wEn
/-- `do_read = r_rdy & r_en` -/
def doRead (s : State) (i : Inp) : Bool := s.rRdy && i.rEn
/-- `produce_w_nxt` -/
def produceWNxt (c : Cfg) (s : State) (i : Inp) : Nat := (s.produceWBin + b2n (doWrite c s i)) % c.M
/-- `consume_r_nxt` -/
def consumeRNxt (c : Cfg) (s : State) (i : Inp) : Nat := (s.consumeRBin + b2n (doRead s i)) % c.M

def update (m : Nat → Nat) (a v : Nat) : Nat → Nat := fun x => if x = a then v else m x

/-- Write-clock edge: the write-domain registers of `tgt` are replaced by functions of `src`. -/
def wEdge (c : Cfg) (src tgt : State) (i : Inp) : State :=
  { tgt with
    produceWBin := produceWNxt c src i
    produceWGry := gray (produceWNxt c src i)
    cStage0 := src.consumeRGry
    cStage1 := src.cStage0
    consumeWBin := grayDecode c.ctrBits src.cStage1
    wLevel := (src.produceWBin + c.M - src.consumeWBin) % c.M
    mem := if doWrite c src i then update src.mem (src.produceWBin % c.depth) (i.wData % 2 ^ c.width)
           else src.mem }

/-- Read-clock edge: the read-domain registers of `tgt` are replaced by functions of `src`.
The read port is always enabled and addressed by `consume_r_nxt[:-1]`; it is not transparent, so
on a coincident edge it returns the row as it was before the write. -/
def rEdge (c : Cfg) (src tgt : State) (i : Inp) : State :=
  { tgt with
    consumeRBin := if src.rst1 then grayDecode c.ctrBits src.pStage1 else consumeRNxt c src i
    consumeRGry := if src.rst1 then src.pStage1 else gray (consumeRNxt c src i)
    pStage0 := src.produceWGry
    pStage1 := src.pStage0
    rData := src.mem (consumeRNxt c src i % c.depth)
    rst0 := false
    rst1 := src.rst0
    rRst := src.rst1 }

def step (c : Cfg) (s : State) : Event → State
  | .w i => wEdge c s s i
  | .r i => rEdge c s s i
  | .both i => rEdge c s (wEdge c s s i) i

def run (c : Cfg) (s : State) : List Event → State
  | [] => s
  | e :: es => run c (step c s e) es

/-- observable outputs -/
structure Out where
  wRdy : Bool
  rRdy : Bool
  rData : Nat
  wLevel : Nat
  rLevel : Nat
  rRst : Bool
deriving Repr, DecidableEq

def outputs (c : Cfg) (s : State) : Out :=
  { wRdy := s.wRdy c, rRdy := s.rRdy, rData := s.rData, wLevel := s.wLevel, rLevel := s.rLevel c,
    rRst := s.rRst }

/-- the word accepted by the queue at this event, if any -/
def accepted (c : Cfg) (s : State) (e : Event) : Option Nat :=
  if e.isW && doWrite c s e.inp then some (e.inp.wData % 2 ^ c.width) else none
/-- the word handed to the reader at this event, if any -/
def delivered (s : State) (e : Event) : Option Nat :=
  if e.isR && doRead s e.inp then some s.rData else none

/-- all words accepted during `es`, oldest first -/
def writes (c : Cfg) (s : State) : List Event → List Nat
  | [] => []
  | e :: es => (accepted c s e).toList ++ writes c (step c s e) es
/-- all words delivered during `es`, oldest first -/
def reads (c : Cfg) (s : State) : List Event → List Nat
  | [] => []
  | e :: es => (delivered s e).toList ++ reads c (step c s e) es

/-! ## AsyncFIFOBuffered -/

structure BState where
  /-- the `unbuffered` sub-FIFO `AsyncFIFO(depth = self.depth - 1)` -/
  inner : State
  /-- `r_data` output register (read domain) -/
  rData : Nat
  /-- `r_rdy` output register (read domain) -/
  rRdy : Bool
  /-- `r_level` register (read domain) -/
  rLevel : Nat
  /-- `r_rst` output register (read domain) -/
  rRst : Bool
  /-- `consume_buffered_cdc.stage0 … stage3` (write domain); `w_consume_buffered` = stage3 -/
  sync0 : Bool
  sync1 : Bool
  sync2 : Bool
  sync3 : Bool

def binit : BState :=
  { inner := init, rData := 0, rRdy := false, rLevel := 0, rRst := false,
    sync0 := false, sync1 := false, sync2 := false, sync3 := false }

/-- `self.depth` of the buffered FIFO whose inner FIFO has configuration `c` -/
def Cfg.bdepth (c : Cfg) : Nat := c.depth + 1
/-- width of `Signal(range(depth + 1))` for the buffered FIFO's level outputs -/
def Cfg.blevelBits (c : Cfg) : Nat := bitsFor c.bdepth

/-- `r_consume_buffered = (r_rdy - r_en) & r_rdy`, truncated to 1 bit: `r_rdy & ~r_en` -/
def BState.rConsumeBuffered (s : BState) (i : Inp) : Bool := s.rRdy && !i.rEn
/-- the condition `r_en | ~r_rdy` under which the output register loads and `fifo.r_en` is 1 -/
def BState.load (s : BState) (i : Inp) : Bool := i.rEn || !s.rRdy
/-- the inputs seen by the inner FIFO -/
def BState.innerInp (s : BState) (i : Inp) : Inp := { i with rEn := s.load i }

def bwEdge (c : Cfg) (src tgt : BState) (i : Inp) : BState :=
  { tgt with
    inner := wEdge c src.inner tgt.inner (src.innerInp i)
    sync0 := src.rConsumeBuffered i
    sync1 := src.sync0
    sync2 := src.sync1
    sync3 := src.sync2 }

def brEdge (c : Cfg) (src tgt : BState) (i : Inp) : BState :=
  { tgt with
    inner := rEdge c src.inner tgt.inner (src.innerInp i)
    rLevel := (src.inner.rLevel c + b2n (src.rConsumeBuffered i)) % 2 ^ c.blevelBits
    rData := if src.load i then src.inner.rData else src.rData
    rRdy := if src.load i then src.inner.rRdy else src.rRdy
    rRst := if src.load i then src.inner.rRst else src.rRst }

def bstep (c : Cfg) (s : BState) : Event → BState
  | .w i => bwEdge c s s i
  | .r i => brEdge c s s i
  | .both i => brEdge c s (bwEdge c s s i) i

def brun (c : Cfg) (s : BState) : List Event → BState
  | [] => s
  | e :: es => brun c (bstep c s e) es

def boutputs (c : Cfg) (s : BState) : Out :=
  { wRdy := s.inner.wRdy c, rRdy := s.rRdy, rData := s.rData,
    wLevel := (s.inner.wLevel + b2n s.sync3) % 2 ^ c.blevelBits, rLevel := s.rLevel, rRst := s.rRst }

def baccepted (c : Cfg) (s : BState) (e : Event) : Option Nat :=
  if e.isW && (s.inner.wRdy c && e.inp.wEn) then some (e.inp.wData % 2 ^ c.width) else none
def bdelivered (s : BState) (e : Event) : Option Nat :=
  if e.isR && (s.rRdy && e.inp.rEn) then some s.rData else none

def bwrites (c : Cfg) (s : BState) : List Event → List Nat
  | [] => []
  | e :: es => (baccepted c s e).toList ++ bwrites c (bstep c s e) es
def breads (c : Cfg) (s : BState) : List Event → List Nat
  | [] => []
  | e :: es => (bdelivered s e).toList ++ breads c (bstep c s e) es

/-! ## Depth 0 (both classes): `w_rdy = r_rdy = 0`, nothing else is driven -/

def zeroOutputs : Out := { wRdy := false, rRdy := false, rData := 0, wLevel := 0, rLevel := 0, rRst := false }

end Amaranth.AsyncFifo
