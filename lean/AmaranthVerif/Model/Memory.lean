import AmaranthVerif.Model.Shape

/-!
# Model of `lib.memory.Memory` as the Python simulator executes it

Core Lean only. Follows, mechanism by mechanism,

* `amaranth/lib/memory.py`  — `WritePort.Signature.__init__` (width of `en` from the granularity and the row
  shape, rejections), `ReadPort.__init__` (transparency set: same memory, same domain), `MemoryData.Init`;
* `amaranth/hdl/_mem.py`    — `MemoryInstance._WritePort._granularity` (bits per enable bit);
* `amaranth/sim/_pyrtl.py`  — the memory section of `_FragmentCompiler`: one process per clock domain, woken
  by the domain's clock changing to its active level; it enqueues `slots[m].write(addr, data, en)` for every
  write port of the domain in index order (`en` = every enable bit replicated `granularity` times), then for
  every read port of the domain, `if en:` reads the *committed* row, patches it with the write ports of its
  transparency set whose address is equal (`data &= ~wen; data |= wdata & wen`) and assigns it to the port's
  `data` signal; a `"comb"` read port is a combinational process `data = slots[m].read(addr)`;
* `amaranth/sim/pysim.py`   — `_PyMemoryState.read` (0 beyond the depth), `.write` (ignored beyond the depth;
  the queue entry of an address starts as the committed row, masked writes are merged into it, signed rows
  are re-signed), `.commit` (after every process of the delta ran);
* `amaranth/sim/_pyeval.py` — a testbench reading `mem[i]` gets `read(i)`, writing `mem[i][a:b]` calls
  `write(i, value << a, (1 << b) - (1 << a))` and commits; `mem[i]` itself is `MemoryData.__getitem__`
  (`hdl/_mem.py`), which raises `IndexError` unless `0 ≤ i < depth` (`rowIndex`, `tbGet`, `tbSet`).

Which configurations exist. `mkCfg` is the sequence of constructor calls (`MemoryData`, `write_port`,
`read_port`) with their rejections; `readPortsCheck` is the transparency rule (`ReadPort.__init__`,
asserted again by `MemoryInstance.read_port`: every port of a transparency set is a write port of this
memory **and of the read port's own domain**). The domain process of the simulator follows it: its
`write_vals` dictionary only has the write ports of its own domain (`wvalsDom`), so a transparency list
naming a port of another domain has nothing to look up (a `KeyError` while compiling the real process).

Coincident edges of different domains. The real simulator runs one process per domain, in an order that is
not part of any contract; `enqueue` merges the writes of *all* domains in port-index order. For write ports
of one domain this is exactly what the code does; for ports of different domains hitting the same granule at
coincident edges it is one of the possible orders (the library documents that case as undefined).

Reset. Memory ports have no reset: neither the netlist (`$memrd_v2` with `SRST`/`ARST` tied to 0) nor
`ResetInserter` touch them. The simulator as found nevertheless loaded the initial value into a read port's
`data` signal whenever the domain's reset was asserted (finding F22: at a clock edge with `rst` high a
disabled port loses its output; an asserted asynchronous reset clears it at once). `step` is the repaired
behaviour (reset does nothing to a memory); `stepOld` keeps what the code did.
-/

namespace Amaranth.Mem

/-! ## Python integers, bit by bit -/

/-- bit `i` of a Python integer (two's complement, infinitely sign-extended): `(v >> i) & 1` -/
def ibit : Int → Nat → Bool
  | .ofNat m, i => m.testBit i
  | .negSucc m, i => !m.testBit i

/-- Python `(value & mask) | (old & ~mask)` -/
def pyMerge (value mask old : Int) : Int := pyOr (pyAnd value mask) (pyAnd old (pyNot mask))

/-- the value of `Cat(bit.replicate(g) for bit in en)` for an `n`-bit `en` -/
def replMask (g : Nat) : Nat → Nat → Nat
  | 0, _ => 0
  | n + 1, en => (if en % 2 = 1 then 2 ^ g - 1 else 0) + 2 ^ g * replMask g n (en / 2)

/-! ## Configuration -/

/-- `ClockDomain(reset_less=True)` / the default / `async_reset=True` -/
inductive RstKind | none | sync | async
deriving DecidableEq, Repr

structure DomCfg where
  posedge : Bool
  rst : RstKind
deriving Repr

structure RdCfg where
  /-- `none`: the `"comb"` domain (asynchronous port) -/
  dom : Option Nat
  /-- indices of the write ports in `transparent_for`, in the order given -/
  transp : List Nat
deriving Repr

structure WrCfg where
  dom : Nat
  /-- `MemoryInstance._WritePort._granularity`: data bits per enable bit -/
  gran : Nat
  /-- `len(en)` -/
  enw : Nat
deriving Repr

structure Cfg where
  shape : Shape
  depth : Nat
  /-- `MemoryData.Init._raw`, one entry per row -/
  init : List Int
  doms : List DomCfg
  rds : List RdCfg
  wrs : List WrCfg
  /-- initial value of every read port's `data` signal (only `stepOld` looks at it) -/
  rdInit : List Int
deriving Repr

instance : Inhabited WrCfg := ⟨⟨0, 1, 1⟩⟩
instance : Inhabited RdCfg := ⟨⟨none, []⟩⟩
instance : Inhabited DomCfg := ⟨⟨true, .none⟩⟩

/-- `ceil_log2(depth)`: the width of every address signal -/
def Cfg.abits (c : Cfg) : Nat := ceilLog2 c.depth

/-! ## Constructors (`lib.memory`, `hdl._mem`) -/

/-- what `WritePort.Signature.__init__` distinguishes about the row shape -/
inductive RowKind
  | plain (s : Shape)                 -- not a `ShapeCastable`
  | array (elemWidth length : Nat)    -- `data.ArrayLayout`
  | castable (width : Nat)            -- any other `ShapeCastable`
deriving Repr

def RowKind.width : RowKind → Nat
  | .plain s => s.width
  | .array e n => e * n
  | .castable w => w

inductive GranArg | none | int (g : Int) | other
deriving Repr

/-- `len(en)` of a write port, or the exception `WritePort.Signature.__init__` raises -/
def enWidth : RowKind → GranArg → Except String Nat
  | _, .none => .ok 1
  | _, .other => .error "TypeError"
  | k, .int g =>
    if g < 0 then .error "TypeError" else
    match k with
    | .plain s =>
      if s.signed then .error "ValueError"
      else if s.width = 0 then .ok 0
      else if g = 0 then .error "ValueError"
      else if s.width % g.toNat ≠ 0 then .error "ValueError"
      else .ok (s.width / g.toNat)
    | .array _ n =>
      if n = 0 then .ok 0
      else if g = 0 then .error "ValueError"
      else if n % g.toNat ≠ 0 then .error "ValueError"
      else .ok (n / g.toNat)
    | .castable _ => .error "TypeError"

/-- `MemoryInstance._WritePort._granularity` -/
def granBits (width enw : Nat) : Nat := if width = 0 then 1 else width / enw

/-- `MemoryData.Init.__init__`: depth must be a non-negative `int`, at most `depth` initial rows -/
def initCheck (depth : Option Int) (nInit : Nat) : Except String Unit :=
  match depth with
  | none => .error "TypeError"
  | some d => if d < 0 then .error "TypeError" else if (nInit : Int) > d then .error "ValueError" else .ok ()

/-- one element of a `transparent_for` argument -/
inductive TranspArg
  | port (sameMemory : Bool) (dom : Nat)
  | notAPort
deriving Repr

/-- `ReadPort.__init__`: the first offending element of the transparency set decides -/
def readPortCheck (dom : Option Nat) : List TranspArg → Except String Unit
  | [] => .ok ()
  | .notAPort :: _ => .error "TypeError"
  | .port same d :: rest =>
    if !same then .error "ValueError"
    else if dom ≠ some d then .error "ValueError"
    else readPortCheck dom rest

/-- `WritePort.__init__`: write ports cannot be asynchronous -/
def writePortCheck (dom : Option Nat) : Except String Unit :=
  match dom with | none => .error "ValueError" | some _ => .ok ()

/-- the `transparent_for` argument of read port creation, as `ReadPort.__init__` sees it: index `j` is write
port `j` of this memory if there is one (anything else is not a port of this memory) -/
def transpArgs (wrs : List WrCfg) (transp : List Nat) : List TranspArg :=
  transp.map fun j => if j < wrs.length then .port true (wrs.getD j default).dom else .port false 0

/-- `ReadPort.__init__` for every read port of a configuration (the same rule is asserted by
`MemoryInstance.read_port`: index in range, same domain, none for a `"comb"` port) -/
def readPortsCheck (wrs : List WrCfg) : List RdCfg → Except String Unit
  | [] => .ok ()
  | r :: rest =>
    match readPortCheck r.dom (transpArgs wrs r.transp) with
    | .ok _ => readPortsCheck wrs rest
    | .error e => .error e

/-- the arguments of `Memory.write_port` -/
structure WrArg where
  dom : Option Nat
  gran : GranArg
deriving Repr

/-- `Memory.write_port`: the signature (granularity) is built first, then `WritePort.__init__` -/
def mkWr (k : RowKind) (a : WrArg) : Except String WrCfg :=
  match enWidth k a.gran with
  | .error e => .error e
  | .ok n =>
    match a.dom with
    | none => .error "ValueError"
    | some d => .ok ⟨d, granBits k.width n, n⟩

def mkWrs (k : RowKind) : List WrArg → Except String (List WrCfg)
  | [] => .ok []
  | a :: rest =>
    match mkWr k a with
    | .error e => .error e
    | .ok w =>
      match mkWrs k rest with
      | .error e => .error e
      | .ok ws => .ok (w :: ws)

/-- the `Shape` the rows are read with (`Shape.cast(shape)`: aggregates are unsigned bit vectors) -/
def RowKind.shape : RowKind → Shape
  | .plain s => s
  | .array e n => ⟨e * n, false⟩
  | .castable w => ⟨w, false⟩

/-- `Memory(shape=, depth=, init=)` followed by the `write_port` and `read_port` calls: the configuration, or
the first exception. `MemoryData.Init` pads the initial rows with zeros up to the depth; the `data` signal of
every read port starts at 0. -/
def mkCfg (k : RowKind) (depth : Nat) (initRows : List Int) (doms : List DomCfg) (wrArgs : List WrArg)
    (rdArgs : List RdCfg) : Except String Cfg :=
  match initCheck (some (depth : Int)) initRows.length with
  | .error e => .error e
  | .ok _ =>
    match mkWrs k wrArgs with
    | .error e => .error e
    | .ok wrs =>
      match readPortsCheck wrs rdArgs with
      | .error e => .error e
      | .ok _ =>
        .ok { shape := k.shape, depth := depth,
              init := initRows.map (norm k.shape) ++ List.replicate (depth - initRows.length) 0,
              doms := doms, rds := rdArgs, wrs := wrs, rdInit := List.replicate rdArgs.length 0 }

/-! ## Simulator state and stimulus -/

structure State where
  /-- `_PyMemoryState.data` -/
  rows : List Int
  /-- current value of every read port's `data` signal (entries of `"comb"` ports are not used) -/
  rdata : List Int
  /-- current level of every domain's clock and reset signal -/
  clk : List Bool
  rst : List Bool
deriving Repr, DecidableEq

/-- the values of a write port's input signals -/
structure WrIn where
  addr : Nat
  data : Int
  en : Nat
deriving Repr

/-- the values of a read port's input signals -/
structure RdIn where
  addr : Nat
  en : Bool
deriving Repr

structure Inputs where
  wr : List WrIn
  rd : List RdIn
deriving Repr

instance : Inhabited WrIn := ⟨⟨0, 0, 0⟩⟩
instance : Inhabited RdIn := ⟨⟨0, false⟩⟩

/-- one testbench `ctx.set(Cat(clk…, rst…), …)`: the new level of every clock and reset signal -/
structure Event where
  clk : List Bool
  rst : List Bool
deriving Repr

def init (c : Cfg) : State :=
  ⟨c.init, c.rdInit, List.replicate c.doms.length false, List.replicate c.doms.length false⟩

/-! ## `_PyMemoryState` -/

/-- `read(addr)` -/
def memRead (rows : List Int) (addr : Nat) : Int :=
  if addr < rows.length then rows.getD addr 0 else 0

/-- the sign fix-up of `write`: bits above the sign bit are made equal to it (signed rows only) -/
def resign (sh : Shape) (v : Int) : Int := if sh.signed then norm sh v else v

/-- `write_queue`: entry `a` is `some v` iff `a in write_queue` -/
abbrev Queue := List (Option Int)

def Queue.empty (depth : Nat) : Queue := List.replicate depth none

/-- what `write_queue[addr]` is after the `if addr not in self.write_queue` initialisation -/
def pending (rows : List Int) (q : Queue) (addr : Nat) : Int :=
  (q.getD addr none).getD (rows.getD addr 0)

/-- `write(addr, value, mask)` -/
def qwrite (sh : Shape) (rows : List Int) (q : Queue) (addr : Nat) (value mask : Int) : Queue :=
  if addr < rows.length then
    q.set addr (some (resign sh (pyMerge value mask (pending rows q addr))))
  else q

/-- `commit()` -/
def commit (rows : List Int) (q : Queue) : List Int :=
  rows.mapIdx fun a r => (q.getD a none).getD r

/-! ## The domain process -/

/-- `edge_waker`: the process is woken when the clock *changes to* the active level -/
def runs (c : Cfg) (s : State) (e : Event) (d : Nat) : Bool :=
  let ck := s.clk.getD d false
  let ck' := e.clk.getD d false
  ck' != ck && ck' == (c.doms.getD d default).posedge

/-- `write_vals[idx]`: masked address, masked data, replicated and masked enable -/
structure WVal where
  addr : Nat
  data : Int
  en : Int
deriving Repr

def wval (c : Cfg) (w : WrCfg) (i : WrIn) : WVal :=
  ⟨i.addr % 2 ^ c.abits, mask c.shape.width i.data, mask c.shape.width (replMask w.gran w.enw i.en)⟩

/-- the `write_vals` dictionary of this delta: `some` for the write ports whose process runs -/
def wvalOf (c : Cfg) (s : State) (inp : Inputs) (e : Event) (k : Nat) : Option WVal :=
  let w := c.wrs.getD k default
  if runs c s e w.dom then some (wval c w (inp.wr.getD k default)) else none

def wvals (c : Cfg) (s : State) (inp : Inputs) (e : Event) : List (Option WVal) :=
  (List.range c.wrs.length).map (wvalOf c s inp e)

/-- the `write_vals` dictionary of the process of domain `d`: only the write ports of that domain are in it
(`if port._domain != domain_name: continue`) -/
def wvalsDom (c : Cfg) (s : State) (inp : Inputs) (e : Event) (d : Nat) : List (Option WVal) :=
  (List.range c.wrs.length).map fun k =>
    if (c.wrs.getD k default).dom = d then wvalOf c s inp e k else none

/-- all `slots[m].write(...)` calls of the delta, write ports in index order -/
def enqueue (sh : Shape) (rows : List Int) : Queue → List (Option WVal) → Queue
  | q, [] => q
  | q, none :: rest => enqueue sh rows q rest
  | q, some wv :: rest => enqueue sh rows (qwrite sh rows q wv.addr wv.data wv.en) rest

/-- `if addr == waddr: data &= ~wen; data |= wdata & wen` -/
def patch (data : Int) (raddr : Nat) (wv : WVal) : Int :=
  if raddr = wv.addr then pyOr (pyAnd data (pyNot wv.en)) (pyAnd wv.data wv.en) else data

/-- the loop over `port._transparent_for` -/
def patchAll (wvs : List (Option WVal)) (raddr : Nat) : Int → List Nat → Int
  | d, [] => d
  | d, idx :: rest =>
    match wvs.getD idx none with
    | some wv => patchAll wvs raddr (patch d raddr wv) rest
    | none => patchAll wvs raddr d rest

/-- the value an enabled synchronous read port assigns to its `data` signal -/
def capture (c : Cfg) (rows : List Int) (wvs : List (Option WVal)) (r : RdCfg) (i : RdIn) : Int :=
  let addr := i.addr % 2 ^ c.abits
  norm c.shape (patchAll wvs addr (memRead rows addr) r.transp)

/-- is the domain's reset signal high (after this event's change was committed)? -/
def rstHigh (c : Cfg) (e : Event) (d : Nat) : Bool :=
  (c.doms.getD d default).rst != .none && e.rst.getD d false

/-- did an asynchronous reset of domain `d` rise at this event? -/
def asyncRise (c : Cfg) (s : State) (e : Event) (d : Nat) : Bool :=
  (c.doms.getD d default).rst == .async && !s.rst.getD d false && e.rst.getD d false

/-- One testbench event. `old = true` keeps the reset behaviour of the code as found (F22). -/
def stepG (old : Bool) (c : Cfg) (s : State) (inp : Inputs) (e : Event) : State :=
  let wvs := wvals c s inp e
  let q := enqueue c.shape s.rows (Queue.empty s.rows.length) wvs
  let rdata := c.rds.mapIdx fun k r =>
    let cur := s.rdata.getD k 0
    match r.dom with
    | none => cur
    | some d =>
      let i := inp.rd.getD k default
      let clocked :=
        if runs c s e d then
          (if i.en then capture c s.rows (wvalsDom c s inp e d) r i
           else if old && rstHigh c e d then c.rdInit.getD k 0 else cur)
        else cur
      if old && asyncRise c s e d then c.rdInit.getD k 0 else clocked
  ⟨commit s.rows q, rdata, e.clk, e.rst⟩

/-- the repaired simulator -/
def step (c : Cfg) (s : State) (inp : Inputs) (e : Event) : State := stepG false c s inp e

/-- the simulator as found: a read port's `data` is loaded with its initial value by the domain reset -/
def stepOld (c : Cfg) (s : State) (inp : Inputs) (e : Event) : State := stepG true c s inp e

/-! ## Testbench row access -/

/-- `MemoryData.__getitem__(index)`: `operator.index(index)`, then `IndexError` unless `index in range(depth)`
(no negative indices) -/
def rowIndex (depth : Nat) (index : Int) : Except String Nat :=
  if 0 ≤ index ∧ index < (depth : Int) then .ok index.toNat else .error "IndexError"

/-- `ctx.get(row)` for an existing row -/
def tbRead (s : State) (i : Nat) : Int := memRead s.rows i

/-- `ctx.set(row[start:stop], v)` for row `i`: `write(i, v << start, (1 << stop) - (1 << start))`, then commit -/
def tbWrite (c : Cfg) (s : State) (i start stop : Nat) (v : Int) : State :=
  let q := qwrite c.shape s.rows (Queue.empty s.rows.length) i (pyShl v start) ((2 : Int) ^ stop - 2 ^ start)
  { s with rows := commit s.rows q }

/-- `ctx.get(mem[index])`, with the row lookup -/
def tbGet (c : Cfg) (s : State) (index : Int) : Except String Int :=
  match rowIndex c.depth index with
  | .ok i => .ok (tbRead s i)
  | .error e => .error e

/-- `ctx.set(mem[index][start:stop], v)`, with the row lookup -/
def tbSet (c : Cfg) (s : State) (index : Int) (start stop : Nat) (v : Int) : Except String State :=
  match rowIndex c.depth index with
  | .ok i => .ok (tbWrite c s i start stop v)
  | .error e => .error e

/-! ## What a testbench observes -/

/-- the `data` signal of a `"comb"` read port -/
def combRead (c : Cfg) (s : State) (i : RdIn) : Int :=
  norm c.shape (memRead s.rows (i.addr % 2 ^ c.abits))

/-- `ctx.get(port.data)` for every read port -/
def readData (c : Cfg) (s : State) (inp : Inputs) : List Int :=
  c.rds.mapIdx fun k r =>
    match r.dom with
    | none => combRead c s (inp.rd.getD k default)
    | some _ => s.rdata.getD k 0

/-- run a list of (inputs, event) pairs -/
def run (c : Cfg) : State → List (Inputs × Event) → State
  | s, [] => s
  | s, (inp, e) :: rest => run c (step c s inp e) rest

end Amaranth.Mem
