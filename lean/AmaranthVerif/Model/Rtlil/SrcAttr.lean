import AmaranthVerif.Spec.RtlilSrcAttr
import AmaranthVerif.Model.Rtlil.WF

/-!
# The validator for given `\src` attributes, and the two validators together

`checkAll d exp`: `check d (exp.map Foreign.design)` (everything of `WellFormed`; the expected
attributes without those named `\src`), then `givenSrcKeptB d exp`.
(`Properties/C07.wf_src_sound`.)
-/

namespace Amaranth.Rtlil

def cellSrcKeptB (exp : List Foreign) (c : Cell) : Bool :=
  exp.all fun f => !(f.type == c.type) || f.srcAttrs.isEmpty || c.srcAttrs == f.srcAttrs

def givenSrcKeptB (d : Doc) (exp : List Foreign) : Bool :=
  d.all fun m => m.cells.all (cellSrcKeptB exp)

/-- verdict of both validators: the failing module and the name of the failing clause -/
def checkAll (d : Doc) (exp : List Foreign) : Except (String × String) Unit :=
  match check d (exp.map Foreign.design) with
  | .error (mn, cl) => .error (mn, cl.name)
  | .ok () =>
    match d.find? (fun m => !m.cells.all (cellSrcKeptB exp)) with
    | some m => .error (m.name, "given-src-attribute-kept")
    | none => .ok ()

end Amaranth.Rtlil
