import AmaranthVerif.Spec.RtlilWF

/-!
# The validator: `check : Doc → List Foreign → Except (module × clause) Unit`

One Boolean clause per sentence of the property; `check` reports the first failing clause of the
first failing module.  (`Properties/C07.wf_sound` : `check d exp = .ok () → WellFormed d exp`.)
The item inside the module that makes the clause fail is located by `Driver/C07Main` (diagnostics
only, unverified).
-/

namespace Amaranth.Rtlil

inductive Clause
  | dupModule | dupName | unknownWire | sliceBounds | connectWidth | assignWidth | caseWidth
  | portIds | cell | driverCount
deriving DecidableEq, Repr, Inhabited

def Clause.name : Clause → String
  | .dupModule => "module-names-unique"
  | .dupName => "names-unique"
  | .unknownWire => "referenced-wire-exists"
  | .sliceBounds => "slice-within-bounds"
  | .connectWidth => "connect-widths-equal"
  | .assignWidth => "assign-widths-equal"
  | .caseWidth => "case-pattern-width"
  | .portIds => "port-indices-dense"
  | .cell => "cell-ports-params-widths-directions"
  | .driverCount => "exactly-one-driver"

def nodupB : List String → Bool
  | [] => true
  | a :: rest => !rest.contains a && nodupB rest

def Module.chunkRefOkB (m : Module) (c : Chunk) : Bool :=
  match c.wireName with
  | none => true
  | some n => (m.wire? n).isSome

def Module.chunkInBoundsB (m : Module) : Chunk → Bool
  | .slice n hi lo =>
    decide (lo ≤ hi) && (match m.wire? n with
      | some w => decide (hi < w.width)
      | none => false)
  | .bit n i =>
    (match m.wire? n with
      | some w => decide (i < w.width)
      | none => false)
  | _ => true

def Module.sameWidthB (m : Module) (l r : SigSpec) : Bool :=
  match m.specWidth l, m.specWidth r with
  | some a, some b => a == b
  | _, _ => false

def Module.caseWidthB (m : Module) (sw : SigSpec × List Pats) : Bool :=
  match m.specWidth sw.1 with
  | some n => sw.2.all (fun pats => pats.all (fun pat => pat.length == n))
  | none => false

def dirOkB (m : Module) (dir : Dir) (s : SigSpec) : Bool :=
  match dir with
  | .input => true
  | .output => s.chunks.all (fun c => match c with | .const _ => false | _ => true)
  | .inout => s.chunks.all (fun c => match c.wireName with
      | some n => (match m.wire? n with
        | some w => w.isInout
        | none => false)
      | none => false)

def connsMatchB (m : Module) (c : Cell) (sig : List PortSig) : Bool :=
  nodupB (c.conns.map (·.1)) &&
  c.conns.all (fun ps =>
    match sig.find? (·.name == ps.1) with
    | some p => m.specWidth ps.2 == some p.width && dirOkB m p.dir ps.2
    | none => false) &&
  sig.all (fun p => (c.conns.map (·.1)).contains p.name)

def memRefOkB (m : Module) (c : Cell) : Bool :=
  if memTypes.contains c.type then
    match c.strParam? "\\MEMID" with
    | some id =>
      match m.memories.find? (·.name == id) with
      | some mem =>
        c.natParam? "\\WIDTH" == some mem.width &&
        (if c.type == "$meminit_v2" then
          (match c.natParam? "\\WORDS" with
           | some n => decide (n ≤ mem.size)
           | none => false)
         else true)
      | none => false
    | none => false
  else true

def isWholeWireB (n : String) (w : Nat) (s : SigSpec) : Bool :=
  s.chunks == [.wire n] || s.chunks == [.slice n (w - 1) 0] || (w == 1 && s.chunks == [.bit n 0])

def foreignWiresB (c : Cell) (f : Foreign) : Bool :=
  f.ports.all fun p =>
    match p.wire with
    | none => true
    | some n => c.conns.all fun ps => if ps.1 == p.name then isWholeWireB n p.width ps.2 else true

def cellOkB (d : Doc) (exp : List Foreign) (m : Module) (c : Cell) : Bool :=
  if isInternal c.type then
    match cellSig c with
    | some sig =>
      let names := c.params.map (·.name)
      nodupB names && names.all (sig.params.contains ·) && sig.params.all (names.contains ·) &&
      sig.extra && memRefOkB m c && connsMatchB m c sig.ports
    | none => false
  else
    match d.module? c.type with
    | some m' => c.params.isEmpty && connsMatchB m c (m'.ports.map (·.sig))
    | none =>
      match exp.find? (·.type == c.type) with
      | some f =>
        c.params == f.params && c.designAttrs == f.attrs && connsMatchB m c (f.ports.map (·.sig)) &&
        foreignWiresB c f
      | none => false

def driversOkB (d : Doc) (exp : List Foreign) (m : Module) : Bool :=
  -- the lists are computed once per module
  let outs := cellOutChunks d exp m
  let conns := m.connects.flatMap (·.1.chunks)
  let procs := m.procs.map (·.lhsChunks)
  m.wires.all fun w =>
    w.isInout ||
    (let base := m.wires.countP (fun w' => w'.name == w.name && w'.isInput)
     (List.range w.width).all fun i =>
       base + outs.countP (·.covers w.name i) + conns.countP (·.covers w.name i)
         + procs.countP (fun cs => cs.any (·.covers w.name i)) == 1)

def moduleClauses (d : Doc) (exp : List Foreign) (m : Module) : List (Clause × Bool) :=
  [ (.dupName, nodupB m.names),
    (.unknownWire, m.chunks.all m.chunkRefOkB),
    (.sliceBounds, m.chunks.all m.chunkInBoundsB),
    (.connectWidth, m.connects.all (fun lr => m.sameWidthB lr.1 lr.2)),
    (.assignWidth, m.procs.all (fun p => p.body.assigns.all (fun lr => m.sameWidthB lr.1 lr.2))),
    (.caseWidth, m.procs.all (fun p => p.body.switches.all m.caseWidthB)),
    (.portIds, m.portIds == List.range m.portIds.length),
    (.cell, m.cells.all (cellOkB d exp m)),
    (.driverCount, driversOkB d exp m) ]

def firstFailing (cs : List (Clause × Bool)) : Option Clause :=
  (cs.find? (fun p => !p.2)).map (·.1)

/-- the validator -/
def check (d : Doc) (exp : List Foreign) : Except (String × Clause) Unit :=
  if !nodupB (d.map (·.name)) then .error ("", .dupModule)
  else
    match d.findSome? (fun m => (firstFailing (moduleClauses d exp m)).map (fun c => (m.name, c))) with
    | some e => .error e
    | none => .ok ()

end Amaranth.Rtlil
