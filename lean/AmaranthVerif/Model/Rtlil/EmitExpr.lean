import AmaranthVerif.Model.Expr
import AmaranthVerif.Model.Rtlil.Emit
import AmaranthVerif.Model.Rtlil.Eval

/-!
# The emitter, for right-hand-side values: AST → netlist cells → RTLIL cells

`emitExpr ctx e st` follows what `/repo` does with a value on the right of an assignment:

* `amaranth/hdl/_ir.py`, `NetlistEmitter.emit_rhs` (and `extend`, `unify_shapes_bitwise`, `emit_operator`,
  `emit_match`): a value becomes a list of *nets* (least significant first; a net is a constant bit or a bit of a
  cell output / of a signal) together with a signedness flag; operators, part-selects and choices create netlist
  cells (`Operator`, `Part`, `Match` + `AssignmentList`) whose operands have been extended to the widths the netlist
  operator wants;
* `amaranth/back/rtlil.py`, `ModuleEmitter.emit_operator`, `shorten_operand`, `emit_part`, `emit_assignment_list`,
  `sigspec`: every netlist cell becomes RTLIL cells (type, `\A_SIGNED \B_SIGNED \A_WIDTH \B_WIDTH \Y_WIDTH` /
  `\WIDTH` parameters, connections) or, for an `AssignmentList`, a process with a `switch` rebuilt from the `Match`
  cell; the cell's output nets are the bits of one fresh wire.

The two stages are fused per netlist cell (the backend walks the cells in creation order and nothing in between
reorders or rewrites them: `resolve_all_nets` only substitutes late-bound signal nets).  Names: the backend
allocates the output wires of all cells first and the auxiliary wires and cell names while emitting; here one counter
gives wire and cell names in emission order, so the emitted text is the real one **up to the names of generated
wires and cells** (compared that way by `harness/checks/c04.py`, stream `emit`).

Outside the model: `rhs_cache` (a Python object that occurs twice is emitted once; expressions here are trees), the
`src` attributes, signals that are not inputs of the top module.

What is emitted is a list of `Rtlil.Node`s — the very type the evaluator (`Model/Rtlil/Eval.lean`, used by the driver
on parsed RTLIL text) runs: `.cell` for word-level cells, `.proc` for the process of an `AssignmentList`.
-/

namespace Amaranth.Rtlil
open Amaranth

/-- a netlist value: nets, least significant first (`_nir.Value`) -/
abbrev Val := List Net

/-! ## names -/

/-- `Module._auto_name`: `$<index>` -/
def autoName (k : Nat) : String := "$" ++ toString k
/-- the wire of input signal `i` (the harness names its signals `i0, i1, …`) -/
def sigName (i : Nat) : String := "\\i" ++ toString i

/-! ## values -/

/-- `Value.from_const(value, width)`: `(value >> bit) & 1` for `bit in range(width)` -/
def constBits (v : Int) : Nat → Val
  | 0 => []
  | w + 1 => .const (v % 2 == 1) :: constBits (v / 2) w

/-- bits `start, start+1, …` of a wire: the nets of a cell output or of a signal -/
def wireBits (n : String) (start : Nat) : Nat → Val
  | 0 => []
  | w + 1 => .wire n start :: wireBits n (start + 1) w

/-- `NetlistEmitter.extend`: repeat the top net (signed) or append constant zeros (unsigned) up to `width` -/
def extendV (v : Val) (signed : Bool) (width : Nat) : Val :=
  v ++ List.replicate (width - v.length) (if signed then v.getLast?.getD (.const false) else .const false)

def Net.isConst : Net → Bool
  | .const _ => true
  | .wire _ _ => false

/-- `Value.is_const` -/
def Val.isConst (v : Val) : Bool := v.all Net.isConst

/-! ## `shorten_operand` (on the reversed value: most significant net first) -/

/-- `while len(value) > 1 and value[-1] == value[-2]: value.pop()` -/
def shortenSR : List Net → List Net
  | a :: b :: rest => if a = b then shortenSR (b :: rest) else a :: b :: rest
  | l => l

/-- `while len(value) > 0 and value[-1] == Net.from_const(0): value.pop()` -/
def shortenUR : List Net → List Net
  | .const false :: rest => shortenUR rest
  | l => l

def shorten (signed : Bool) (v : Val) : Val :=
  if signed then (shortenSR v.reverse).reverse else (shortenUR v.reverse).reverse

/-! ## RTLIL cells -/

def pNat (n : String) (v : Nat) : Param := ⟨.plain, n, .int v⟩
def pFlag (n : String) (b : Bool) : Param := ⟨.plain, n, .int (if b then 1 else 0)⟩

def unaryCell (ty name : String) (sa : Bool) (a : Val) (yw : Nat) (y : String) : Cell :=
  { attrs := [], type := ty, name := name,
    params := [pFlag "\\A_SIGNED" sa, pNat "\\A_WIDTH" a.length, pNat "\\Y_WIDTH" yw],
    conns := [("\\A", emitSpec a), ("\\Y", .one (.wire y))] }

/-- `b` is given as a sigspec and a width: `emit_part` connects a bare wire name -/
def binaryCellS (ty name : String) (sa sb : Bool) (a : Val) (b : SigSpec) (bw : Nat) (yw : Nat) (y : String) : Cell :=
  { attrs := [], type := ty, name := name,
    params := [pFlag "\\A_SIGNED" sa, pFlag "\\B_SIGNED" sb, pNat "\\A_WIDTH" a.length, pNat "\\B_WIDTH" bw,
               pNat "\\Y_WIDTH" yw],
    conns := [("\\A", emitSpec a), ("\\B", b), ("\\Y", .one (.wire y))] }

def binaryCell (ty name : String) (sa sb : Bool) (a b : Val) (yw : Nat) (y : String) : Cell :=
  binaryCellS ty name sa sb a (emitSpec b) b.length yw y

def muxCell (name : String) (s a b : SigSpec) (w : Nat) (y : String) : Cell :=
  { attrs := [], type := "$mux", name := name,
    params := [pNat "\\WIDTH" w],
    conns := [("\\S", s), ("\\A", a), ("\\B", b), ("\\Y", .one (.wire y))] }

/-! ## netlist operators (`_nir.Operator`) and their RTLIL cells (`ModuleEmitter.emit_operator`) -/

/-- unary netlist operators `- ~ b r| r& r^` -/
inductive NOp1 | neg | not | bool | rany | rall | rxor
deriving DecidableEq, Repr, Inhabited

/-- binary netlist operators `+ - * u// s// u% s% << u>> s>> & | ^ == != u< u> u<= u>= s< s> s<= s>=` -/
inductive NOp2
  | add | sub | mul | udiv | sdiv | umod | smod | shl | ushr | sshr | and | or | xor | eq | ne
  | ult | ugt | ule | uge | slt | sgt | sle | sge
deriving DecidableEq, Repr, Inhabited

/-- `UNARY_OPERATORS` -/
def NOp1.cellType : NOp1 → String
  | .neg => "$neg" | .not => "$not" | .bool => "$reduce_bool" | .rany => "$reduce_or"
  | .rall => "$reduce_and" | .rxor => "$reduce_xor"

/-- `BINARY_OPERATORS`: cell type, `A_SIGNED`, `B_SIGNED` -/
def NOp2.row : NOp2 → String × Bool × Bool
  | .add => ("$add", false, false) | .sub => ("$sub", false, false) | .mul => ("$mul", false, false)
  | .udiv => ("$divfloor", false, false) | .sdiv => ("$divfloor", true, true)
  | .umod => ("$modfloor", false, false) | .smod => ("$modfloor", true, true)
  | .shl => ("$shl", false, false) | .ushr => ("$shr", false, false) | .sshr => ("$sshr", true, false)
  | .and => ("$and", false, false) | .or => ("$or", false, false) | .xor => ("$xor", false, false)
  | .eq => ("$eq", false, false) | .ne => ("$ne", false, false)
  | .ult => ("$lt", false, false) | .ugt => ("$gt", false, false) | .ule => ("$le", false, false)
  | .uge => ("$ge", false, false) | .slt => ("$lt", true, true) | .sgt => ("$gt", true, true)
  | .sle => ("$le", true, true) | .sge => ("$ge", true, true)

/-- `cell.operator in ("+", "-", "*", "==", "!=")` -/
def NOp2.anySign : NOp2 → Bool
  | .add | .sub | .mul | .eq | .ne => true
  | _ => false

/-- `cell.operator[0] in "us"` -/
def NOp2.forced : NOp2 → Bool
  | .udiv | .sdiv | .umod | .smod | .ushr | .sshr | .ult | .ugt | .ule | .uge | .slt | .sgt | .sle | .sge => true
  | _ => false

/-- `cell.operator in ("u//", "s//", "u%", "s%")` -/
def NOp2.isDivMod : NOp2 → Bool
  | .udiv | .sdiv | .umod | .smod => true
  | _ => false

/-- `Operator.width` of a binary operator whose first input has `aw` nets -/
def NOp2.width (o : NOp2) (aw : Nat) : Nat :=
  match o with
  | .eq | .ne | .ult | .ugt | .ule | .uge | .slt | .sgt | .sle | .sge => 1
  | _ => aw

/-- `Operator.width` of a unary operator -/
def NOp1.width (o : NOp1) (aw : Nat) : Nat :=
  match o with
  | .neg | .not => aw
  | _ => 1

/-- what has been emitted for one value: its nets, the next free name index, the wires declared and the cells /
processes in emission order -/
structure Emitted where
  val : Val
  next : Nat
  wires : List (String × Nat)
  nodes : List Node
deriving Inhabited

/-- a unary `Operator` cell: output wire `$next`, cell `$next+1` -/
def emitUnary (o : NOp1) (a : Val) (next : Nat) : Emitted :=
  let yw := o.width a.length
  let y := autoName next
  -- only `-` shortens its operand and picks the signedness that shortens more
  let au := shorten false a
  let as := shorten true a
  let sg := o == .neg && decide (as.length < au.length)
  let a' := if o == .neg then (if as.length < au.length then as else au) else a
  { val := wireBits y 0 yw, next := next + 2, wires := [(y, yw)],
    nodes := [.cell (unaryCell o.cellType (autoName (next + 1)) sg a' yw y)] }

/-- the signedness `emit_operator` picks for `+ - * == !=` -/
def pickSign (a b : Val) : Bool :=
  let au := shorten false a
  let bu := shorten false b
  let as := shorten true a
  let bs := shorten true b
  if a.isConst then decide (bs.length < bu.length)
  else if b.isConst then decide (as.length < au.length)
  else if as.length < a.length ∧ au.length = a.length then true
  else if bs.length < b.length ∧ bu.length = b.length then true
  else false

/-- a binary `Operator` cell.  Plain operators: output wire `$next`, cell `$next+1`.  `// %`: output wire `$next`,
quotient wire `$next+1`, `$divfloor`/`$modfloor` cell `$next+2`, wire `$next+3` and `$reduce_bool` cell `$next+4`
for "divisor is not zero", `$mux` cell `$next+5`. -/
def emitBinary (o : NOp2) (a b : Val) (next : Nat) : Emitted :=
  let yw := o.width a.length
  let y := autoName next
  let row := o.row
  let ty := row.1
  -- operand shortening and the final flags
  let sg := pickSign a b
  let as := shorten true a
  let au := shorten false a
  let shlSigned := decide (as.length < au.length)
  let sa : Bool := if o.anySign then sg else if o = .shl then shlSigned else row.2.1
  let sb : Bool := if o.anySign then sg else row.2.2
  let a' : Val := if o.anySign then shorten sg a else if o.forced then shorten row.2.1 a
                  else if o = .shl then (if as.length < au.length then as else au) else a
  let b' : Val := if o.anySign then shorten sg b else if o.forced then shorten row.2.2 b
                  else if o = .shl then shorten row.2.2 b else b
  if o.isDivMod then
    let q := autoName (next + 1)
    let nz := autoName (next + 3)
    { val := wireBits y 0 yw, next := next + 6, wires := [(y, yw), (q, yw), (nz, 1)],
      nodes := [.cell (binaryCell ty (autoName (next + 2)) sa sb a' b' yw q),
                .cell (unaryCell "$reduce_bool" (autoName (next + 4)) false b' 1 nz),
                .cell (muxCell (autoName (next + 5)) (.one (.wire nz)) (emitSpec (constBits 0 yw)) (.one (.wire q)) yw y)] }
  else
    { val := wireBits y 0 yw, next := next + 2, wires := [(y, yw)],
      nodes := [.cell (binaryCell ty (autoName (next + 1)) sa sb a' b' yw y)] }

/-- the `m` operator (`arg0 ? arg1 : arg2`): `$mux` with `S = arg0`, `A = arg2`, `B = arg1` -/
def emitMux (c t f : Val) (next : Nat) : Emitted :=
  let yw := t.length
  let y := autoName next
  { val := wireBits y 0 yw, next := next + 2, wires := [(y, yw)],
    nodes := [.cell (muxCell (autoName (next + 1)) (emitSpec c) (emitSpec f) (emitSpec t) yw y)] }

/-! ## `Part` (`ModuleEmitter.emit_part`) -/

/-- `$shift` with `A_SIGNED = value_signed`; for a stride other than 1 the offset is first multiplied by the
constant `Const(stride)` (an unsigned literal of `bits_for(stride)` bits) in a `$mul` of the summed width.
Names: output wire `$next`; stride 1: `$shift` cell `$next+1`; otherwise product wire `$next+1`, `$mul` cell
`$next+2`, `$shift` cell `$next+3`. -/
def emitPart (value : Val) (valueSigned : Bool) (offset : Val) (width stride : Nat) (next : Nat) : Emitted :=
  let y := autoName next
  if stride = 1 then
    { val := wireBits y 0 width, next := next + 2, wires := [(y, width)],
      nodes := [.cell (binaryCell "$shift" (autoName (next + 1)) valueSigned false value offset width y)] }
  else
    let sc := constBits stride (bitsFor stride false)
    let ow := offset.length + sc.length
    let p := autoName (next + 1)
    { val := wireBits y 0 width, next := next + 4, wires := [(y, width), (p, ow)],
      nodes := [.cell (binaryCell "$mul" (autoName (next + 2)) false false offset sc ow p),
                .cell (binaryCellS "$shift" (autoName (next + 3)) valueSigned false value (.one (.wire p)) ow width y)] }

/-! ## `Match` + `AssignmentList` (`emit_assignment_list`) -/

def patBit : PatBit → Bit
  | .zero => .b0 | .one => .b1 | .any => .dc

/-- the `case`s of the `switch` rebuilt from the `Match` cell: a pattern list that is the single all-don't-care
pattern becomes the default case, a case with an empty pattern list is left out (`Switch.case`), every case holds the
one assignment conditioned on its `Match` output bit -/
def mkCases (lhs : SigSpec) (tw : Nat) : List (List Pat × Val) → Cases
  | [] => .nil
  | (pats, v) :: rest =>
    if pats = [Pat.dontCare tw] then .case [] (.assign lhs (emitSpec v) .done) (mkCases lhs tw rest)
    else if pats.isEmpty then mkCases lhs tw rest
    else .case (pats.map (·.map patBit)) (.assign lhs (emitSpec v) .done) (mkCases lhs tw rest)

/-- process: `assign lhs default`, then (if there is any assignment) the `switch` on the `Match` cell's value.
Names: the `Match` cell has no RTLIL counterpart; output wire `$next`, process `$next+1`. -/
def emitAssignList (test : Val) (cases : List (List Pat × Val)) (width : Nat) (next : Nat) : Emitted :=
  let y := autoName next
  let lhs := emitSpec (wireBits y 0 width)
  let sw : Body := if cases.isEmpty then .done else .switch (emitSpec test) (mkCases lhs test.length cases) .done
  { val := wireBits y 0 width, next := next + 2, wires := [(y, width)],
    nodes := [.proc (.assign lhs (emitSpec (constBits 0 width)) sw)] }

/-! ## `emit_rhs` -/

/-- result of `emit_rhs`: `(value, is_signed)` and what was emitted on the way -/
structure Res where
  val : Val
  signed : Bool
  next : Nat
  wires : List (String × Nat)
  nodes : List Node
deriving Inhabited

/-- `unify_shapes_bitwise`: both operands extended to the unified shape; returns that shape too -/
def unifyVals (a : Val) (sa : Bool) (b : Val) (sb : Bool) : Val × Val × Shape :=
  let sh := Shape.unify ⟨a.length, sa⟩ ⟨b.length, sb⟩
  (extendV a sa sh.width, extendV b sb sh.width, sh)

/-- append a cell emission after already emitted operands -/
def Res.after (wires : List (String × Nat)) (nodes : List Node) (e : Emitted) (signed : Bool) : Res :=
  ⟨e.val, signed, e.next, wires ++ e.wires, nodes ++ e.nodes⟩

def emitOp1 (o : Op1) (ra : Res) : Res :=
  match o with
  | .s => { ra with signed := true }
  | .u => { ra with signed := false }
  | .neg => Res.after ra.wires ra.nodes (emitUnary .neg (extendV ra.val ra.signed (ra.val.length + 1)) ra.next) true
  | .inv => Res.after ra.wires ra.nodes (emitUnary .not ra.val ra.next) ra.signed
  | .bool => Res.after ra.wires ra.nodes (emitUnary .bool ra.val ra.next) false
  | .rany => Res.after ra.wires ra.nodes (emitUnary .rany ra.val ra.next) false
  | .rall => Res.after ra.wires ra.nodes (emitUnary .rall ra.val ra.next) false
  | .rxor => Res.after ra.wires ra.nodes (emitUnary .rxor ra.val ra.next) false

/-- `rb` was emitted after `ra` (its counter starts at `ra.next`) -/
def emitOp2 (o : Op2) (ra rb : Res) : Res :=
  let ws := ra.wires ++ rb.wires
  let ns := ra.nodes ++ rb.nodes
  let u := unifyVals ra.val ra.signed rb.val rb.signed
  let ua := u.1
  let ub := u.2.1
  let us := u.2.2.signed
  match o with
  | .and => Res.after ws ns (emitBinary .and ua ub rb.next) us
  | .or => Res.after ws ns (emitBinary .or ua ub rb.next) us
  | .xor => Res.after ws ns (emitBinary .xor ua ub rb.next) us
  | .add =>
    Res.after ws ns (emitBinary .add (extendV ua us (ua.length + 1)) (extendV ub us (ua.length + 1)) rb.next) us
  | .sub =>
    Res.after ws ns (emitBinary .sub (extendV ua us (ua.length + 1)) (extendV ub us (ua.length + 1)) rb.next) true
  | .mul =>
    let w := ra.val.length + rb.val.length
    Res.after ws ns (emitBinary .mul (extendV ra.val ra.signed w) (extendV rb.val rb.signed w) rb.next)
      (ra.signed || rb.signed)
  | .fdiv =>
    let w := ra.val.length + (if rb.signed then 1 else 0)
    let xa := if ua.length < w then extendV ua us w else ua
    let xb := if ua.length < w then extendV ub us w else ub
    let e := emitBinary (if us then .sdiv else .udiv) xa xb rb.next
    Res.after ws ns { e with val := e.val.take w } us
  | .mod =>
    let w := rb.val.length
    let e := emitBinary (if us then .smod else .umod) ua ub rb.next
    Res.after ws ns { e with val := e.val.take w } rb.signed
  | .shl =>
    Res.after ws ns
      (emitBinary .shl (extendV ra.val ra.signed (ra.val.length + 2 ^ rb.val.length - 1)) rb.val rb.next) ra.signed
  | .shr => Res.after ws ns (emitBinary (if ra.signed then .sshr else .ushr) ra.val rb.val rb.next) ra.signed
  | .eq => Res.after ws ns (emitBinary .eq ua ub rb.next) false
  | .ne => Res.after ws ns (emitBinary .ne ua ub rb.next) false
  | .lt => Res.after ws ns (emitBinary (if us then .slt else .ult) ua ub rb.next) false
  | .le => Res.after ws ns (emitBinary (if us then .sle else .ule) ua ub rb.next) false
  | .gt => Res.after ws ns (emitBinary (if us then .sgt else .ugt) ua ub rb.next) false
  | .ge => Res.after ws ns (emitBinary (if us then .sge else .uge) ua ub rb.next) false

/-- the values of the cases of a choice, emitted one after the other -/
structure CasesRes where
  cases : List (List Pat × Val × Bool)
  next : Nat
  wires : List (String × Nat)
  nodes : List Node

def runCases : List (List Pat × (Nat → Res)) → Nat → CasesRes
  | [], n => ⟨[], n, [], []⟩
  | (pats, f) :: rest, n =>
    let r := f n
    let rs := runCases rest r.next
    ⟨(pats, r.val, r.signed) :: rs.cases, rs.next, r.wires ++ rs.wires, r.nodes ++ rs.nodes⟩

def Pat.zeros (w : Nat) : Pat := List.replicate w .zero

/-- the general form of a `SwitchValue`: a `Match` cell over all pattern lists and an `AssignmentList` with default 0
and one assignment per case of the value extended to the unified shape -/
def emitSwitchGeneral (rt : Res) (cases : List (List Pat × (Nat → Res))) : Res :=
  let rc := runCases cases rt.next
  -- `Shape._unify` of all `(len(value), signed)`: the n-ary join, written with the binary one as `SwitchValue.shape` is
  let sh := rc.cases.foldr (fun c (acc : Shape) => Shape.unify ⟨c.2.1.length, c.2.2⟩ acc) (Shape.u 0)
  let elems := rc.cases.map (fun c => (c.1, extendV c.2.1 c.2.2 sh.width))
  Res.after (rt.wires ++ rc.wires) (rt.nodes ++ rc.nodes) (emitAssignList rt.val elems sh.width rc.next) sh.signed

/-- the `Mux` form: an `m` operator (`test ? cases[1] : cases[0]`, with `test` reduced by a `b` operator unless it is
one bit wide); the default's value (`f1`) is emitted first -/
def emitSwitchMux (rt : Res) (f0 f1 : Nat → Res) : Res :=
  let ra := f1 rt.next         -- operand_a: the default's value (chosen when the test is non-zero)
  let rb := f0 ra.next         -- operand_b
  let ws := rt.wires ++ ra.wires ++ rb.wires
  let ns := rt.nodes ++ ra.nodes ++ rb.nodes
  let u := unifyVals ra.val ra.signed rb.val rb.signed
  if rt.val.length = 1 then
    Res.after ws ns (emitMux rt.val u.1 u.2.1 rb.next) u.2.2.signed
  else
    let tb := emitUnary .bool rt.val rb.next
    Res.after (ws ++ tb.wires) (ns ++ tb.nodes) (emitMux tb.val u.1 u.2.1 tb.next) u.2.2.signed

/-- `SwitchValue`: `rt` emits the test, `cases` the values (as functions of the name counter, so that they can be
run in the order the code uses).

* exactly two cases, the first under the single pattern `0…0`, the second a default: an `m` operator
  (`test ? cases[1] : cases[0]`, with `test` reduced by a `b` operator unless it is one bit wide) — the default's
  value is emitted first;
* otherwise a `Match` cell over all pattern lists and an `AssignmentList` with default 0 and one assignment per case
  of the value extended to the unified shape.

(`Expr` writes a default case as the single all-don't-care pattern, so a *written* all-don't-care second case is read
as a default here; the code tells the two apart.) -/
def emitSwitch (rt : Res) (cases : List (List Pat × (Nat → Res))) : Res :=
  match cases with
  | [(p0, f0), (p1, f1)] =>
    if p0 = [Pat.zeros rt.val.length] ∧ p1 = [Pat.dontCare rt.val.length] then emitSwitchMux rt f0 f1
    else emitSwitchGeneral rt cases
  | _ => emitSwitchGeneral rt cases

/-- `(emitX ctx e).1 n`: `emit_rhs` of `e` with the name counter at `n`; `(emitX ctx e).2`: when `e` is (the rest
of) a chain of cases, the cases' pattern lists and value emitters -/
def emitX (ctx : Amaranth.Ctx) : Expr → (Nat → Res) × List (List Pat × (Nat → Res))
  | .const v s => (fun n => ⟨constBits v s.width, s.signed, n, [], []⟩, [])
  | .sig i => (fun n => ⟨wireBits (sigName i) 0 (ctx.shape i).width, (ctx.shape i).signed, n, [], []⟩, [])
  | .op1 o a => (fun n => emitOp1 o ((emitX ctx a).1 n), [])
  | .op2 o a b =>
    (fun n =>
      let ra := (emitX ctx a).1 n
      let rb := (emitX ctx b).1 ra.next
      emitOp2 o ra rb, [])
  | .slice a start stop =>
    (fun n =>
      let ra := (emitX ctx a).1 n
      { ra with val := (ra.val.drop start).take (stop - start), signed := false }, [])
  | .part a off width stride =>
    (fun n =>
      let ra := (emitX ctx a).1 n
      let ro := (emitX ctx off).1 ra.next
      Res.after (ra.wires ++ ro.wires) (ra.nodes ++ ro.nodes) (emitPart ra.val ra.signed ro.val width stride ro.next)
        false, [])
  | .cat lo hi =>
    (fun n =>
      let rl := (emitX ctx lo).1 n
      let rh := (emitX ctx hi).1 rl.next
      ⟨rl.val ++ rh.val, false, rh.next, rl.wires ++ rh.wires, rl.nodes ++ rh.nodes⟩, [])
  | .ite test pats thn els =>
    let chain := (pats, (emitX ctx thn).1) :: (emitX ctx els).2
    (fun n => emitSwitch ((emitX ctx test).1 n) chain, chain)

def emitE (ctx : Amaranth.Ctx) (e : Expr) (n : Nat) : Res := (emitX ctx e).1 n

/-! ## side conditions of the correctness theorem (`Properties/C04.lean`, `emit_expr_correct_partial`) -/

deriving instance DecidableEq for Expr

/-- the cases of a choice, as `Expr` chains them -/
def chainOf : Expr → List (List Pat × Expr)
  | .ite _ pats thn els => (pats, thn) :: chainOf els
  | _ => []

/-- `e` continues a chain of cases over `test` -/
def _root_.Amaranth.Expr.sameTest : Expr → Expr → Bool
  | .ite t _ _ els, test => decide (t = test) && els.sameTest test
  | _, _ => true

/-- every chain of cases repeats one test expression (what a `SwitchValue` is; `Driver/ExprIO.parseExpr` only builds
such chains) -/
def _root_.Amaranth.Expr.chainsOk : Expr → Bool
  | .const .. | .sig _ => true
  | .op1 _ a => a.chainsOk
  | .op2 _ a b => a.chainsOk && b.chainsOk
  | .slice a _ _ => a.chainsOk
  | .part a off _ _ => a.chainsOk && off.chainsOk
  | .cat lo hi => lo.chainsOk && hi.chainsOk
  | .ite t _ thn els => t.chainsOk && thn.chainsOk && els.chainsOk && els.sameTest t

/-- every part-select of a *signed* value reads inside the extended operand, whatever the offset: the largest offset
times the stride plus the width is at most `max(len(value), width)`.  Beyond that the emitted `$shift` shifts zeros in
where the simulator reads the sign (finding F27). -/
def _root_.Amaranth.Expr.partsInside (ctx : Amaranth.Ctx) : Expr → Bool
  | .const .. | .sig _ => true
  | .op1 _ a => a.partsInside ctx
  | .op2 _ a b => a.partsInside ctx && b.partsInside ctx
  | .slice a _ _ => a.partsInside ctx
  | .part a off width stride => a.partsInside ctx && off.partsInside ctx &&
      (!(shapeOf ctx a).signed || decide ((2 ^ widthOf ctx off - 1) * stride + width ≤ max (widthOf ctx a) width))
  | .cat lo hi => lo.partsInside ctx && hi.partsInside ctx
  | .ite t _ a b => t.partsInside ctx && a.partsInside ctx && b.partsInside ctx

/-! ## the interface -/

structure EmitState where
  /-- `Module._auto_index` -/
  next : Nat
  /-- wires declared so far (name, width), in order -/
  wires : List (String × Nat)
  /-- cells and processes emitted so far, in order -/
  nodes : List Node
deriving Inhabited

/-- the top module before anything is emitted: the input signals' wires (the first generated name is `$1`) -/
def EmitState.init (ctx : Amaranth.Ctx) : EmitState :=
  ⟨1, (List.range ctx.length).map (fun i => (sigName i, (ctx.shape i).width)), []⟩

/-- the sigspec of the value of `e` (what `out.eq(e)` connects to `out`) and the state after emitting its cells -/
def emitExpr (ctx : Amaranth.Ctx) (e : Expr) (st : EmitState) : SigSpec × EmitState :=
  let r := emitE ctx e st.next
  (emitSpec r.val, ⟨r.next, st.wires ++ r.wires, st.nodes ++ r.nodes⟩)

end Amaranth.Rtlil
