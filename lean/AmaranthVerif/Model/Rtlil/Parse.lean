import AmaranthVerif.Model.Rtlil.Syntax

/-!
# A total reader of RTLIL text (line oriented, as `amaranth.back.rtlil.Emitter` prints it)

`parse : String → Except (line × message) Doc`.

* lexing: a line is split at blanks into *words* and double-quoted *strings* (escapes `\n \t \r`,
  any other escaped character stands for itself);
* the line grammar is the RTLIL one restricted to the statements the emitter prints
  (`attribute module wire memory cell parameter connect process assign switch case end`);
  anything else (`sync`, `upto`, `offset`, nested concatenations, `autoidx`, comments …) is
  rejected with the number of the offending line;
* recursion is structural on the token list / on a fuel equal to the number of lines; no `partial`.
-/

namespace Amaranth.Rtlil

inductive Tok
  | word (s : String)
  | str (s : String)
deriving DecidableEq, Repr, Inhabited

/-! ## Lexer -/

def isBlank (c : Char) : Bool := c == ' ' || c == '\t' || c == '\r'

def unescape (c : Char) : Char :=
  if c == 'n' then '\n' else if c == 't' then '\t' else if c == 'r' then '\r' else c

inductive LexSt
  | gap
  | word (acc : List Char)     -- reversed
  | str (acc : List Char)      -- reversed
  | esc (acc : List Char)

/-- tokens are accumulated in reverse -/
def lexGo : LexSt → List Char → List Tok → Option (List Tok)
  | .gap, [], out => some out.reverse
  | .word acc, [], out => some ((Tok.word (String.ofList acc.reverse)) :: out).reverse
  | .str _, [], _ => none
  | .esc _, [], _ => none
  | .gap, c :: cs, out =>
    if isBlank c then lexGo .gap cs out
    else if c == '"' then lexGo (.str []) cs out
    else lexGo (.word [c]) cs out
  | .word acc, c :: cs, out =>
    if isBlank c then lexGo .gap cs (Tok.word (String.ofList acc.reverse) :: out)
    else lexGo (.word (c :: acc)) cs out
  | .str acc, c :: cs, out =>
    if c == '"' then lexGo .gap cs (Tok.str (String.ofList acc.reverse) :: out)
    else if c == '\\' then lexGo (.esc acc) cs out
    else lexGo (.str (c :: acc)) cs out
  | .esc acc, c :: cs, out => lexGo (.str (unescape c :: acc)) cs out

def lexLine (cs : List Char) : Option (List Tok) := lexGo .gap cs []

/-- split at `\n` -/
def splitLines : List Char → List Char → List (List Char)
  | [], cur => [cur.reverse]
  | c :: cs, cur => if c == '\n' then cur.reverse :: splitLines cs [] else splitLines cs (c :: cur)

/-! ## Numbers, constants, selectors -/

def digit? (c : Char) : Option Nat :=
  if '0' ≤ c ∧ c ≤ '9' then some (c.toNat - '0'.toNat) else none

def natGo : List Char → Nat → Option Nat
  | [], acc => some acc
  | c :: cs, acc => match digit? c with
    | some d => natGo cs (10 * acc + d)
    | none => none

def parseNat (cs : List Char) : Option Nat :=
  match cs with
  | [] => none
  | _ => natGo cs 0

def parseInt (cs : List Char) : Option Int :=
  match cs with
  | c :: rest => if c == '-' then (parseNat rest).map (fun n => -(n : Int)) else (parseNat cs).map (fun n => (n : Int))
  | [] => none

def bit? (c : Char) : Option Bit :=
  if c == '0' then some .b0 else if c == '1' then some .b1
  else if c == 'x' then some .x else if c == '-' then some .dc else none

/-- `W'bits` with exactly `W` bit characters.  One exception: `0'0`, which is how the emitter prints
a zero-width constant (`"{:0{}b}".format(0, 0)` is `"0"`); Yosys reads it as zero-width by truncating
to the declared width. -/
def parseBits (cs : List Char) : Option (List Bit) :=
  let w := cs.takeWhile (· != '\'')
  match cs.dropWhile (· != '\'') with
  | _ :: bs =>
    match parseNat w, bs.mapM bit? with
    | some n, some bits =>
      if bits.length = n then some bits
      else if n = 0 ∧ bits = [.b0] then some []
      else none
    | _, _ => none
  | [] => none

/-- a constant word: `W'bits` or a decimal integer -/
def parseConstWord (s : String) : Option Const :=
  let cs := s.toList
  if cs.contains '\'' then (parseBits cs).map .bits else (parseInt cs).map .int

def parseConst : Tok → Option Const
  | .word s => parseConstWord s
  | .str s => some (.str s)

def isId (s : String) : Bool :=
  match s.toList with
  | c :: _ :: _ => c == '\\' || c == '$'
  | _ => false

inductive Sel | bit (i : Nat) | range (hi lo : Nat)

/-- the text between the brackets of a selector: `i` or `hi:lo` -/
def parseSelInner (inner : List Char) : Option Sel :=
  if inner.contains ':' then
    match parseNat (inner.takeWhile (· != ':')), parseNat ((inner.dropWhile (· != ':')).drop 1) with
    | some hi, some lo => some (.range hi lo)
    | _, _ => none
  else (parseNat inner).map .bit

/-- `[i]` or `[hi:lo]` -/
def parseSel (s : String) : Option Sel :=
  match s.toList with
  | c :: rest =>
    if c == '[' then
      match rest.reverse with
      | e :: innerRev => if e == ']' then parseSelInner innerRev.reverse else none
      | [] => none
    else none
  | [] => none

def isSelWord (s : String) : Bool :=
  match s.toList with
  | c :: _ => c == '['
  | [] => false

/-! ## Sigspecs -/

inductive CTok
  | lbrace | rbrace
  | chunk (c : Chunk)
deriving Repr

def mkSel (w s : String) : Option Chunk :=
  match parseSel s with
  | some (.bit i) => some (.bit w i)
  | some (.range hi lo) => some (.slice w hi lo)
  | none => none

/-- a constant chunk: `W'bits`, or a decimal integer read as 32 bits (never printed by the emitter) -/
def constChunk (w : String) : Option Chunk :=
  match parseConstWord w with
  | some (.bits bs) => some (.const bs)
  | _ => none

/-- `pend` is an identifier seen but not yet emitted (a selector may follow it) -/
def chunkGo : Option String → List Tok → Option (List CTok)
  | none, [] => some []
  | some w, [] => some [.chunk (.wire w)]
  | _, .str _ :: _ => none
  | pend, .word s :: rest =>
    if isSelWord s then
      match pend with
      | some w =>
        match mkSel w s with
        | some c => (chunkGo none rest).map (.chunk c :: ·)
        | none => none
      | none => none
    else
      let pre : List CTok := match pend with
        | some w => [.chunk (.wire w)]
        | none => []
      if s == "{" then (chunkGo none rest).map (fun r => pre ++ .lbrace :: r)
      else if s == "}" then (chunkGo none rest).map (fun r => pre ++ .rbrace :: r)
      else if s == "{}" then (chunkGo none rest).map (fun r => pre ++ .lbrace :: .rbrace :: r)
      else if isId s then (chunkGo (some s) rest).map (fun r => pre ++ r)
      else
        match constChunk s with
        | some c => (chunkGo none rest).map (fun r => pre ++ .chunk c :: r)
        | none => none

def chunkify (ts : List Tok) : Option (List CTok) := chunkGo none ts

/-- all sigspecs of a token list; `cur` is the open concatenation, if any -/
def specsGo : Option (List Chunk) → List CTok → Option (List SigSpec)
  | none, [] => some []
  | some _, [] => none
  | none, .chunk c :: rest => (specsGo none rest).map (.one c :: ·)
  | none, .lbrace :: rest => specsGo (some []) rest
  | none, .rbrace :: _ => none
  | some acc, .chunk c :: rest => specsGo (some (acc ++ [c])) rest
  | some acc, .rbrace :: rest => (specsGo none rest).map (.cat acc :: ·)
  | some _, .lbrace :: _ => none

def parseSpecs (ts : List Tok) : Option (List SigSpec) :=
  match chunkify ts with
  | some cts => specsGo none cts
  | none => none

def parseSpec1 (ts : List Tok) : Option SigSpec :=
  match parseSpecs ts with
  | some [s] => some s
  | _ => none

def parseSpec2 (ts : List Tok) : Option (SigSpec × SigSpec) :=
  match parseSpecs ts with
  | some [a, b] => some (a, b)
  | _ => none

/-! ## Lines -/

structure Line where
  no : Nat
  toks : List Tok
deriving Repr, Inhabited

abbrev P := Except (Nat × String)

def failAt {α} (l : Line) (msg : String) : P α := .error (l.no, msg)

def parseAttr (l : Line) : Option Attr :=
  match l.toks with
  | [.word "attribute", .word n, v] => if isId n then (parseConst v).map (⟨n, ·⟩) else none
  | _ => none

/-- options of a `wire` line, ending in the name -/
def parseWireOpts : List Tok → Wire → Option Wire
  | [.word n], w => if isId n then some { w with name := n } else none
  | .word "signed" :: rest, w => parseWireOpts rest { w with signed := true }
  | .word k :: .word v :: rest, w =>
    match parseNat v.toList with
    | none => none
    | some n =>
      if k == "width" then parseWireOpts rest { w with width := n }
      else if k == "input" then parseWireOpts rest { w with port := some (.input, n) }
      else if k == "output" then parseWireOpts rest { w with port := some (.output, n) }
      else if k == "inout" then parseWireOpts rest { w with port := some (.inout, n) }
      else none
  | _, _ => none

def parseMemory (attrs : List Attr) : List Tok → Option Memory
  | [.word "width", .word w, .word "size", .word s, .word n] => do
    let w ← parseNat w.toList
    let s ← parseNat s.toList
    if isId n then some ⟨attrs, n, w, s⟩ else none
  | _ => none

/-- the lines of a cell up to and including its `end` -/
def parseCellBody : List Line → List Param → List (String × SigSpec) →
    P (List Param × List (String × SigSpec) × List Line)
  | [], _, _ => .error (0, "unterminated cell")
  | l :: rest, ps, cs =>
    match l.toks with
    | [.word "end"] => .ok (ps, cs, rest)
    | [.word "parameter", .word "signed", .word n, v] =>
      match parseConst v with
      | some c => if isId n then parseCellBody rest (ps ++ [⟨.signed, n, c⟩]) cs else failAt l "bad parameter name"
      | none => failAt l "bad parameter value"
    | [.word "parameter", .word "real", .word n, v] =>
      match parseConst v with
      | some c => if isId n then parseCellBody rest (ps ++ [⟨.real, n, c⟩]) cs else failAt l "bad parameter name"
      | none => failAt l "bad parameter value"
    | [.word "parameter", .word n, v] =>
      match parseConst v with
      | some c => if isId n then parseCellBody rest (ps ++ [⟨.plain, n, c⟩]) cs else failAt l "bad parameter name"
      | none => failAt l "bad parameter value"
    | .word "connect" :: .word port :: spec =>
      match parseSpec1 spec with
      | some s => if isId port then parseCellBody rest ps (cs ++ [(port, s)]) else failAt l "bad port name"
      | none => failAt l "bad sigspec in cell connection"
    | _ => failAt l "expected parameter, connect or end in cell"

def stripComma (s : String) : List Char :=
  match s.toList.reverse with
  | ',' :: r => r.reverse
  | _ => s.toList

def parsePats : List Tok → Option Pats
  | [] => some []
  | .word w :: rest =>
    match parseBits (stripComma w), parsePats rest with
    | some bs, some ps => some (bs :: ps)
    | _, _ => none
  | .str _ :: _ => none

mutual
/-- statements up to (not including) the next `case`/`end` line -/
def parseBody : Nat → List Line → P (Body × List Line)
  | 0, _ => .error (0, "out of fuel")
  | _ + 1, [] => .error (0, "unterminated process")
  | fuel + 1, l :: rest =>
    match l.toks with
    | .word "assign" :: spec =>
      match parseSpec2 spec with
      | some (lhs, rhs) =>
        match parseBody fuel rest with
        | .ok (b, r) => .ok (.assign lhs rhs b, r)
        | .error e => .error e
      | none => failAt l "bad sigspecs in assign"
    | .word "switch" :: spec =>
      match parseSpec1 spec with
      | some sel =>
        match parseCases fuel rest with
        | .ok (cs, r) =>
          match parseBody fuel r with
          | .ok (b, r') => .ok (.switch sel cs b, r')
          | .error e => .error e
        | .error e => .error e
      | none => failAt l "bad sigspec in switch"
    | _ => .ok (.done, l :: rest)
/-- cases up to and including the `end` of the switch -/
def parseCases : Nat → List Line → P (Cases × List Line)
  | 0, _ => .error (0, "out of fuel")
  | _ + 1, [] => .error (0, "unterminated switch")
  | fuel + 1, l :: rest =>
    match l.toks with
    | [.word "end"] => .ok (.nil, rest)
    | .word "case" :: pats =>
      match parsePats pats with
      | some ps =>
        match parseBody fuel rest with
        | .ok (b, r) =>
          match parseCases fuel r with
          | .ok (cs, r') => .ok (.case ps b cs, r')
          | .error e => .error e
        | .error e => .error e
      | none => failAt l "bad case patterns"
    | _ => failAt l "expected case or end in switch"
end

def emptyWire (attrs : List Attr) : Wire := ⟨attrs, "", 1, none, false⟩

/-- the items of a module up to and including its `end`; `attrs` are the pending attribute lines -/
def parseItems : Nat → List Line → List Attr → Module → P (Module × List Line)
  | 0, _, _, _ => .error (0, "out of fuel")
  | _ + 1, [], _, _ => .error (0, "unterminated module")
  | fuel + 1, l :: rest, attrs, m =>
    match l.toks with
    | [.word "end"] =>
      if attrs.isEmpty then .ok (m, rest) else failAt l "dangling attribute"
    | .word "attribute" :: _ =>
      match parseAttr l with
      | some a => parseItems fuel rest (attrs ++ [a]) m
      | none => failAt l "bad attribute"
    | .word "wire" :: opts =>
      match parseWireOpts opts (emptyWire attrs) with
      | some w => parseItems fuel rest [] { m with wires := m.wires ++ [w] }
      | none => failAt l "bad wire declaration"
    | .word "memory" :: opts =>
      match parseMemory attrs opts with
      | some x => parseItems fuel rest [] { m with memories := m.memories ++ [x] }
      | none => failAt l "bad memory declaration"
    | [.word "cell", .word ty, .word nm] =>
      if isId ty && isId nm then
        match parseCellBody rest [] [] with
        | .ok (ps, cs, rest') => parseItems fuel rest' [] { m with cells := m.cells ++ [⟨attrs, ty, nm, ps, cs⟩] }
        | .error e => .error e
      else failAt l "bad cell type or name"
    | [.word "process", .word nm] =>
      if isId nm then
        match parseBody fuel rest with
        | .ok (b, l' :: rest') =>
          match l'.toks with
          | [.word "end"] => parseItems fuel rest' [] { m with procs := m.procs ++ [⟨attrs, nm, b⟩] }
          | _ => failAt l' "expected assign, switch or end in process"
        | .ok (_, []) => failAt l "unterminated process"
        | .error e => .error e
      else failAt l "bad process name"
    | .word "connect" :: spec =>
      if attrs.isEmpty then
        match parseSpec2 spec with
        | some lr => parseItems fuel rest [] { m with connects := m.connects ++ [lr] }
        | none => failAt l "bad sigspecs in connect"
      else failAt l "dangling attribute"
    | _ => failAt l "unknown statement in module"

def parseDoc : Nat → List Line → List Attr → Doc → P Doc
  | 0, _, _, _ => .error (0, "out of fuel")
  | _ + 1, [], attrs, acc => if attrs.isEmpty then .ok acc else .error (0, "dangling attribute at end of text")
  | fuel + 1, l :: rest, attrs, acc =>
    match l.toks with
    | .word "attribute" :: _ =>
      match parseAttr l with
      | some a => parseDoc fuel rest (attrs ++ [a]) acc
      | none => failAt l "bad attribute"
    | [.word "module", .word nm] =>
      if isId nm then
        match parseItems fuel rest [] ⟨attrs, nm, [], [], [], [], []⟩ with
        | .ok (m, rest') => parseDoc fuel rest' [] (acc ++ [m])
        | .error e => .error e
      else failAt l "bad module name"
    | _ => failAt l "expected attribute or module"

/-- number the lines from 1, lex them, drop the blank ones -/
def lexLines : List (List Char) → Nat → P (List Line)
  | [], _ => .ok []
  | cs :: rest, n =>
    match lexLine cs with
    | none => .error (n, "unterminated string")
    | some [] => lexLines rest (n + 1)
    | some toks =>
      match lexLines rest (n + 1) with
      | .ok ls => .ok (⟨n, toks⟩ :: ls)
      | .error e => .error e

def parseLines (ls : List Line) : P Doc := parseDoc (ls.length + 1) ls [] []

def parse (text : String) : P Doc :=
  match lexLines (splitLines text.toList []) 1 with
  | .ok ls => parseLines ls
  | .error e => .error e

end Amaranth.Rtlil
