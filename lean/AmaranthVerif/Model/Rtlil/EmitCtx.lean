import AmaranthVerif.Model.Rtlil.EmitExpr

/-!
# Running the emitted module body: the evaluator's context and the signals' environment

`emitCtx` is the context `Eval.mkSim` builds for a flattened module (the declared width of every wire, by successive
`insert`s); `sigEnv` puts every input signal's value, as the bit pattern of its shape, on its wire.
-/

namespace Amaranth.Rtlil
open Amaranth

/-- the evaluator's context for a module with the given wires; `$shift` read as the cell library defines it -/
def emitCtx (wires : List (String × Nat)) (xres : Bool) : Ctx :=
  ⟨wires.foldl (fun (m : Std.HashMap String Nat) w => m.insert w.1 w.2) {}, xres, false⟩

/-- every signal's wire holds the signal's value modulo `2^width` -/
def sigEnv (ctx : Amaranth.Ctx) (env : Amaranth.Env) : Env :=
  ((List.range ctx.length).map (fun i => (sigName i, (mask (ctx.shape i).width (env.val i)).toNat))).foldl
    (fun (m : Std.HashMap String Nat) w => m.insert w.1 w.2) {}

end Amaranth.Rtlil
