/-!
# Bit-vector semantics of the internal RTLIL cells the emitter produces

Transcribed from the Yosys manual, chapter "Internal cell library" (and `techlibs/common/simlib.v`,
`kernel/calc.cc`, which the manual documents).  There is no Yosys in this sandbox: this
transcription is **part of the trusted base**.

Conventions: a bit vector of width `w` is a natural number `< 2^w`.  An input with `*_SIGNED = 1`
is sign-extended "when needed", otherwise zero-extended:

* `$not $neg $and $or $xor $add $sub $mul`: operands are extended to `Y_WIDTH` (if `Y_WIDTH` is
  smaller the result is truncated, which for these operators is the same as truncating the
  operands), the operation is performed modulo `2^Y_WIDTH`;
* `$reduce_and $reduce_or $reduce_xor $reduce_bool`: over the `A_WIDTH` bits of `A`, one result bit,
  zero-extended to `Y_WIDTH`;
* `$eq $ne $lt $le $gt $ge`: operands extended to `max A_WIDTH B_WIDTH`, compared as signed numbers
  when both are signed and as unsigned numbers otherwise, one result bit;
* `$shl`: `A` extended to `max A_WIDTH Y_WIDTH`, shifted left by the unsigned `B`, truncated;
* `$shr`: `A` extended (per `A_SIGNED`) to `max A_WIDTH Y_WIDTH`, **logical** shift right, truncated;
* `$sshr`: arithmetic shift right when `A_SIGNED` (sign bits come in), else as `$shr`;
* `$shift`: `A` extended (per `A_SIGNED`) to `max A_WIDTH Y_WIDTH`, **logical** shift right by `B`
  (left by `-B` when `B_SIGNED` and `B < 0`), truncated — zeros come in above the extended width;
* `$divfloor`, `$modfloor`: division rounding towards −∞ and the matching remainder (sign of the
  divisor), on the numbers the operands denote; the result for a zero divisor is undefined (`x`);
* `$mux`: `Y = S ? B : A`.

For arithmetic and comparison cells the emitter always sets `A_SIGNED = B_SIGNED`; the evaluator
(`Eval.lean`) refuses mixed flags on those cells instead of picking one of the two readings that
exist for them (Verilog: signed only if both are; `calc.cc`: each operand by its own flag).
-/

namespace Amaranth.Rtlil

/-- the number a `w`-bit vector denotes -/
def toInt (signed : Bool) (w : Nat) (v : Nat) : Int :=
  if signed && decide (2 ^ (w - 1) ≤ v) && decide (0 < w) then (v : Int) - 2 ^ w else v

/-- the `w`-bit vector of a number (two's complement) -/
def ofInt (w : Nat) (i : Int) : Nat := (i % 2 ^ w).toNat

/-- extension of an `aw`-bit vector to `w` bits (truncation when `w < aw`) -/
def extend (signed : Bool) (aw w : Nat) (a : Nat) : Nat :=
  if w ≤ aw then a % 2 ^ w
  else if signed && decide (0 < aw) && decide (2 ^ (aw - 1) ≤ a) then a + (2 ^ w - 2 ^ aw)
  else a

def b2n (b : Bool) : Nat := if b then 1 else 0

/-! ## unary -/

def cellNot (sa : Bool) (aw yw : Nat) (a : Nat) : Nat := (2 ^ yw - 1) - extend sa aw yw a
def cellNeg (sa : Bool) (aw yw : Nat) (a : Nat) : Nat := (2 ^ yw - extend sa aw yw a) % 2 ^ yw
def cellReduceAnd (aw yw : Nat) (a : Nat) : Nat := b2n (a % 2 ^ aw == 2 ^ aw - 1) % 2 ^ yw
def cellReduceOr (aw yw : Nat) (a : Nat) : Nat := b2n (a % 2 ^ aw != 0) % 2 ^ yw

/-- parity of the low `w` bits -/
def parity : Nat → Nat → Nat
  | 0, _ => 0
  | w + 1, n => (n % 2 + parity w (n / 2)) % 2

def cellReduceXor (aw yw : Nat) (a : Nat) : Nat := parity aw a % 2 ^ yw

/-! ## binary, operands extended to the result width -/

def cellAnd (sa sb : Bool) (aw bw yw : Nat) (a b : Nat) : Nat := extend sa aw yw a &&& extend sb bw yw b
def cellOr (sa sb : Bool) (aw bw yw : Nat) (a b : Nat) : Nat := extend sa aw yw a ||| extend sb bw yw b
def cellXor (sa sb : Bool) (aw bw yw : Nat) (a b : Nat) : Nat := extend sa aw yw a ^^^ extend sb bw yw b
def cellAdd (sa sb : Bool) (aw bw yw : Nat) (a b : Nat) : Nat := (extend sa aw yw a + extend sb bw yw b) % 2 ^ yw
def cellSub (sa sb : Bool) (aw bw yw : Nat) (a b : Nat) : Nat :=
  (extend sa aw yw a + (2 ^ yw - extend sb bw yw b)) % 2 ^ yw
def cellMul (sa sb : Bool) (aw bw yw : Nat) (a b : Nat) : Nat := (extend sa aw yw a * extend sb bw yw b) % 2 ^ yw

/-! ## comparisons, operands extended to the wider operand -/

/-- signed or unsigned "less than" of two `w`-bit vectors -/
def vecLt (signed : Bool) (w : Nat) (x y : Nat) : Bool := decide (toInt signed w x < toInt signed w y)

def cmpWidth (aw bw : Nat) : Nat := max aw bw

def cellEq (sa sb : Bool) (aw bw yw : Nat) (a b : Nat) : Nat :=
  b2n (extend sa aw (cmpWidth aw bw) a == extend sb bw (cmpWidth aw bw) b) % 2 ^ yw
def cellNe (sa sb : Bool) (aw bw yw : Nat) (a b : Nat) : Nat :=
  b2n (extend sa aw (cmpWidth aw bw) a != extend sb bw (cmpWidth aw bw) b) % 2 ^ yw
def cellLt (sa sb : Bool) (aw bw yw : Nat) (a b : Nat) : Nat :=
  b2n (vecLt (sa && sb) (cmpWidth aw bw) (extend sa aw (cmpWidth aw bw) a) (extend sb bw (cmpWidth aw bw) b)) % 2 ^ yw
def cellGt (sa sb : Bool) (aw bw yw : Nat) (a b : Nat) : Nat :=
  b2n (vecLt (sa && sb) (cmpWidth aw bw) (extend sb bw (cmpWidth aw bw) b) (extend sa aw (cmpWidth aw bw) a)) % 2 ^ yw
def cellLe (sa sb : Bool) (aw bw yw : Nat) (a b : Nat) : Nat :=
  b2n (!vecLt (sa && sb) (cmpWidth aw bw) (extend sb bw (cmpWidth aw bw) b) (extend sa aw (cmpWidth aw bw) a)) % 2 ^ yw
def cellGe (sa sb : Bool) (aw bw yw : Nat) (a b : Nat) : Nat :=
  b2n (!vecLt (sa && sb) (cmpWidth aw bw) (extend sa aw (cmpWidth aw bw) a) (extend sb bw (cmpWidth aw bw) b)) % 2 ^ yw

/-! ## shifts (`B` unsigned unless stated) -/

def cellShl (sa : Bool) (aw yw : Nat) (a b : Nat) : Nat := (extend sa aw (max aw yw) a * 2 ^ b) % 2 ^ yw
def cellShr (sa : Bool) (aw yw : Nat) (a b : Nat) : Nat := (extend sa aw (max aw yw) a / 2 ^ b) % 2 ^ yw
def cellSshr (sa : Bool) (aw yw : Nat) (a b : Nat) : Nat :=
  if sa then ofInt yw (toInt true aw a / 2 ^ b) else cellShr false aw yw a b
/-- `bInt`: the number `B` denotes (negative only when `B_SIGNED`) -/
def cellShift (sa : Bool) (aw yw : Nat) (a : Nat) (bInt : Int) : Nat :=
  if bInt < 0 then (extend sa aw (max aw yw) a * 2 ^ (-bInt).toNat) % 2 ^ yw
  else (extend sa aw (max aw yw) a / 2 ^ bInt.toNat) % 2 ^ yw

/-! ## division -/

/-- `undef`: the value standing for an undefined (`x`) result -/
def cellDivFloor (sa sb : Bool) (aw bw yw : Nat) (a b : Nat) (undef : Nat) : Nat :=
  if toInt sb bw b = 0 then undef % 2 ^ yw else ofInt yw (Int.fdiv (toInt sa aw a) (toInt sb bw b))
def cellModFloor (sa sb : Bool) (aw bw yw : Nat) (a b : Nat) (undef : Nat) : Nat :=
  if toInt sb bw b = 0 then undef % 2 ^ yw else ofInt yw (Int.fmod (toInt sa aw a) (toInt sb bw b))

def cellMux (w : Nat) (a b s : Nat) : Nat := if s % 2 = 1 then b % 2 ^ w else a % 2 ^ w

end Amaranth.Rtlil
