/-!
# RTLIL documents: abstract syntax of the subset `amaranth.back.rtlil` emits

Core Lean only. The grammar is the one of the Yosys manual ("RTLIL text representation"),
restricted to what `amaranth/back/rtlil.py` can print:

* a document is a sequence of modules, each preceded by `attribute` lines;
* a module contains wires (`wire width W [input|output|inout N] [signed] NAME`), memories
  (`memory width W size S NAME`), cells (`cell TYPE NAME` / `parameter [signed|real] NAME CONST` /
  `connect PORT SIGSPEC` / `end`), processes (`process NAME` / `assign` / `switch` / `case` / `end`;
  the emitter never prints `sync` rules: all its processes are combinational, registers are
  `$dff`/`$adff` cells) and `connect LHS RHS` lines;
* a sigspec is a constant (`W'bits`), a wire, a wire slice `NAME [hi:lo]` / `NAME [i]`, or a
  concatenation `{ chunk … }` (most significant chunk first; the emitter never nests them).

Identifiers keep their sigil (`\name` public, `$name` generated).
-/

namespace Amaranth.Rtlil

/-- a bit of a constant or of a `case` pattern: `0`, `1`, `x` (undefined), `-` (don't care) -/
inductive Bit | b0 | b1 | x | dc
deriving DecidableEq, Repr, Inhabited

/-- an attribute / parameter value -/
inductive Const
  | bits (bs : List Bit)      -- `W'bbbb`, most significant bit first, `W = bs.length`
  | int (n : Int)             -- a decimal integer (32 bit in Yosys)
  | str (s : String)          -- a string, escapes decoded
deriving DecidableEq, Repr, Inhabited

inductive Chunk
  | const (bs : List Bit)                     -- most significant bit first
  | wire (name : String)                      -- the whole wire
  | slice (name : String) (hi lo : Nat)       -- `name [hi:lo]`
  | bit (name : String) (i : Nat)             -- `name [i]`
deriving DecidableEq, Repr, Inhabited

inductive SigSpec
  | one (c : Chunk)
  | cat (cs : List Chunk)                     -- `{ c … }`, most significant chunk first
deriving DecidableEq, Repr, Inhabited

inductive Dir | input | output | inout
deriving DecidableEq, Repr, Inhabited

structure Attr where
  name : String
  value : Const
deriving DecidableEq, Repr, Inhabited

structure Wire where
  attrs : List Attr
  name : String
  width : Nat
  port : Option (Dir × Nat)
  signed : Bool
deriving DecidableEq, Repr, Inhabited

structure Memory where
  attrs : List Attr
  name : String
  width : Nat
  size : Nat
deriving DecidableEq, Repr, Inhabited

inductive PKind | plain | signed | real
deriving DecidableEq, Repr, Inhabited

structure Param where
  kind : PKind
  name : String
  value : Const
deriving DecidableEq, Repr, Inhabited

structure Cell where
  attrs : List Attr
  type : String
  name : String
  params : List Param
  conns : List (String × SigSpec)
deriving DecidableEq, Repr, Inhabited

/-- a `case` pattern list; `[]` is the default case -/
abbrev Pats := List (List Bit)

mutual
/-- a statement list of a process or of a case body -/
inductive Body
  | done
  | assign (lhs rhs : SigSpec) (rest : Body)
  | switch (sel : SigSpec) (cases : Cases) (rest : Body)
/-- the cases of one `switch`, in order -/
inductive Cases
  | nil
  | case (pats : Pats) (body : Body) (rest : Cases)
end

deriving instance DecidableEq for Body, Cases
deriving instance Repr for Body
deriving instance Repr for Cases
deriving instance Inhabited for Body
deriving instance Inhabited for Cases

structure Process where
  attrs : List Attr
  name : String
  body : Body
deriving DecidableEq, Repr, Inhabited

structure Module where
  attrs : List Attr
  name : String
  wires : List Wire
  memories : List Memory
  cells : List Cell
  procs : List Process
  connects : List (SigSpec × SigSpec)
deriving DecidableEq, Repr, Inhabited

abbrev Doc := List Module

/-! ## Collectors (shared by the validator and by the declarative reading of the property) -/

def SigSpec.chunks : SigSpec → List Chunk
  | .one c => [c]
  | .cat cs => cs

/-- where a bit of a sigspec comes from -/
inductive BitRef
  | const (b : Bit)
  | wire (name : String) (i : Nat)
deriving DecidableEq, Repr, Inhabited

/-- the bits a chunk denotes, least significant first; `ww` gives the width of a wire (only used
for whole-wire chunks) -/
def Chunk.bitRefsW (ww : String → Nat) : Chunk → List BitRef
  | .const bs => bs.reverse.map .const
  | .wire n => (List.range (ww n)).map (fun k => .wire n k)
  | .slice n hi lo => (List.range (hi + 1 - lo)).map (fun k => .wire n (lo + k))
  | .bit n i => [.wire n i]

/-- the bits a sigspec denotes, least significant first (chunks are written most significant first) -/
def SigSpec.bitRefsW (ww : String → Nat) : SigSpec → List BitRef
  | .one c => c.bitRefsW ww
  | .cat cs => cs.reverse.flatMap (·.bitRefsW ww)

/-- for sigspecs without whole-wire chunks -/
def SigSpec.bitRefs (s : SigSpec) : List BitRef := s.bitRefsW (fun _ => 0)

/-- width of a chunk that is not a whole wire -/
def Chunk.width0 : Chunk → Nat
  | .const bs => bs.length
  | .wire _ => 0
  | .slice _ hi lo => hi + 1 - lo
  | .bit _ _ => 1

def SigSpec.width (s : SigSpec) : Nat := (s.chunks.map Chunk.width0).sum

def Chunk.wireName : Chunk → Option String
  | .const _ => none
  | .wire n => some n
  | .slice n _ _ => some n
  | .bit n _ => some n

mutual
/-- every `assign lhs rhs` anywhere in a body -/
def Body.assigns : Body → List (SigSpec × SigSpec)
  | .done => []
  | .assign l r rest => (l, r) :: rest.assigns
  | .switch _ cs rest => cs.assigns ++ rest.assigns
def Cases.assigns : Cases → List (SigSpec × SigSpec)
  | .nil => []
  | .case _ b rest => b.assigns ++ rest.assigns
end

mutual
/-- every `switch sel` anywhere in a body, with the pattern lists of its cases -/
def Body.switches : Body → List (SigSpec × List Pats)
  | .done => []
  | .assign _ _ rest => rest.switches
  | .switch sel cs rest => (sel, cs.patsList) :: (cs.switches ++ rest.switches)
def Cases.switches : Cases → List (SigSpec × List Pats)
  | .nil => []
  | .case _ b rest => b.switches ++ rest.switches
def Cases.patsList : Cases → List Pats
  | .nil => []
  | .case p _ rest => p :: rest.patsList
end

/-- every sigspec occurring in a body -/
def Body.sigspecs (b : Body) : List SigSpec :=
  b.assigns.flatMap (fun lr => [lr.1, lr.2]) ++ b.switches.map (·.1)

/-- the chunks a process assigns to -/
def Process.lhsChunks (p : Process) : List Chunk := p.body.assigns.flatMap (·.1.chunks)

def Module.wire? (m : Module) (n : String) : Option Wire := m.wires.find? (·.name == n)

/-- all names declared in a module (one namespace, as in Yosys' `count_id`) -/
def Module.names (m : Module) : List String :=
  m.wires.map (·.name) ++ m.memories.map (·.name) ++ m.cells.map (·.name) ++ m.procs.map (·.name)

/-- every sigspec of the module, wherever it occurs -/
def Module.sigspecs (m : Module) : List SigSpec :=
  m.cells.flatMap (fun c => c.conns.map (·.2)) ++ m.procs.flatMap (·.body.sigspecs)
    ++ m.connects.flatMap (fun lr => [lr.1, lr.2])

def Module.chunks (m : Module) : List Chunk := m.sigspecs.flatMap (·.chunks)

/-- port indices in order of declaration -/
def Module.portIds (m : Module) : List Nat := m.wires.filterMap (fun w => w.port.map (·.2))

/-- the wires that are ports -/
def Module.ports (m : Module) : List Wire := m.wires.filter (·.port.isSome)

def Cell.param? (c : Cell) (n : String) : Option Param := c.params.find? (·.name == n)

/-- a plain (unsigned, non-negative decimal) parameter -/
def Cell.natParam? (c : Cell) (n : String) : Option Nat :=
  match c.param? n with
  | some ⟨.plain, _, .int v⟩ => if 0 ≤ v then some v.toNat else none
  | _ => none

def Cell.strParam? (c : Cell) (n : String) : Option String :=
  match c.param? n with
  | some ⟨.plain, _, .str s⟩ => some s
  | _ => none

def Doc.module? (d : Doc) (n : String) : Option Module := d.find? (·.name == n)

end Amaranth.Rtlil
