import AmaranthVerif.Model.Rtlil.Parse

/-!
# A printer of RTLIL documents (used to test the reader: `parse (print d) = d`)

`printDoc : Doc → List (List Tok)` produces token lines in the canonical order
attributes / `module` / wires / memories / cells / processes / connects / `end`;
`render` turns token lines into text (words separated by one blank, strings quoted and escaped).
-/

namespace Amaranth.Rtlil

def digitChar (d : Nat) : Char := Char.ofNat ('0'.toNat + d)

def natChars (n : Nat) : List Char :=
  if _h : n < 10 then [digitChar n] else natChars (n / 10) ++ [digitChar (n % 10)]
decreasing_by omega

def intChars (n : Int) : List Char :=
  if n < 0 then '-' :: natChars n.natAbs else natChars n.natAbs

def bitChar : Bit → Char
  | .b0 => '0' | .b1 => '1' | .x => 'x' | .dc => '-'

def bitsWord (bs : List Bit) : String := String.ofList (natChars bs.length ++ '\'' :: bs.map bitChar)

def natWord (n : Nat) : Tok := .word (String.ofList (natChars n))

def constTok : Const → Tok
  | .bits bs => .word (bitsWord bs)
  | .int n => .word (String.ofList (intChars n))
  | .str s => .str s

def rangeWord (hi lo : Nat) : String := String.ofList ('[' :: (natChars hi ++ ':' :: (natChars lo ++ [']'])))
def bitWord (i : Nat) : String := String.ofList ('[' :: (natChars i ++ [']']))

def chunkToks : Chunk → List Tok
  | .const bs => [.word (bitsWord bs)]
  | .wire n => [.word n]
  | .slice n hi lo => [.word n, .word (rangeWord hi lo)]
  | .bit n i => [.word n, .word (bitWord i)]

def specToks : SigSpec → List Tok
  | .one c => chunkToks c
  | .cat cs => .word "{" :: cs.flatMap chunkToks ++ [.word "}"]

def attrLine (a : Attr) : List Tok := [.word "attribute", .word a.name, constTok a.value]

def dirWord : Dir → String
  | .input => "input" | .output => "output" | .inout => "inout"

def wireLines (w : Wire) : List (List Tok) :=
  w.attrs.map attrLine ++
  [ [.word "wire", .word "width", natWord w.width]
      ++ (match w.port with
          | some (d, n) => [.word (dirWord d), natWord n]
          | none => [])
      ++ (if w.signed then [.word "signed"] else [])
      ++ [.word w.name] ]

def memoryLines (x : Memory) : List (List Tok) :=
  x.attrs.map attrLine ++ [[.word "memory", .word "width", natWord x.width, .word "size", natWord x.size, .word x.name]]

def paramLine (p : Param) : List Tok :=
  match p.kind with
  | .plain => [.word "parameter", .word p.name, constTok p.value]
  | .signed => [.word "parameter", .word "signed", .word p.name, constTok p.value]
  | .real => [.word "parameter", .word "real", .word p.name, constTok p.value]

def cellLines (c : Cell) : List (List Tok) :=
  c.attrs.map attrLine ++ [[.word "cell", .word c.type, .word c.name]]
    ++ c.params.map paramLine
    ++ c.conns.map (fun ps => .word "connect" :: .word ps.1 :: specToks ps.2)
    ++ [[.word "end"]]

mutual
def bodyLines : Body → List (List Tok)
  | .done => []
  | .assign l r rest => (.word "assign" :: specToks l ++ specToks r) :: bodyLines rest
  | .switch sel cs rest => (.word "switch" :: specToks sel) :: casesLines cs ++ bodyLines rest
def casesLines : Cases → List (List Tok)
  | .nil => [[.word "end"]]
  | .case pats b rest => (.word "case" :: pats.map (fun p => .word (bitsWord p))) :: bodyLines b ++ casesLines rest
end

def procLines (p : Process) : List (List Tok) :=
  p.attrs.map attrLine ++ [[.word "process", .word p.name]] ++ bodyLines p.body ++ [[.word "end"]]

def moduleLines (m : Module) : List (List Tok) :=
  m.attrs.map attrLine ++ [[.word "module", .word m.name]]
    ++ m.wires.flatMap wireLines ++ m.memories.flatMap memoryLines ++ m.cells.flatMap cellLines
    ++ m.procs.flatMap procLines
    ++ m.connects.map (fun lr => .word "connect" :: specToks lr.1 ++ specToks lr.2)
    ++ [[.word "end"]]

def printDoc (d : Doc) : List (List Tok) := d.flatMap moduleLines

def numberFrom : List (List Tok) → Nat → List Line
  | [], _ => []
  | t :: rest, n => ⟨n, t⟩ :: numberFrom rest (n + 1)

def numberLines (ls : List (List Tok)) : List Line := numberFrom ls 1

/-! ## Text -/

def escapeChar (c : Char) : List Char :=
  if c == '"' then ['\\', '"'] else if c == '\\' then ['\\', '\\']
  else if c == '\n' then ['\\', 'n'] else if c == '\t' then ['\\', 't'] else if c == '\r' then ['\\', 'r'] else [c]

def tokChars : Tok → List Char
  | .word s => s.toList
  | .str s => '"' :: s.toList.flatMap escapeChar ++ ['"']

def lineChars : List Tok → List Char
  | [] => []
  | [t] => tokChars t
  | t :: rest => tokChars t ++ ' ' :: lineChars rest

def renderChars : List (List Tok) → List Char
  | [] => []
  | l :: rest => lineChars l ++ '\n' :: renderChars rest

def render (ls : List (List Tok)) : String := String.ofList (renderChars ls)

end Amaranth.Rtlil
