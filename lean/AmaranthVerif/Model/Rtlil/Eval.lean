import Std.Data.HashMap
import AmaranthVerif.Model.Rtlil.Cells
import AmaranthVerif.Spec.RtlilWF

/-!
# An evaluator of the RTLIL documents the emitter produces

* `flatten`: the hierarchy is instantiated from the top module; a wire `w` of the instance reached
  through the cells `c₁ … cₙ` is called `"c₁ … cₙ w"` (blank separated — identifiers contain no
  blanks); a submodule cell becomes alias nodes for its port connections.
* combinational nodes (`connect`, word-level cells, processes, asynchronous read ports) are put in
  dependency order once (`schedule`, with fuel; a cycle is an error) and evaluated in that order
  (`settle`); asynchronous resets are level sensitive and applied after a first pass.
* state: the `Q` wires of `$dff`/`$adff` (power-on value: the `init` attribute of the wire connected
  to `Q`), memories (`$meminit_v2`), the data registers of synchronous read ports (`INIT_VALUE`, `x`).
* an **event** sets top-level input wires (clocks and resets are ordinary inputs); every flip-flop,
  write port and synchronous read port whose clock has an active edge between the settled state
  before and after the change samples its inputs in the settled state after the change; all
  updates are committed together; the design settles again.
* processes: `assign` in order, later assignments win; `switch`: the first case with a matching
  pattern (a case without patterns always matches, `-` matches either bit); right-hand sides read
  the values at the start of the process.
* undefined values (`x` constants, `INIT_VALUE` of read ports, reads outside the memory, division
  by zero) are resolved to all-zeros or all-ones as directed by `xres`; the driver evaluates both; write ports of
  hitting the same bits of a row with different data in one event are reported (`runTraceC`) and end the comparison
  and reports whether an observation depends on the choice.

Not evaluated (an error if present): `$tribuf`, `$anyconst/$anyseq/$allconst/$allseq`,
`$initstate`, foreign instances.  `$print`/`$check` have no outputs and are skipped.
-/

namespace Amaranth.Rtlil
open Std

abbrev Env := HashMap String Nat

/-! ## values of sigspecs -/

def bitsVal (xres : Bool) : List Bit → Nat   -- most significant first
  | bs => bs.foldl (fun acc b => 2 * acc + (match b with
      | .b1 => 1
      | .b0 => 0
      | _ => b2n xres)) 0

structure Ctx where
  widths : HashMap String Nat
  xres : Bool
  /-- evaluate `$shift` of a signed `A` as an *arithmetic* shift (what the simulator computes for a part-select of a
  signed value; used only to attribute a disagreement to the recorded finding F27, never for the verdict itself) -/
  shiftArith : Bool := false

def Ctx.width (c : Ctx) (n : String) : Nat := c.widths.getD n 0

def chunkWidthE (c : Ctx) : Chunk → Nat
  | .const bs => bs.length
  | .wire n => c.width n
  | .slice _ hi lo => hi + 1 - lo
  | .bit _ _ => 1

def specWidthE (c : Ctx) (s : SigSpec) : Nat := (s.chunks.map (chunkWidthE c)).foldl (· + ·) 0

def chunkVal (c : Ctx) (env : Env) : Chunk → Nat
  | .const bs => bitsVal c.xres bs
  | .wire n => env.getD n 0 % 2 ^ c.width n
  | .slice n hi lo => (env.getD n 0 / 2 ^ lo) % 2 ^ (hi + 1 - lo)
  | .bit n i => (env.getD n 0 / 2 ^ i) % 2

/-- chunks are most significant first -/
def specVal (c : Ctx) (env : Env) (s : SigSpec) : Nat :=
  s.chunks.foldl (fun acc ch => acc * 2 ^ chunkWidthE c ch + chunkVal c env ch) 0

/-- replace bits `[lo, lo+k)` of `old` by `v` -/
def setBits (old lo k v : Nat) : Nat :=
  old % 2 ^ lo + (v % 2 ^ k) * 2 ^ lo + (old / 2 ^ (lo + k)) * 2 ^ (lo + k)

def writeChunk (c : Ctx) (env : Env) (ch : Chunk) (v : Nat) : Env :=
  match ch with
  | .const _ => env
  | .wire n => env.insert n (v % 2 ^ c.width n)
  | .slice n hi lo => env.insert n (setBits (env.getD n 0) lo (hi + 1 - lo) v)
  | .bit n i => env.insert n (setBits (env.getD n 0) i 1 v)

/-- write `v` to the sigspec (least significant chunk last in the list) -/
def writeSpec (c : Ctx) (env : Env) (s : SigSpec) (v : Nat) : Env :=
  (s.chunks.reverse.foldl (fun (acc : Env × Nat) ch =>
    let w := chunkWidthE c ch
    (writeChunk c acc.1 ch (acc.2 % 2 ^ w), acc.2 / 2 ^ w)) (env, v)).1

/-! ## flattened designs -/

structure Ff where
  d : SigSpec
  q : SigSpec
  clk : SigSpec
  pol : Bool
  width : Nat
  arst : Option (SigSpec × Bool × Nat)     -- signal, polarity, value
deriving Inhabited

structure MemWr where
  mem : String
  addr : SigSpec
  data : SigSpec
  en : SigSpec
  clk : SigSpec
  pol : Bool
  portid : Nat
deriving Inhabited

structure MemRd where
  mem : String
  addr : SigSpec
  data : SigSpec
  en : SigSpec
  clk : SigSpec
  pol : Bool
  transparency : Nat
  width : Nat
deriving Inhabited

inductive Node
  | alias (lhs rhs : SigSpec)
  | cell (c : Cell)                       -- a combinational word-level cell (names already prefixed)
  | proc (b : Body)
  | memrd (mem : String) (addr data : SigSpec) (width : Nat)
deriving Inhabited

structure Flat where
  wires : List (String × Nat × Option (List Bit))   -- name, width, init attribute
  inputs : List String                              -- top-level input wires
  nodes : List Node
  ffs : List Ff
  mems : List (String × Nat × Nat)                  -- name, width, size
  inits : List (String × Nat × Nat × List Bit × List Bit)  -- memory, width, words, data, enable
  wrs : List MemWr
  rds : List MemRd
deriving Inhabited

def Flat.empty : Flat := ⟨[], [], [], [], [], [], [], []⟩

def Flat.append (a b : Flat) : Flat :=
  ⟨a.wires ++ b.wires, a.inputs ++ b.inputs, a.nodes ++ b.nodes, a.ffs ++ b.ffs, a.mems ++ b.mems,
   a.inits ++ b.inits, a.wrs ++ b.wrs, a.rds ++ b.rds⟩

def pre (p : String) (n : String) : String := if p.isEmpty then n else p ++ " " ++ n

def Chunk.prefixed (p : String) : Chunk → Chunk
  | .const bs => .const bs
  | .wire n => .wire (pre p n)
  | .slice n hi lo => .slice (pre p n) hi lo
  | .bit n i => .bit (pre p n) i

def SigSpec.prefixed (p : String) : SigSpec → SigSpec
  | .one c => .one (c.prefixed p)
  | .cat cs => .cat (cs.map (·.prefixed p))

mutual
def Body.prefixed (p : String) : Body → Body
  | .done => .done
  | .assign l r rest => .assign (l.prefixed p) (r.prefixed p) (rest.prefixed p)
  | .switch sel cs rest => .switch (sel.prefixed p) (cs.prefixed p) (rest.prefixed p)
def Cases.prefixed (p : String) : Cases → Cases
  | .nil => .nil
  | .case pats b rest => .case pats (b.prefixed p) (rest.prefixed p)
end

def Cell.conn? (c : Cell) (port : String) : Option SigSpec := (c.conns.find? (·.1 == port)).map (·.2)

def Cell.bitsParam? (c : Cell) (n : String) : Option (List Bit) :=
  match c.param? n with
  | some ⟨_, _, .bits bs⟩ => some bs
  | _ => none

def combTypes : List String := unaryTypes ++ binaryTypes ++ ["$mux"]
def skippedTypes : List String := ["$print", "$check"]

def initAttr (w : Wire) : Option (List Bit) :=
  match w.attrs.find? (·.name == "\\init") with
  | some ⟨_, .bits bs⟩ => some bs
  | _ => none

/-- one cell of a module instance whose wires carry the prefix `p` -/
def flattenCell (p : String) (c : Cell) : Except String Flat :=
  let pc : Cell := { c with conns := c.conns.map (fun ps => (ps.1, ps.2.prefixed p)) }
  let need (port : String) : Except String SigSpec :=
    match pc.conn? port with
    | some s => .ok s
    | none => .error s!"cell {c.type} {c.name}: port {port} missing"
  if combTypes.contains c.type then .ok { Flat.empty with nodes := [.cell pc] }
  else if skippedTypes.contains c.type then .ok Flat.empty
  else if c.type == "$dff" || c.type == "$adff" then do
    let d ← need "\\D"
    let q ← need "\\Q"
    let clk ← need "\\CLK"
    let w := (c.natParam? "\\WIDTH").getD 0
    let pol := (c.flagParam? "\\CLK_POLARITY").getD true
    if c.type == "$dff" then .ok { Flat.empty with ffs := [⟨d, q, clk, pol, w, none⟩] }
    else do
      let arst ← need "\\ARST"
      let apol := (c.flagParam? "\\ARST_POLARITY").getD true
      match c.bitsParam? "\\ARST_VALUE" with
      | some bs => .ok { Flat.empty with ffs := [⟨d, q, clk, pol, w, some (arst, apol, bitsVal false bs)⟩] }
      | none => .error s!"cell {c.name}: ARST_VALUE missing"
  else if c.type == "$meminit_v2" then
    match c.strParam? "\\MEMID", pc.conn? "\\DATA", pc.conn? "\\EN", pc.conn? "\\ADDR" with
    | some id, some (.one (.const data)), some (.one (.const en)), some (.cat []) =>
      .ok { Flat.empty with inits := [(pre p id, (c.natParam? "\\WIDTH").getD 0, (c.natParam? "\\WORDS").getD 0, data, en)] }
    | some id, some (.cat []), some _, some (.cat []) =>
      .ok { Flat.empty with inits := [(pre p id, (c.natParam? "\\WIDTH").getD 0, (c.natParam? "\\WORDS").getD 0, [], [])] }
    | _, _, _, _ => .error s!"cell {c.name}: unsupported $meminit_v2 form"
  else if c.type == "$memwr_v2" then do
    let addr ← need "\\ADDR"
    let data ← need "\\DATA"
    let en ← need "\\EN"
    let clk ← need "\\CLK"
    match c.strParam? "\\MEMID" with
    | some id =>
      if (c.flagParam? "\\CLK_ENABLE") == some true then
        .ok { Flat.empty with wrs := [⟨pre p id, addr, data, en, clk, (c.flagParam? "\\CLK_POLARITY").getD true,
                                        (c.natParam? "\\PORTID").getD 0⟩] }
      else .error s!"cell {c.name}: asynchronous write port"
    | none => .error s!"cell {c.name}: MEMID missing"
  else if c.type == "$memrd_v2" then do
    let addr ← need "\\ADDR"
    let data ← need "\\DATA"
    let en ← need "\\EN"
    let clk ← need "\\CLK"
    let w := (c.natParam? "\\WIDTH").getD 0
    match c.strParam? "\\MEMID" with
    | some id =>
      if (c.flagParam? "\\CLK_ENABLE") == some true then
        let tm := match c.bitsParam? "\\TRANSPARENCY_MASK" with
          | some bs => bitsVal false bs
          | none => 0
        .ok { Flat.empty with rds := [⟨pre p id, addr, data, en, clk, (c.flagParam? "\\CLK_POLARITY").getD true, tm, w⟩] }
      else .ok { Flat.empty with nodes := [.memrd (pre p id) addr data w] }
    | none => .error s!"cell {c.name}: MEMID missing"
  else .error s!"cell {c.type} {c.name}: not evaluated"

/-- instantiate module `m` with wire prefix `p`; `fuel` bounds the depth of the hierarchy -/
def flattenModule (d : Doc) : Nat → Module → String → Bool → Except String Flat
  | 0, _, _, _ => .error "hierarchy too deep"
  | fuel + 1, m, p, top => do
    let wires := m.wires.map (fun w => (pre p w.name, w.width, initAttr w))
    let inputs := if top then (m.wires.filter (·.isInput)).map (·.name) else []
    let mems := m.memories.map (fun x => (pre p x.name, x.width, x.size))
    let mut acc : Flat := { Flat.empty with wires := wires, inputs := inputs, mems := mems }
    for c in m.cells do
      if isInternal c.type then
        acc := acc.append (← flattenCell p c)
      else
        match d.module? c.type with
        | none => throw s!"cell {c.type} {c.name}: foreign instance, not evaluated"
        | some child =>
          let cp := pre p c.name
          -- inputs of the child are aliases of the connected sigspecs; outputs drive the parent
          let mut ins : List Node := []
          let mut outs : List Node := []
          for ps in c.conns do
            match child.wire? ps.1 with
            | none => throw s!"cell {c.name}: no port {ps.1}"
            | some w =>
              if w.isInput then ins := ins ++ [.alias (.one (.wire (pre cp w.name))) (ps.2.prefixed p)]
              else if w.isInout then throw s!"cell {c.name}: inout port {ps.1}"
              else outs := outs ++ [.alias (ps.2.prefixed p) (.one (.wire (pre cp w.name)))]
          let sub ← flattenModule d fuel child cp false
          acc := acc.append { Flat.empty with nodes := ins }
          acc := acc.append sub
          acc := acc.append { Flat.empty with nodes := outs }
    let procs := m.procs.map (fun pr => Node.proc (pr.body.prefixed p))
    let conns := m.connects.map (fun lr => Node.alias (lr.1.prefixed p) (lr.2.prefixed p))
    return acc.append { Flat.empty with nodes := procs ++ conns }

def topModule (d : Doc) : Option Module :=
  match d.find? (fun m => m.attrs.any (fun a => a.name == "\\top")) with
  | some m => some m
  | none => d.head?

def flatten (d : Doc) : Except String Flat :=
  match topModule d with
  | none => .ok Flat.empty           -- an empty document (the whole design was empty)
  | some m => flattenModule d (d.length + 1) m "" true

/-! ## scheduling -/

def specWires (s : SigSpec) : List String := s.chunks.filterMap (·.wireName)

def Node.reads : Node → List String
  | .alias _ r => specWires r
  | .cell c => (c.conns.filter (fun ps => ps.1 != "\\Y")).flatMap (fun ps => specWires ps.2)
  | .proc b => (b.assigns.flatMap (fun lr => specWires lr.2)) ++ (b.switches.flatMap (fun sw => specWires sw.1))
  | .memrd _ addr _ _ => specWires addr

def Node.writes : Node → List String
  | .alias l _ => specWires l
  | .cell c => (c.conns.filter (fun ps => ps.1 == "\\Y")).flatMap (fun ps => specWires ps.2)
  | .proc b => b.assigns.flatMap (fun lr => specWires lr.1)
  | .memrd _ _ data _ => specWires data

/-- repeatedly move the nodes all of whose inputs are final to the schedule -/
def scheduleGo : Nat → List Node → HashMap String Nat → List Node → Except String (List Node)
  | 0, rest, _, acc => if rest.isEmpty then .ok acc else .error "combinational cycle (or scheduling fuel exhausted)"
  | fuel + 1, rest, pending, acc =>
    if rest.isEmpty then .ok acc
    else
      let ready (n : Node) : Bool := n.reads.all (fun w => pending.getD w 0 == 0)
      let now := rest.filter ready
      if now.isEmpty then .error "combinational cycle"
      else
        let later := rest.filter (fun n => !ready n)
        let pending' := now.foldl (fun (pd : HashMap String Nat) n =>
          n.writes.foldl (fun pd w => pd.insert w (pd.getD w 0 - 1)) pd) pending
        scheduleGo fuel later pending' (acc ++ now)

def schedule (nodes : List Node) : Except String (List Node) :=
  let pending := nodes.foldl (fun (pd : HashMap String Nat) n =>
    n.writes.foldl (fun pd w => pd.insert w (pd.getD w 0 + 1)) pd) {}
  scheduleGo (nodes.length + 1) nodes pending []

/-! ## combinational evaluation -/

def patMatches (pat : List Bit) (v : Nat) : Bool :=
  -- `pat` most significant first
  (pat.reverse.zipIdx.all fun (b, i) =>
    match b with
    | .b0 => (v / 2 ^ i) % 2 == 0
    | .b1 => (v / 2 ^ i) % 2 == 1
    | _ => true)

mutual
/-- `src`: values at the start of the process; `env`: being written -/
def evalBody (c : Ctx) (src : Env) : Body → Env → Env
  | .done, env => env
  | .assign l r rest, env => evalBody c src rest (writeSpec c env l (specVal c src r))
  | .switch sel cs rest, env => evalBody c src rest (evalCases c src (specVal c src sel) cs env)
def evalCases (c : Ctx) (src : Env) (v : Nat) : Cases → Env → Env
  | .nil, env => env
  | .case pats b rest, env =>
    if pats.isEmpty || pats.any (fun p => patMatches p v) then evalBody c src b env
    else evalCases c src v rest env
end

structure CellIn where
  sa : Bool
  sb : Bool
  aw : Nat
  bw : Nat
  yw : Nat
  a : Nat
  b : Nat

def undefVal (xres : Bool) (w : Nat) : Nat := if xres then 2 ^ w - 1 else 0

/-- value of the `Y` output of a combinational cell -/
def evalCombCell (c : Ctx) (env : Env) (cell : Cell) : Except String Nat := do
  let t := cell.type
  let spec (port : String) : Except String SigSpec :=
    match cell.conn? port with
    | some s => .ok s
    | none => .error s!"cell {cell.name}: port {port} missing"
  if t == "$mux" then
    let w := (cell.natParam? "\\WIDTH").getD 0
    return cellMux w (specVal c env (← spec "\\A")) (specVal c env (← spec "\\B")) (specVal c env (← spec "\\S"))
  let sa := (cell.flagParam? "\\A_SIGNED").getD false
  let aw := (cell.natParam? "\\A_WIDTH").getD 0
  let yw := (cell.natParam? "\\Y_WIDTH").getD 0
  let a := specVal c env (← spec "\\A")
  if unaryTypes.contains t then
    if t == "$not" then return cellNot sa aw yw a
    if t == "$neg" then return cellNeg sa aw yw a
    if t == "$reduce_and" then return cellReduceAnd aw yw a
    if t == "$reduce_or" || t == "$reduce_bool" then return cellReduceOr aw yw a
    return cellReduceXor aw yw a
  let sb := (cell.flagParam? "\\B_SIGNED").getD false
  let bw := (cell.natParam? "\\B_WIDTH").getD 0
  let b := specVal c env (← spec "\\B")
  if t == "$shl" || t == "$shr" || t == "$sshr" then
    if sb then throw s!"cell {cell.name}: {t} with B_SIGNED"
    if t == "$shl" then return cellShl sa aw yw a b
    if t == "$shr" then return cellShr sa aw yw a b
    return cellSshr sa aw yw a b
  if t == "$shift" then
    if c.shiftArith && sa && decide (0 ≤ toInt sb bw b) then return cellSshr true aw yw a (toInt sb bw b).toNat
    return cellShift sa aw yw a (toInt sb bw b)
  -- arithmetic, bitwise, comparison: one reading only when the flags agree
  if sa != sb then throw s!"cell {cell.name}: {t} with A_SIGNED != B_SIGNED"
  if t == "$and" then return cellAnd sa sb aw bw yw a b
  if t == "$or" then return cellOr sa sb aw bw yw a b
  if t == "$xor" then return cellXor sa sb aw bw yw a b
  if t == "$add" then return cellAdd sa sb aw bw yw a b
  if t == "$sub" then return cellSub sa sb aw bw yw a b
  if t == "$mul" then return cellMul sa sb aw bw yw a b
  if t == "$divfloor" then return cellDivFloor sa sb aw bw yw a b (undefVal c.xres yw)
  if t == "$modfloor" then return cellModFloor sa sb aw bw yw a b (undefVal c.xres yw)
  if t == "$eq" then return cellEq sa sb aw bw yw a b
  if t == "$ne" then return cellNe sa sb aw bw yw a b
  if t == "$lt" then return cellLt sa sb aw bw yw a b
  if t == "$le" then return cellLe sa sb aw bw yw a b
  if t == "$gt" then return cellGt sa sb aw bw yw a b
  if t == "$ge" then return cellGe sa sb aw bw yw a b
  throw s!"cell {t}: no semantics"

abbrev Mems := HashMap String (Array Nat)

def memRead (xres : Bool) (mems : Mems) (mem : String) (width addr : Nat) : Nat :=
  match mems.get? mem with
  | some arr => if h : addr < arr.size then arr[addr] else undefVal xres width
  | none => undefVal xres width

def evalNode (c : Ctx) (mems : Mems) (env : Env) : Node → Except String Env
  | .alias l r => .ok (writeSpec c env l (specVal c env r))
  | .cell cell =>
    match cell.conn? "\\Y" with
    | some y => do
      let v ← evalCombCell c env cell
      .ok (writeSpec c env y v)
    | none => .error s!"cell {cell.name}: port Y missing"
  | .proc b => .ok (evalBody c env b env)
  | .memrd mem addr data w => .ok (writeSpec c env data (memRead c.xres mems mem w (specVal c env addr)))

def evalNodes (c : Ctx) (mems : Mems) : List Node → Env → Except String Env
  | [], env => .ok env
  | n :: rest, env => do evalNodes c mems rest (← evalNode c mems env n)

structure Sim where
  ctx : Ctx
  order : List Node
  flat : Flat

structure State where
  env : Env
  mems : Mems

def arstActive (c : Ctx) (env : Env) (f : Ff) : Option Nat :=
  match f.arst with
  | some (sig, pol, v) => if (specVal c env sig % 2 == 1) == pol then some v else none
  | none => none

def applyArst (s : Sim) (env : Env) : Env :=
  s.flat.ffs.foldl (fun env f =>
    match arstActive s.ctx env f with
    | some v => writeSpec s.ctx env f.q v
    | none => env) env

/-- combinational settle, asynchronous resets (level sensitive), settle again -/
def settle (s : Sim) (st : State) : Except String State := do
  let e1 ← evalNodes s.ctx st.mems s.order st.env
  let e2 := applyArst s e1
  let e3 ← evalNodes s.ctx st.mems s.order e2
  return { st with env := e3 }

/-! ## initial state and events -/

def initBits (c : Ctx) (wires : HashMap String (Option (List Bit))) : Chunk → Nat
  -- power-on value of the bits of a `Q` connection: the matching slice of the `init` attribute
  | .const _ => 0
  | .wire n => match wires.getD n none with
    | some bs => bitsVal c.xres bs % 2 ^ c.width n
    | none => undefVal c.xres (c.width n)
  | .slice n hi lo => match wires.getD n none with
    | some bs => (bitsVal c.xres bs / 2 ^ lo) % 2 ^ (hi + 1 - lo)
    | none => undefVal c.xres (hi + 1 - lo)
  | .bit n i => match wires.getD n none with
    | some bs => (bitsVal c.xres bs / 2 ^ i) % 2
    | none => undefVal c.xres 1

def initSpec (c : Ctx) (wires : HashMap String (Option (List Bit))) (s : SigSpec) : Nat :=
  s.chunks.foldl (fun acc ch => acc * 2 ^ chunkWidthE c ch + initBits c wires ch) 0

def mkSim (f : Flat) (xres : Bool) (shiftArith : Bool := false) : Except String Sim := do
  let widths := f.wires.foldl (fun (m : HashMap String Nat) w => m.insert w.1 w.2.1) {}
  let order ← schedule f.nodes
  return { ctx := ⟨widths, xres, shiftArith⟩, order := order, flat := f }

/-- rows of a `$meminit_v2`: `data` and `en` most significant first -/
def initRows (xres : Bool) (width words : Nat) (data : List Bit) : List Nat :=
  let v := bitsVal xres data
  (List.range words).map (fun r => (v / 2 ^ (r * width)) % 2 ^ width)

def initState (s : Sim) (inputs : List (String × Nat)) : Except String State := do
  let c := s.ctx
  let attrs := s.flat.wires.foldl (fun (m : HashMap String (Option (List Bit))) w => m.insert w.1 w.2.2) {}
  let env0 : Env := {}
  let env1 := s.flat.ffs.foldl (fun env f => writeSpec c env f.q (initSpec c attrs f.q)) env0
  let env2 := s.flat.rds.foldl (fun env r => writeSpec c env r.data (undefVal c.xres r.width)) env1
  let env3 := inputs.foldl (fun (env : Env) iv => env.insert iv.1 (iv.2 % 2 ^ c.width iv.1)) env2
  let mems0 : Mems := s.flat.mems.foldl (fun (m : Mems) x => m.insert x.1 (Array.replicate x.2.2 (undefVal c.xres x.2.1))) {}
  let mems1 := s.flat.inits.foldl (fun (m : Mems) i =>
    let (mem, width, words, data, _en) := i
    match m.get? mem with
    | some arr =>
      let rows := initRows c.xres width words data
      m.insert mem (rows.zipIdx.foldl (fun (a : Array Nat) (v, k) => if k < a.size then a.set! k v else a) arr)
    | none => m) mems0
  settle s ⟨env3, mems1⟩

def edge (pol : Bool) (c0 c1 : Nat) : Bool :=
  if pol then c0 % 2 == 0 && c1 % 2 == 1 else c0 % 2 == 1 && c1 % 2 == 0

/-- one event: the listed top-level inputs take new values; the flag says whether write ports of different
collided (see below) -/
def stepC (s : Sim) (st : State) (changes : List (String × Nat)) : Except String (State × Bool) := do
  let c := s.ctx
  let clk0 (sig : SigSpec) := specVal c st.env sig
  let env1 := changes.foldl (fun (env : Env) iv => env.insert iv.1 (iv.2 % 2 ^ c.width iv.1)) st.env
  let st1 ← settle s { st with env := env1 }
  let e1 := st1.env
  -- flip-flops
  let ffUpdates := s.flat.ffs.filterMap (fun f =>
    if edge f.pol (clk0 f.clk) (specVal c e1 f.clk) && (arstActive c e1 f).isNone then
      some (f.q, specVal c e1 f.d)
    else none)
  -- write ports that fire: (memory, port id, address, data, enable mask)
  let firing := s.flat.wrs.filter (fun w => edge w.pol (clk0 w.clk) (specVal c e1 w.clk))
  -- write ports that fire: (memory, port id, address, data, enable mask), in port order (within one clock later
  -- ports win, as in the simulator's per-domain process)
  let writes := firing.map (fun w => (w.mem, w.portid, specVal c e1 w.addr, specVal c e1 w.data, specVal c e1 w.en))
  -- No write port has priority over another (amaranth emits `PRIORITY_MASK 0` on every port, and this evaluator reads no other): when two ports fire in the same event and write different data to the same bits of a row, the
  -- RTLIL leaves the result undefined (and the simulator's result, or what a transparent read port forwards, depends
  -- on process order / the order of its transparency list). Reported to the caller, who stops comparing.
  let collision := firing.any (fun w1 => firing.any (fun w2 =>
    w1.mem == w2.mem && w1.portid != w2.portid && specVal c e1 w1.addr == specVal c e1 w2.addr &&
    (let both := Nat.land (specVal c e1 w1.en) (specVal c e1 w2.en)
     Nat.land both (Nat.xor (specVal c e1 w1.data) (specVal c e1 w2.data)) != 0)))
  -- synchronous read ports
  let rdUpdates := s.flat.rds.filterMap (fun r =>
    if edge r.pol (clk0 r.clk) (specVal c e1 r.clk) && specVal c e1 r.en % 2 == 1 then
      let addr := specVal c e1 r.addr
      let old := memRead c.xres st1.mems r.mem r.width addr
      let v := writes.foldl (fun v wr =>
        let (mem, pid, waddr, wdata, wen) := wr
        if mem == r.mem && waddr == addr && (r.transparency / 2 ^ pid) % 2 == 1 then
          (List.range r.width).foldl (fun v i =>
            if (wen / 2 ^ i) % 2 == 1 then setBits v i 1 ((wdata / 2 ^ i) % 2) else v) v
        else v) old
      some (r.data, v)
    else none)
  let env2 := ffUpdates.foldl (fun env u => writeSpec c env u.1 u.2) e1
  let env3 := rdUpdates.foldl (fun env u => writeSpec c env u.1 u.2) env2
  let mems' := writes.foldl (fun (m : Mems) wr =>
    let (mem, _pid, waddr, wdata, wen) := wr
    match m.get? mem with
    | some arr =>
      if waddr < arr.size then
        let old := arr[waddr]!
        let w := (s.flat.mems.find? (·.1 == mem)).map (·.2.1) |>.getD 0
        let new := (List.range w).foldl (fun v i =>
          if (wen / 2 ^ i) % 2 == 1 then setBits v i 1 ((wdata / 2 ^ i) % 2) else v) old
        m.insert mem (arr.set! waddr new)
      else m
    | none => m) st1.mems
  let st' ← settle s ⟨env3, mems'⟩
  return (st', collision)

def step (s : Sim) (st : State) (changes : List (String × Nat)) : Except String State := do
  return (← stepC s st changes).1

def observe (s : Sim) (st : State) (points : List String) : List Nat :=
  points.map (fun n => st.env.getD n 0 % 2 ^ s.ctx.width n)

/-- observations after the initial settle and after every event -/
def runTrace (s : Sim) (inputs : List (String × Nat)) (events : List (List (String × Nat))) (points : List String) :
    Except String (List (List Nat)) := do
  let st0 ← initState s inputs
  let mut st := st0
  let mut out := [observe s st0 points]
  for ev in events do
    st ← step s st ev
    out := out ++ [observe s st points]
  return out

/-- … together with the index of the first event in which two write ports collide -/
def runTraceC (s : Sim) (inputs : List (String × Nat)) (events : List (List (String × Nat))) (points : List String) :
    Except String (List (List Nat) × Option Nat) := do
  let st0 ← initState s inputs
  let mut st := st0
  let mut out := [observe s st0 points]
  let mut first : Option Nat := none
  let mut k := 0
  for ev in events do
    let (st', c) ← stepC s st ev
    st := st'
    k := k + 1
    if c && first.isNone then first := some k
    out := out ++ [observe s st points]
  return (out, first)

end Amaranth.Rtlil
