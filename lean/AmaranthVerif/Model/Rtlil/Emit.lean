import AmaranthVerif.Model.Rtlil.Syntax

/-!
# Small models of three mechanisms of the emitter

* `addName` / `assignAll` follow `amaranth/hdl/_ir.py:_add_name` and its use in `_assign_names`
  (a set of assigned names; a taken name becomes `f"{name}${len(assigned)}"`);
* `emitPortIds` follows the `port_id` counter of `back/rtlil.py` (`Module.emit` resets it,
  `Wire.emit` uses and advances it for port wires only);
* `emitSpec` follows `ModuleEmitter.sigspec`: maximal runs of constant nets and of consecutive bits
  of one wire, printed most significant first, a single chunk without braces.
-/

namespace Amaranth.Rtlil

/-! ## `_add_name` -/

/-- `assigned` is the set of names taken so far (a duplicate-free list).  Returns the name given and
the new set.  In the real code the middle case `n' ∈ assigned` trips an `assert`. -/
def addName {α : Type} [DecidableEq α] (mk : α → Nat → α) (assigned : List α) (name : α) : α × List α :=
  if name ∈ assigned then
    let n' := mk name assigned.length
    (n', if n' ∈ assigned then assigned else n' :: assigned)
  else (name, name :: assigned)

/-- names given to a sequence of user names, and the final set -/
def assignAll {α : Type} [DecidableEq α] (mk : α → Nat → α) (assigned : List α) : List α → List α × List α
  | [] => ([], assigned)
  | u :: us =>
    let r := addName mk assigned u
    let rs := assignAll mk r.2 us
    (r.1 :: rs.1, rs.2)

/-- the concrete scheme: `f"{name}${k}"` -/
def mkStr (n : String) (k : Nat) : String := n ++ "$" ++ toString k

/-! ## the port counter -/

/-- `true` = a port wire; returns the index printed for each wire -/
def emitPortIds : List Bool → Nat → List (Option Nat)
  | [], _ => []
  | true :: ws, pid => some pid :: emitPortIds ws (pid + 1)
  | false :: ws, pid => none :: emitPortIds ws pid

/-! ## `sigspec()` -/

/-- a net of the netlist after wires have been assigned: a constant or bit `bit` of wire `name` -/
inductive Net
  | const (b : Bool)
  | wire (name : String) (bit : Nat)
deriving DecidableEq, Repr, Inhabited

def Net.ref : Net → BitRef
  | .const b => .const (if b then .b1 else .b0)
  | .wire n i => .wire n i

/-- a maximal run, least significant bit first -/
inductive Run
  | const (bits : List Bool)
  | wire (name : String) (start width : Nat)
deriving DecidableEq, Repr, Inhabited

/-- put a less significant net in front of the runs -/
def pushNet (n : Net) : List Run → List Run
  | [] => match n with
    | .const b => [.const [b]]
    | .wire w i => [.wire w i 1]
  | .const bs :: rest => match n with
    | .const b => .const (b :: bs) :: rest
    | .wire w i => .wire w i 1 :: .const bs :: rest
  | .wire w s k :: rest => match n with
    | .const b => .const [b] :: .wire w s k :: rest
    | .wire w' i => if w' = w ∧ i + 1 = s then .wire w i (k + 1) :: rest else .wire w' i 1 :: .wire w s k :: rest

def runs : List Net → List Run
  | [] => []
  | n :: rest => pushNet n (runs rest)

def Run.chunk : Run → Chunk
  | .const bs => .const (bs.map (fun b => if b then Bit.b1 else Bit.b0)).reverse
  | .wire w s k => if k = 1 then .bit w s else .slice w (s + k - 1) s

def emitSpec (v : List Net) : SigSpec :=
  match runs v with
  | [r] => .one r.chunk
  | rs => .cat (rs.reverse.map Run.chunk)

end Amaranth.Rtlil
