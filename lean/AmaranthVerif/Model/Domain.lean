import AmaranthVerif.Model.Dsl

/-!
# Clock domains, events, and the control inserters

* A design is a list of *processes* — one per (fragment, domain), the hierarchy flattened in
  pre-order, exactly the set `_FragmentCompiler` creates — plus the clock-domain table.
* An *event* is a set of simultaneous value changes on undriven signals (clocks, resets, inputs);
  `eventStep` follows one `step_design()`: the changes are committed, every synchronous process
  whose clock has an active edge (`edge_waker`) runs **once on the committed values**; for
  `async_reset` domains a rising reset wakes a reset-only process that loads initial values, the results are committed through the
  per-signal masks, then combinational processes run until nothing changes.
* `resetInserter` / `enableInserter` / `domainRenamer` follow `hdl/_xfrm.py` on the process list.
-/

namespace Amaranth

structure DomCfg where
  clk : Nat
  posedge : Bool := true
  rst : Option Nat := none
  async : Bool := false
deriving Repr, Inhabited

structure Proc where
  /-- `none` = comb, `some d` = domain index `d` -/
  dom : Option Nat
  body : Stmt
deriving Repr, Inhabited

structure Design where
  ctx : Ctx
  inits : Env
  resetLess : List Bool
  doms : List DomCfg
  procs : List Proc
deriving Inhabited

def applyChanges (env : Env) : List (Nat × Int) → Env
  | [] => env
  | (i, v) :: cs => applyChanges (env.put i v) cs

/-- `edge_waker`: the signal changed and its new value is the polarity -/
def edgeFired (old new : Env) (sig : Nat) (polarity : Int) : Bool :=
  old.val sig != new.val sig && new.val sig == polarity

/-- the domain's statements run: active clock edge -/
def DomCfg.clkFired (c : DomCfg) (old new : Env) : Bool :=
  edgeFired old new c.clk (if c.posedge then 1 else 0)

/-- the reset-only process runs: `async_reset` domain and the reset signal rises -/
def DomCfg.rstFired (c : DomCfg) (old new : Env) : Bool :=
  c.async && match c.rst with | some r => edgeFired old new r 1 | none => false

/-- the pending values a synchronous process computes, before the commit -/
def syncNext (ctx : Ctx) (inits : Env) (resetLess : List Bool) (rst : Option Int) (body : Stmt) (cur : Env) : Env :=
  let n := ctx.length
  let driven := stmtSigs body
  let nxt0 := execRtl ctx cur body cur
  match rst with
  | some r =>
    if pyAnd 1 r != 0 then
      (List.range n).map fun i =>
        if driven.contains i && !(resetLess.getD i false) then inits.val i else nxt0.val i
    else nxt0
  | none => nxt0

/-- commit a process' pending values into `acc` through its masks -/
def commitInto (ctx : Ctx) (body : Stmt) (nxt acc : Env) : Env :=
  let n := ctx.length
  let tab := stmtMask ctx body (List.replicate n 0)
  (List.range n).map fun i => commitMask (ctx.shape i) (acc.val i) (nxt.val i) (tab.get i)

def combNext (ctx : Ctx) (inits : Env) (body : Stmt) (cur : Env) : Env :=
  let n := ctx.length
  let driven := stmtSigs body
  let start : Env := (List.range n).map fun i => if driven.contains i then inits.val i else cur.val i
  execRtl ctx cur body start

/-- one delta of all combinational processes, all reading the same snapshot -/
def combDelta (D : Design) (snap : Env) : Env :=
  D.procs.foldl (fun acc p => match p.dom with
    | none => commitInto D.ctx p.body (combNext D.ctx D.inits p.body snap) acc
    | some _ => acc) snap

def combSettle (D : Design) : Nat → Env → Env
  | 0, e => e
  | fuel + 1, e => let e' := combDelta D e; if e' == e then e else combSettle D fuel e'

/-- the reset-only process of an `async_reset` domain: `slots[i].update(init, mask)` for every
resettable signal the domain's statements drive -/
def resetOnlyInto (ctx : Ctx) (inits : Env) (resetLess : List Bool) (body : Stmt) (acc : Env) : Env :=
  let n := ctx.length
  let tab := stmtMask ctx body (List.replicate n 0)
  let driven := stmtSigs body
  (List.range n).map fun i =>
    if driven.contains i && !(resetLess.getD i false) then
      commitMask (ctx.shape i) (acc.val i) (inits.val i) (tab.get i)
    else acc.val i

/-- what one synchronous process contributes at an event: its statements at an active clock edge,
its reset-only process at a rising asynchronous reset -/
def procAtEvent (D : Design) (cur cur' : Env) (p : Proc) (acc : Env) : Env :=
  match p.dom with
  | some d =>
    let cfg := D.doms.getD d default
    let acc1 :=
      if cfg.clkFired cur cur' then
        let rst := cfg.rst.map (fun r => cur'.val r)
        commitInto D.ctx p.body (syncNext D.ctx D.inits D.resetLess rst p.body cur') acc
      else acc
    if cfg.rstFired cur cur' then resetOnlyInto D.ctx D.inits D.resetLess p.body acc1 else acc1
  | none => acc

/-- all synchronous processes woken by the event run on the same committed values `cur'` -/
def syncPhase (D : Design) (cur cur' : Env) : Env :=
  D.procs.foldl (fun acc p => procAtEvent D cur cur' p acc) cur'

/-- one `step_design()` after the given simultaneous changes -/
def eventStep (D : Design) (cur : Env) (changes : List (Nat × Int)) : Env :=
  let cur' := applyChanges cur changes
  combSettle D (D.procs.length + 2) (combDelta D (syncPhase D cur cur'))

/-! ## Control inserters -/

/-- the contiguous runs of set bits of a mask below `w` (`LHSMaskCollector.chunks`) -/
def maskChunks (m : Int) (w : Nat) : List (Nat × Nat) :=
  let rec go (fuel start : Nat) (runStart : Option Nat) (acc : List (Nat × Nat)) : List (Nat × Nat) :=
    match fuel with
    | 0 => (match runStart with | some s => acc ++ [(s, start)] | none => acc)
    | fuel + 1 =>
      let bit := pyAnd (pyShr m start) 1 != 0
      match runStart, bit with
      | none, true => go fuel (start + 1) (some start) acc
      | none, false => go fuel (start + 1) none acc
      | some s, true => go fuel (start + 1) (some s) acc
      | some s, false => go fuel (start + 1) none (acc ++ [(s, start)])
  go w 0 none []

/-- the statements `ResetInserter` appends for one process body -/
def resetStmts (ctx : Ctx) (inits : Env) (resetLess : List Bool) (body : Stmt) : Stmt :=
  let n := ctx.length
  let tab := stmtMask ctx body (List.replicate n 0)
  let sigs := (stmtSigs body).eraseDups
  sigs.foldr (fun i acc =>
    if resetLess.getD i false then acc
    else
      let s := ctx.shape i
      let m := tab.get i
      let full : Int := pyShl 1 s.width - 1
      let c : Expr := .const (inits.val i) s
      if m == full then Stmt.seq (.assign (.sig i) c) acc
      else (maskChunks m s.width).foldr (fun (ch : Nat × Nat) acc' =>
        Stmt.seq (.assign (.slice (.sig i) ch.1 ch.2) (.slice c ch.1 ch.2)) acc') acc) .skip

/-- `Switch(ctl, [(1, stmts)])`: the pattern is `to_binary(1, len(ctl))` -/
def onePattern (ctx : Ctx) (ctl : Expr) : List Pat :=
  let s := shapeOf ctx ctl
  normUPats s [.int 1]

def resetInserter (D : Design) (dom : Nat) (ctl : Expr) (p : Proc) : Proc :=
  if p.dom == some dom then
    { p with body := .seq p.body (.ite ctl (onePattern D.ctx ctl) (resetStmts D.ctx D.inits D.resetLess p.body) .skip) }
  else p

def enableInserter (D : Design) (dom : Nat) (ctl : Expr) (p : Proc) : Proc :=
  if p.dom == some dom then { p with body := .ite ctl (onePattern D.ctx ctl) p.body .skip } else p

def domainRenamer (src dst : Nat) (p : Proc) : Proc :=
  if p.dom == some src then { p with dom := some dst } else p

end Amaranth
