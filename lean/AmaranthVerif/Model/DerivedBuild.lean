import AmaranthVerif.Model.Derived
import AmaranthVerif.Spec.Derived
import AmaranthVerif.Model.ShapeCast
import AmaranthVerif.Model.Dsl

/-!
# From a derived-operator request to the primitive nodes amaranth builds for it

`mkDerived` dispatches a `DOp` (the operator as the user calls it, with any integer amount) to the
construction-time rewrites of `Model/Derived.lean`, including the sign and modulo handling of the amounts.
The correspondence check compares its result *structurally* with the expression the Python methods return.
-/

namespace Amaranth

/-- `amount %= len(self)` when the value is not empty -/
def rotAmount (w : Nat) (n : Int) : Nat := if w = 0 then 0 else (n % (w : Int)).toNat

/-- `shift_left(n)`: negative amounts are right shifts -/
def mkShl (ctx : Ctx) (a : Expr) (n : Int) : Expr :=
  if n < 0 then mkShiftRight ctx a (-n).toNat else mkShiftLeft ctx a n.toNat

def mkShr (ctx : Ctx) (a : Expr) (n : Int) : Expr :=
  if n < 0 then mkShiftLeft ctx a (-n).toNat else mkShiftRight ctx a n.toNat

/-- one pattern of `Value.matches`: `(self & mask) == pattern` for a string, `self == value` for a constant -/
def mkMatch1 (a : Expr) : MPat → Expr
  | .bits p => .op2 .eq (.op2 .and a (.const p.maskNat (constShape p.maskNat))) (.const p.valueNat (constShape p.valueNat))
  | .int k => .op2 .eq a (.const k (constShape k))

/-- `_normalize_patterns`: a string of the wrong width is a SyntaxError (`none`); a constant that the match
value's shape cannot represent is dropped (with a warning) -/
def normPats (s : Shape) : List MPat → Option (List MPat)
  | [] => some []
  | .bits p :: ps => if p.length = s.width then (normPats s ps).map (.bits p :: ·) else none
  | .int k :: ps => if s.contains k then (normPats s ps).map (.int k :: ·) else normPats s ps

/-- `self.matches(*patterns)`: `Const(0)`, the single comparison, or `Cat(*comparisons).any()` -/
def mkMatches (ctx : Ctx) (a : Expr) (ps : List MPat) : Option Expr :=
  (normPats (shapeOf ctx a) ps).map fun ms => match ms with
    | [] => .const 0 ⟨1, false⟩
    | [m] => mkMatch1 a m
    | ms => .op1 .rany (catList (ms.map (mkMatch1 a)))

def mkDerived (ctx : Ctx) : DOp → List Expr → Option Expr
  | .abs, [a] => some (mkAbs ctx a)
  | .shiftLeft n, [a] => some (mkShl ctx a n)
  | .shiftRight n, [a] => some (mkShr ctx a n)
  | .rotateLeft n, [a] => some (mkRotateLeft ctx a (rotAmount (widthOf ctx a) n))
  | .rotateRight n, [a] => some (mkRotateLeft ctx a (rotAmount (widthOf ctx a) (-n)))
  | .replicate k, [a] => some (mkReplicate a k)
  | .mux, [sel, v1, v0] => some (mkMux ctx sel v1 v0)
  | .matches ps, [a] => mkMatches ctx a ps
  | _, _ => none

end Amaranth
