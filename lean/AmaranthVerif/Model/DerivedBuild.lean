import AmaranthVerif.Model.Derived
import AmaranthVerif.Spec.Derived

/-!
# From a derived-operator request to the primitive nodes amaranth builds for it

`mkDerived` dispatches a `DOp` (the operator as the user calls it, with any integer amount) to the
construction-time rewrites of `Model/Derived.lean`, including the sign and modulo handling of the amounts.
The correspondence check compares its result *structurally* with the expression the Python methods return.
-/

namespace Amaranth

/-- `amount %= len(self)` when the value is not empty -/
def rotAmount (w : Nat) (n : Int) : Nat := if w = 0 then 0 else (n % (w : Int)).toNat

/-- `shift_left(n)`: negative amounts are right shifts -/
def mkShl (ctx : Ctx) (a : Expr) (n : Int) : Expr :=
  if n < 0 then mkShiftRight ctx a (-n).toNat else mkShiftLeft ctx a n.toNat

def mkShr (ctx : Ctx) (a : Expr) (n : Int) : Expr :=
  if n < 0 then mkShiftLeft ctx a (-n).toNat else mkShiftRight ctx a n.toNat

def mkDerived (ctx : Ctx) : DOp → List Expr → Option Expr
  | .abs, [a] => some (mkAbs ctx a)
  | .shiftLeft n, [a] => some (mkShl ctx a n)
  | .shiftRight n, [a] => some (mkShr ctx a n)
  | .rotateLeft n, [a] => some (mkRotateLeft ctx a (rotAmount (widthOf ctx a) n))
  | .rotateRight n, [a] => some (mkRotateLeft ctx a (rotAmount (widthOf ctx a) (-n)))
  | .replicate k, [a] => some (mkReplicate a k)
  | .mux, [sel, v1, v0] => some (mkMux ctx sel v1 v0)
  | _, _ => none

end Amaranth
