import AmaranthVerif.Model.Derived
import AmaranthVerif.Spec.Derived
import AmaranthVerif.Model.ShapeCast
import AmaranthVerif.Model.Dsl

/-!
# From a derived-operator request to the primitive nodes amaranth builds for it

`mkDerived` dispatches a `DOp` (the operator as the user calls it, with any integer amount) to the
construction-time rewrites of `Model/Derived.lean`, including the sign and modulo handling of the amounts.
The correspondence check compares its result *structurally* with the expression the Python methods return.
-/

namespace Amaranth

/-- `amount %= len(self)` when the value is not empty -/
def rotAmount (w : Nat) (n : Int) : Nat := if w = 0 then 0 else (n % (w : Int)).toNat

/-- `shift_left(n)`: negative amounts are right shifts -/
def mkShl (ctx : Ctx) (a : Expr) (n : Int) : Expr :=
  if n < 0 then mkShiftRight ctx a (-n).toNat else mkShiftLeft ctx a n.toNat

def mkShr (ctx : Ctx) (a : Expr) (n : Int) : Expr :=
  if n < 0 then mkShiftLeft ctx a (-n).toNat else mkShiftRight ctx a n.toNat

/-- one pattern of `Value.matches`: `(self & mask) == pattern` for a string, `self == value` for a constant -/
def mkMatch1 (a : Expr) : MPat → Expr
  | .bits p => .op2 .eq (.op2 .and a (.const p.maskNat (constShape p.maskNat))) (.const p.valueNat (constShape p.valueNat))
  | .int k => .op2 .eq a (.const k (constShape k))

/-- `_normalize_patterns`: a string of the wrong width is a SyntaxError (`none`); a constant that the match
value's shape cannot represent is dropped (with a warning) -/
def normPats (s : Shape) : List MPat → Option (List MPat)
  | [] => some []
  | .bits p :: ps => if p.length = s.width then (normPats s ps).map (.bits p :: ·) else none
  | .int k :: ps => if s.contains k then (normPats s ps).map (.int k :: ·) else normPats s ps

/-- `self.matches(*patterns)`: `Const(0)`, the single comparison, or `Cat(*comparisons).any()` -/
def mkMatches (ctx : Ctx) (a : Expr) (ps : List MPat) : Option Expr :=
  (normPats (shapeOf ctx a) ps).map fun ms => match ms with
    | [] => .const 0 ⟨1, false⟩
    | [m] => mkMatch1 a m
    | ms => .op1 .rany (catList (ms.map (mkMatch1 a)))

/-- `self[i]` for an integer `i`: out of range is an IndexError (`none`) -/
def mkIndex (ctx : Ctx) (a : Expr) (i : Int) : Option Expr :=
  let w : Int := widthOf ctx a
  if -w ≤ i ∧ i < w then
    let k := (if i < 0 then i + w else i).toNat
    some (.slice a k (k + 1))
  else none

/-- `len(range(start, stop, step))` -/
def sliceLen (start stop step : Int) : Nat :=
  if step > 0 then (if stop > start then ((stop - start + step - 1) / step).toNat else 0)
  else (if start > stop then ((start - stop + (-step) - 1) / (-step)).toNat else 0)

/-- the positions `range(start, stop, step)` selects -/
def slicePositions (start stop step : Int) : List Int :=
  (List.range (sliceLen start stop step)).map fun (j : Nat) => start + (j : Int) * step

/-- `self[start:stop:step]` with the indices already normalised by `slice.indices(len(self))` (so that every
selected position is a bit of `self`; anything else is `none`: `slice.indices` cannot produce it):
`Slice(self, start, stop)` for step 1 (an IndexError when start > stop), else `Cat(self[i] for i in range(...))` -/
def mkSliceStep (ctx : Ctx) (a : Expr) (start stop step : Int) : Option Expr :=
  let w : Int := widthOf ctx a
  if step = 0 then none
  else if step = 1 then
    (if 0 ≤ start ∧ start ≤ stop ∧ stop ≤ w then some (.slice a start.toNat stop.toNat) else none)
  else if (slicePositions start stop step).all (fun p => decide (0 ≤ p) && decide (p < w)) then
    some (catList ((slicePositions start stop step).map fun p => .slice a p.toNat (p.toNat + 1)))
  else none

/-- `Array(elems)[index]` as a value (`ArrayProxy.as_value`): a `SwitchValue` over the index with one case per element
an index of that width could name; for a position the index's shape cannot represent (the upper half, for a signed
index) `_normalize_patterns` drops the pattern and the case stays with no pattern at all — it never matches but still
takes part in the result shape; no default -/
def mkArrayFrom (ctx : Ctx) (idx : Expr) : Nat → List Expr → Expr
  | _, [] => Expr.nil
  | k, e :: es =>
    .ite idx (if (shapeOf ctx idx).contains (k : Int) then [toBinary k (widthOf ctx idx)] else []) e
      (mkArrayFrom ctx idx (k + 1) es)

def mkArray (ctx : Ctx) (idx : Expr) (elems : List Expr) : Expr :=
  mkArrayFrom ctx idx 0 (elems.take (2 ^ widthOf ctx idx))

def mkDerived (ctx : Ctx) : DOp → List Expr → Option Expr
  | .abs, [a] => some (mkAbs ctx a)
  | .shiftLeft n, [a] => some (mkShl ctx a n)
  | .shiftRight n, [a] => some (mkShr ctx a n)
  | .rotateLeft n, [a] => some (mkRotateLeft ctx a (rotAmount (widthOf ctx a) n))
  | .rotateRight n, [a] => some (mkRotateLeft ctx a (rotAmount (widthOf ctx a) (-n)))
  | .replicate k, [a] => some (mkReplicate a k)
  | .mux, [sel, v1, v0] => some (mkMux ctx sel v1 v0)
  | .matches ps, [a] => mkMatches ctx a ps
  | .index i, [a] => mkIndex ctx a i
  | .sliceStep start stop step, [a] => mkSliceStep ctx a start stop step
  | .arrayIndex, idx :: elems => some (mkArray ctx idx elems)
  | _, _ => none

end Amaranth
