import AmaranthVerif.Spec.Queue

/-!
# Model of `amaranth.lib.fifo.SyncFIFO` and `SyncFIFOBuffered`

Follows `SyncFIFO.elaborate` / `SyncFIFOBuffered.elaborate` register by register.
One `step` is one rising edge of the `sync` clock (reset de-asserted); `outputs` are the values of the
combinational / registered output signals in the cycle *before* that edge, i.e. what a testbench reads
with `ctx.get` after setting the inputs and before `await ctx.tick()`.

Data are natural numbers below `2^width` (a `Signal(width)` cannot carry anything else); nothing in the
control logic depends on the data.

The produce / consume / level / storage mechanism is written twice in `fifo.py` (lines 162-186 and
289-314) with identical text; here it is the single definition `Ring.step`, used at depth `depth` by
`SyncFIFO` and at depth `depth - 1` by `SyncFIFOBuffered`.
-/

namespace Amaranth.SyncFifo

/-! ## Signal widths and truncating assignment -/

/-- Python's `int.bit_length()` (`bits_for` of a non-negative integer) -/
def bitLength (n : Nat) : Nat := if n = 0 then 0 else Nat.log2 n + 1

/-- width of `Signal(range(n))`, i.e. `bits_for(n - 1)`; 0 for `range(0)` and `range(1)` -/
def rangeWidth (n : Nat) : Nat := bitLength (n - 1)

/-- assignment of a non-negative value to an unsigned signal of width `w` -/
def trunc (w v : Nat) : Nat := v % 2 ^ w

/-- `signal.eq(_incr(signal, modulo))` for `signal = Signal(range(modulo))`:
```python
def _incr(signal, modulo):
    if modulo == 2 ** len(signal): return signal + 1
    else:                          return Mux(signal == modulo - 1, 0, signal + 1)
``` -/
def incr (sig modulo : Nat) : Nat :=
  let w := rangeWidth modulo
  if modulo = 2 ^ w then trunc w (sig + 1)
  else if sig = modulo - 1 then 0
  else trunc w (sig + 1)

/-- `level.eq(level - 1)` on an unsigned signal of width `w` (two's complement wrap at 0) -/
def decr (w level : Nat) : Nat := trunc w (level + 2 ^ w - 1)

/-! ## `lib.memory.Memory` as used by the FIFOs: a list of rows, all zero initially -/

/-- read port: the addressed row, 0 when the address is outside the memory (`_PyMemoryState.read`) -/
def memRead (rows : List Nat) (addr : Nat) : Nat := rows.getD addr 0

/-- write port with `en` asserted: replaces the addressed row; ignored outside the memory -/
def memWrite (rows : List Nat) (addr data : Nat) : List Nat := rows.set addr data

/-! ## The pointer / level / storage mechanism -/

structure Ring where
  /-- `produce = Signal(range(depth))` -/
  produce : Nat
  /-- `consume = Signal(range(depth))` -/
  consume : Nat
  /-- `level` (SyncFIFO) or `inner_level` (SyncFIFOBuffered): `Signal(range(depth + 1))` -/
  level   : Nat
  /-- rows of `storage = Memory(shape=width, depth=depth, init=[])` -/
  storage : List Nat
deriving DecidableEq, Repr

def Ring.init (depth : Nat) : Ring := ⟨0, 0, 0, List.replicate depth 0⟩

/-- one clock edge, given the already-computed strobes `do_write` and `do_read`:
```python
w_port.addr.eq(produce); w_port.data.eq(w_data); w_port.en.eq(do_write)
with m.If(do_write): m.d.sync += produce.eq(_incr(produce, depth))
with m.If(do_read):  m.d.sync += consume.eq(_incr(consume, depth))
with m.If(do_write & ~do_read): m.d.sync += level.eq(level + 1)
with m.If(do_read & ~do_write): m.d.sync += level.eq(level - 1)
``` -/
def Ring.step (depth : Nat) (r : Ring) (doWrite : Bool) (data : Nat) (doRead : Bool) : Ring :=
  let lw := rangeWidth (depth + 1)
  { produce := if doWrite then incr r.produce depth else r.produce
    consume := if doRead then incr r.consume depth else r.consume
    level   := if doRead && !doWrite then decr lw r.level
               else if doWrite && !doRead then trunc lw (r.level + 1)
               else r.level
    storage := if doWrite then memWrite r.storage r.produce data else r.storage }

/-! ## Common interface -/

structure Params where
  width : Nat
  depth : Nat
deriving DecidableEq, Repr

structure Input where
  w_en   : Bool
  w_data : Nat
  r_en   : Bool
deriving DecidableEq, Repr

structure Outputs where
  w_rdy   : Bool
  w_level : Nat
  r_rdy   : Bool
  r_data  : Nat
  r_level : Nat
  level   : Nat
deriving DecidableEq, Repr

/-- `FIFOInterface.__init__`: both arguments must be non-negative `int`s, otherwise `TypeError`.
(`none` stands for a non-`int` argument.) -/
def constructorAccepts (width depth : Option Int) : Bool :=
  match width, depth with
  | some w, some d => decide (0 ≤ w) && decide (0 ≤ d)
  | _, _ => false

/-! ## `SyncFIFO` -/

/-- complete register state of a `SyncFIFO` (for `depth = 0` no register exists; the state stays `init`) -/
structure State where
  ring : Ring
deriving DecidableEq, Repr

def init (p : Params) : State := ⟨Ring.init p.depth⟩

/-- ```python
if depth == 0: w_rdy.eq(0); r_rdy.eq(0)          # every other output keeps its reset value 0
w_rdy.eq(level != depth); r_rdy.eq(level != 0); w_level.eq(level); r_level.eq(level)
r_port.addr.eq(consume); r_data.eq(r_port.data)   # combinational read port
``` -/
def outputs (p : Params) (s : State) : Outputs :=
  if p.depth = 0 then ⟨false, 0, false, 0, 0, 0⟩
  else
    { w_rdy   := s.ring.level != p.depth
      w_level := s.ring.level
      r_rdy   := s.ring.level != 0
      r_data  := memRead s.ring.storage s.ring.consume
      r_level := s.ring.level
      level   := s.ring.level }

/-- `do_write = w_rdy & w_en` -/
def doWrite (p : Params) (s : State) (i : Input) : Bool := (outputs p s).w_rdy && i.w_en
/-- `do_read = r_rdy & r_en` -/
def doRead (p : Params) (s : State) (i : Input) : Bool := (outputs p s).r_rdy && i.r_en

def step (p : Params) (s : State) (i : Input) : State :=
  if p.depth = 0 then s
  else ⟨s.ring.step p.depth (doWrite p s i) i.w_data (doRead p s i)⟩

/-! ## `SyncFIFOBuffered` -/

/-- complete register state of a `SyncFIFOBuffered`.
* `depth ≥ 2`: `ring` (with `ring.level = inner_level`, storage of `depth - 1` rows), the `r_rdy`
  register and the output register of the synchronous read port (`r_data`); `level` is combinational
  and the field `level` is unused (stays 0).
* `depth = 1`: only the registers `level` and `r_data` exist.
* `depth = 0`: no register. -/
structure BState where
  ring   : Ring
  r_rdy  : Bool
  r_data : Nat
  level  : Nat
deriving DecidableEq, Repr

def binit (p : Params) : BState := ⟨Ring.init (p.depth - 1), false, 0, 0⟩

/-- ```python
if depth == 0: w_rdy.eq(0); r_rdy.eq(0)
w_level.eq(level); r_level.eq(level)
if depth == 1: w_rdy.eq(level == 0); r_rdy.eq(level == 1)            # r_data, level are registers
else:          w_rdy.eq(inner_level != inner_depth); level.eq(inner_level + r_rdy)
               r_data.eq(r_port.data)                                # r_rdy, r_port.data are registers
``` -/
def boutputs (p : Params) (s : BState) : Outputs :=
  if p.depth = 0 then ⟨false, 0, false, 0, 0, 0⟩
  else if p.depth = 1 then
    { w_rdy   := s.level == 0
      w_level := s.level
      r_rdy   := s.level == 1
      r_data  := s.r_data
      r_level := s.level
      level   := s.level }
  else
    let level := trunc (rangeWidth (p.depth + 1)) (s.ring.level + s.r_rdy.toNat)
    { w_rdy   := s.ring.level != p.depth - 1
      w_level := level
      r_rdy   := s.r_rdy
      r_data  := s.r_data
      r_level := level
      level   := level }

def bdoWrite (p : Params) (s : BState) (i : Input) : Bool := (boutputs p s).w_rdy && i.w_en
def bdoRead (p : Params) (s : BState) (i : Input) : Bool := (boutputs p s).r_rdy && i.r_en

/-- `do_inner_read = inner_r_rdy & (~r_rdy | r_en)` with `inner_r_rdy = (inner_level != 0)` -/
def doInnerRead (s : BState) (i : Input) : Bool := (s.ring.level != 0) && (!s.r_rdy || i.r_en)

/-- ```python
if depth == 1:
    with m.If(do_write): m.d.sync += [r_data.eq(w_data), level.eq(1)]
    with m.If(do_read):  m.d.sync += level.eq(0)
else:
    ... ring with do_write / do_inner_read ...
    r_port.en.eq(do_inner_read)         # synchronous, non-transparent read port: data <= storage[consume]
    with m.If(do_inner_read): m.d.sync += r_rdy.eq(1)
    with m.Elif(r_en):        m.d.sync += r_rdy.eq(0)
``` -/
def bstep (p : Params) (s : BState) (i : Input) : BState :=
  if p.depth = 0 then s
  else if p.depth = 1 then
    { s with
      r_data := if bdoWrite p s i then i.w_data else s.r_data
      level  := if bdoRead p s i then 0 else if bdoWrite p s i then 1 else s.level }
  else
    let ir := doInnerRead s i
    { ring   := s.ring.step (p.depth - 1) (bdoWrite p s i) i.w_data ir
      r_rdy  := if ir then true else if i.r_en then false else s.r_rdy
      r_data := if ir then memRead s.ring.storage s.ring.consume else s.r_data
      level  := s.level }

/-! ## Runs -/

def run (p : Params) (s : State) : List Input → State
  | [] => s
  | i :: is => run p (step p s i) is

def brun (p : Params) (s : BState) : List Input → BState
  | [] => s
  | i :: is => brun p (bstep p s i) is

/-! ## What is seen at the ports, cycle by cycle -/

def mkObs (i : Input) (o : Outputs) : Queue.Obs :=
  ⟨i.w_en, i.w_data, i.r_en, o.w_rdy, o.w_level, o.r_rdy, o.r_data, o.r_level, o.level⟩

def trace (p : Params) (s : State) : List Input → List Queue.Obs
  | [] => []
  | i :: is => mkObs i (outputs p s) :: trace p (step p s i) is

def btrace (p : Params) (s : BState) : List Input → List Queue.Obs
  | [] => []
  | i :: is => mkObs i (boutputs p s) :: btrace p (bstep p s i) is

/-! ## Abstraction to a list, and the invariant (used by the theorems; decidable, so the driver can
evaluate them on states dumped from the implementation) -/

/-- `(c + k) mod n` for `c < n`, `k ≤ n`, written without division -/
def wrap (n c k : Nat) : Nat := if c + k < n then c + k else c + k - n

/-- the `level` rows starting at `consume`, wrapping around: oldest first -/
def Ring.contents (depth : Nat) (r : Ring) : List Nat :=
  (List.range r.level).map fun k => memRead r.storage (wrap depth r.consume k)

/-- the assertions of `platform == "formal"` in `fifo.py`, plus the size of the storage -/
def Ring.Inv (depth : Nat) (r : Ring) : Prop :=
  r.storage.length = depth ∧ r.level ≤ depth ∧
  (0 < depth → r.produce < depth ∧ r.consume < depth ∧ r.produce = wrap depth r.consume r.level)

instance (depth : Nat) (r : Ring) : Decidable (r.Inv depth) := by unfold Ring.Inv; infer_instance

def abs (p : Params) (s : State) : Queue.Queue := s.ring.contents p.depth
def Inv (p : Params) (s : State) : Prop := s.ring.Inv p.depth
instance (p : Params) (s : State) : Decidable (Inv p s) := by unfold Inv; infer_instance

/-- output register (if valid) followed by the inner queue -/
def babs (p : Params) (s : BState) : Queue.Queue :=
  if p.depth = 0 then []
  else if p.depth = 1 then (if s.level = 1 then [s.r_data] else [])
  else (if s.r_rdy then [s.r_data] else []) ++ s.ring.contents (p.depth - 1)

def BInv (p : Params) (s : BState) : Prop :=
  if p.depth ≤ 1 then s.level ≤ p.depth else s.ring.Inv (p.depth - 1)
instance (p : Params) (s : BState) : Decidable (BInv p s) := by unfold BInv; infer_instance

end Amaranth.SyncFifo
