/-!
# Model of `amaranth.lib.wiring`: signatures, flipping, flattening, compliance, `connect`

Follows `/repo/amaranth/lib/wiring.py` mechanism by mechanism.

* `Flow`, `Member` (`port` | `iface`), `Sig` (ordered name → member mapping).  The description of a
  signature member may itself be a `FlippedSignature` proxy: the `dflip` flag of `Member.iface`.
* `Member.flip` / `Sig.flip`        – `Member.flip`, `FlippedSignatureMembers.__getitem__`
* `subFlag`                          – `Member.signature`: the nested signature is seen flipped when
                                        the (effective) flow is `In`, on top of its own proxy flag
* `Sig.leavesAux` / `SigV.flatten`   – `Signature.flatten` (paths with array indices, same order)
* `Sig.entries`                      – `SignatureMembers.flatten` (one entry per member, no indices)
* `Sig.createAttrs`, `SigV.create`   – `SignatureMembers.create`, `Signature.create`,
                                        `FlippedSignature.create` (= `flipped(unflipped.create())`)
* `Obj.getattr`                      – attribute access, through the `FlippedInterface` proxy when
                                        the object is wrapped (repaired F10: `flipped` is mapped over
                                        the array dimensions; `repaired := false` is the old code)
* `SigV.isCompliant`                 – `Signature.is_compliant`
* `connect`                          – `connect()`: lock-step walk over the sorted member lists

A flipped signature is never materialised for the recursion: a Boolean "seen flipped" flag is
threaded instead (`Sig.leavesAux_flip` in `Properties/C14.lean` proves that the flag is the same as
materialising `Sig.flip`).

Repaired behaviours followed by this model (the old behaviour is kept beside it):
* F10: `FlippedInterface.__getattr__` on an array of sub-interfaces (`Obj.getattr false` is the old code);
* F13: `connect()` on an array of sub-interfaces: indexed leaf paths carry the indices of *every*
  level (`Entry.segs`), not only of the leaf member (`expandOld` is the old code's path).
-/

namespace Amaranth.Wiring

/-! ## Flow -/

inductive Flow | out | «in»
deriving DecidableEq, Repr, Inhabited

def Flow.flip : Flow → Flow
  | .out => .in
  | .in => .out

/-- flip when seen through a flipped signature -/
def Flow.flipIf (f : Flow) (b : Bool) : Flow := if b then f.flip else f

/-! ## Signatures -/

/-- what `connect`, `is_compliant` and the metadata look at in a port member: the cast shape and
`_init_as_const.value` -/
structure PortD where
  width : Nat
  signed : Bool
  init : Int
deriving DecidableEq, Repr, Inhabited

mutual
inductive Member
  | port (flow : Flow) (p : PortD) (dims : List Nat)
  /-- `dflip`: the description is a `FlippedSignature` proxy around `s` -/
  | iface (flow : Flow) (dflip : Bool) (s : Sig) (dims : List Nat)
inductive Sig
  | nil
  | cons (name : String) (m : Member) (rest : Sig)
end

instance : Inhabited Sig := ⟨.nil⟩

/-- a signature value: `(false, s)` is `s`, `(true, s)` is the proxy `s.flip()` -/
abbrev SigV := Bool × Sig

def Member.flow : Member → Flow
  | .port f _ _ => f
  | .iface f _ _ _ => f

def Member.dims : Member → List Nat
  | .port _ _ d => d
  | .iface _ _ _ d => d

def Member.isIface : Member → Bool
  | .port .. => false
  | .iface .. => true

/-- `Member.flip`: only the flow of this member changes -/
def Member.flip : Member → Member
  | .port f p d => .port f.flip p d
  | .iface f df s d => .iface f.flip df s d

/-- what `FlippedSignatureMembers` shows: every member flipped -/
def Sig.flip : Sig → Sig
  | .nil => .nil
  | .cons n m r => .cons n m.flip r.flip

def Sig.names : Sig → List String
  | .nil => []
  | .cons n _ r => n :: r.names

def Sig.find? : Sig → String → Option Member
  | .nil, _ => none
  | .cons n m r, x => if n = x then some m else r.find? x

def Sig.length : Sig → Nat
  | .nil => 0
  | .cons _ _ r => r.length + 1

mutual
/-- member names are the keys of a `dict`: unique at every level -/
def Sig.wf : Sig → Bool
  | .nil => true
  | .cons n m r => !r.names.contains n && Member.wf m && Sig.wf r
def Member.wf : Member → Bool
  | .port .. => true
  | .iface _ _ s _ => Sig.wf s
end

/-- `Member.signature` for a member with declared flow `f` and proxy flag `df` inside a signature
that is itself seen flipped (`fl`): is the nested signature seen flipped? -/
def subFlag (fl : Bool) (f : Flow) (df : Bool) : Bool := xor df (f.flipIf fl == .in)

/-! ## Paths -/

inductive Item | name (s : String) | idx (n : Nat)
deriving DecidableEq, Repr, Inhabited

abbrev Path := List Item

/-- `iter_dimensions` / `create_dimensions`: all index tuples, first dimension most significant -/
def indices : List Nat → List (List Nat)
  | [] => [[]]
  | d :: ds => (List.range d).flatMap fun i => (indices ds).map (i :: ·)

def idxPath (ix : List Nat) : Path := ix.map Item.idx

/-! ## `Signature.flatten` -/

structure Leaf where
  flow : Flow
  port : PortD
deriving DecidableEq, Repr, Inhabited

def Leaf.flip (l : Leaf) : Leaf := { l with flow := l.flow.flip }

mutual
def Sig.leavesAux (fl : Bool) (pre : Path) : Sig → List (Path × Leaf)
  | .nil => []
  | .cons n m r => Member.leavesAux fl (pre ++ [.name n]) m ++ Sig.leavesAux fl pre r
def Member.leavesAux (fl : Bool) (pre : Path) : Member → List (Path × Leaf)
  | .port f p d => (indices d).map fun ix => (pre ++ idxPath ix, ⟨f.flipIf fl, p⟩)
  | .iface f df s d => (indices d).flatMap fun ix => Sig.leavesAux (subFlag fl f df) (pre ++ idxPath ix) s
end

def SigV.flatten (sv : SigV) : List (Path × Leaf) := sv.2.leavesAux sv.1 []
def Sig.flatten (s : Sig) : List (Path × Leaf) := s.leavesAux false []

/-! ## `SignatureMembers.flatten` (what `connect` iterates) -/

/-- a member name with the dimensions of that member -/
abbrev Seg := String × List Nat

inductive MView
  | port (flow : Flow) (p : PortD)
  | iface
deriving DecidableEq, Repr, Inhabited

/-- one member of the recursive member listing: the chain of (name, dims) from the root, and the
member seen with its effective flow -/
structure Entry where
  segs : List Seg
  view : MView
deriving DecidableEq, Repr, Inhabited

/-- the path `SignatureMembers.flatten` yields: names only -/
def Entry.path (e : Entry) : List String := e.segs.map (·.1)

mutual
def Sig.entries (fl : Bool) (pre : List Seg) : Sig → List Entry
  | .nil => []
  | .cons n m r => Member.entries fl (pre ++ [(n, m.dims)]) m ++ Sig.entries fl pre r
def Member.entries (fl : Bool) (segs : List Seg) : Member → List Entry
  | .port f p _ => [⟨segs, .port (f.flipIf fl) p⟩]
  | .iface f df s _ => ⟨segs, .iface⟩ :: Sig.entries (subFlag fl f df) segs s
end

/-- all indexed paths of a member chain (repaired F13: the indices of every level) -/
def expand : List Seg → List Path
  | [] => [[]]
  | (n, d) :: rest => (indices d).flatMap fun ix => (expand rest).map fun p => Item.name n :: idxPath ix ++ p

/-- the old code: only the dimensions of the leaf member are indexed (`connect_dimensions` over
`out_member.dimensions`), intermediate arrays are then traversed with `getattr(<list>, name)` -/
def expandOld : List Seg → List Path
  | [] => [[]]
  | [(n, d)] => (indices d).map fun ix => Item.name n :: idxPath ix
  | (n, _) :: rest => (expandOld rest).map fun p => Item.name n :: p

/-! ## Interface objects -/

inductive Obj
  | signal (w : Nat) (sg : Bool) (init : Int)
  | const (w : Nat) (sg : Bool) (v : Int)
  | arr (items : List Obj)
  /-- an object with a `signature` attribute `(fl, s)` and attributes `attrs`;
  `wrapped`: seen through a `FlippedInterface` proxy -/
  | iface (wrapped : Bool) (fl : Bool) (s : Sig) (attrs : List (String × Obj))
  | junk
deriving Inhabited

inductive GetErr | noAttr | typeErr
deriving DecidableEq, Repr

/-- `flipped(obj)` -/
def Obj.flipped : Obj → Except GetErr Obj
  | .iface w fl s a => .ok (.iface (!w) fl s a)
  | _ => .error .typeErr

/-- repaired F10: `flipped` mapped over (at most) `depth` levels of lists; anything that is not a
list is handed to `flipped` as before -/
def flipDims : Nat → Obj → Except GetErr Obj
  | 0, o => o.flipped
  | k + 1, .arr items => (items.mapM (flipDims k)).map Obj.arr
  | _ + 1, o => o.flipped

/-- `obj.signature` -/
def Obj.signature? : Obj → Option SigV
  | .iface w fl s _ => some (xor w fl, s)
  | _ => none

/-- `getattr(obj, name)`; through the proxy, members that are interfaces come back flipped.
`repaired = false` is the code as it stands (F10): `flipped()` applied to the attribute whatever
its dimensions. -/
def Obj.getattr (repaired : Bool) : Obj → String → Except GetErr Obj
  | .iface w _ s attrs, n =>
    match attrs.lookup n with
    | none => .error .noAttr
    | some v =>
      match s.find? n with
      | some m => if w && m.isIface then (if repaired then flipDims m.dims.length v else v.flipped) else .ok v
      | none => .ok v
  | _, _ => .error .noAttr

def Obj.index : Obj → List Nat → Obj
  | o, [] => o
  | .arr items, i :: ix => (items.getD i .junk).index ix
  | _, _ :: _ => .junk

/-- `create_dimensions` -/
def mkArr : List Nat → Obj → Obj
  | [], leaf => leaf
  | d :: ds, leaf => .arr (List.replicate d (mkArr ds leaf))

mutual
/-- `SignatureMembers.create` on the members of an unflipped signature -/
def Sig.createAttrs : Sig → List (String × Obj)
  | .nil => []
  | .cons n m r => (n, Member.createVal m) :: Sig.createAttrs r
/-- `create_value`: a signal, or `member.signature.create()`; a flipped nested signature gives
`flipped(<object of the unflipped one>)` -/
def Member.createVal : Member → Obj
  | .port _ p d => mkArr d (.signal p.width p.signed p.init)
  | .iface f df s d => mkArr d (.iface (subFlag false f df) false s (Sig.createAttrs s))
end

/-- `Signature.create` / `FlippedSignature.create` -/
def SigV.create (sv : SigV) : Obj := .iface sv.1 false sv.2 sv.2.createAttrs

/-! ## Signature equality (structural; `Signature.__eq__` on anonymous signatures) -/

mutual
/-- canonical proxy-free form of `(fl, s)` -/
def Sig.norm (fl : Bool) : Sig → Sig
  | .nil => .nil
  | .cons n m r => .cons n (Member.norm fl m) (Sig.norm fl r)
def Member.norm (fl : Bool) : Member → Member
  | .port f p d => .port (f.flipIf fl) p d
  | .iface f df s d => .iface (f.flipIf fl) false (Sig.norm df s) d
end

mutual
def Sig.beq : Sig → Sig → Bool
  | .nil, .nil => true
  | .cons n m r, .cons n' m' r' => n == n' && Member.beq m m' && Sig.beq r r'
  | _, _ => false
def Member.beq : Member → Member → Bool
  | .port f p d, .port f' p' d' => f == f' && p == p' && d == d'
  | .iface f df s d, .iface f' df' s' d' => f == f' && df == df' && Sig.beq s s' && d == d'
  | _, _ => false
end

def SigV.eqv (a b : SigV) : Bool := Sig.beq (a.2.norm a.1) (b.2.norm b.1)

/-! ## `Signature.is_compliant` -/

/-- short-circuit conjunction over a list, as the `for ...: if not ...: return False` loops -/
def allM {α ε} (f : α → Except ε Bool) : List α → Except ε Bool
  | [] => .ok true
  | x :: xs => match f x with
    | .error e => .error e
    | .ok false => .ok false
    | .ok true => allM f xs

/-- `check_dimensions` -/
def checkDims (chk : Obj → Except GetErr Bool) : List Nat → Obj → Except GetErr Bool
  | [], v => chk v
  | d :: ds, .arr items => if items.length != d then .ok false else allM (checkDims chk ds) items
  | _ :: _, _ => .ok false

/-- `check_attr_value` for a port member -/
def portOk (p : PortD) : Obj → Bool
  | .signal w sg init => w == p.width && sg == p.signed && init == p.init
  | .const w sg _ => w == p.width && sg == p.signed
  | _ => false

mutual
/-- the loop over `self.members.items()` of `is_compliant` (with `reasons=None`) -/
def Sig.compliantMembers (rep : Bool) (fl : Bool) (o : Obj) : Sig → Except GetErr Bool
  | .nil => .ok true
  | .cons n m r =>
    match o.getattr rep n with
    | .error .noAttr => .ok false
    | .error .typeErr => .error .typeErr
    | .ok v =>
      match Member.compliantVal rep fl m v with
      | .error e => .error e
      | .ok false => .ok false
      | .ok true => Sig.compliantMembers rep fl o r
def Member.compliantVal (rep : Bool) (fl : Bool) : Member → Obj → Except GetErr Bool
  | .port _ p d, v => checkDims (fun x => .ok (portOk p x)) d v
  | .iface f df s d, v =>
    checkDims (fun x =>
      match x.signature? with
      | none => .ok false
      | some sv => if !SigV.eqv (subFlag fl f df, s) sv then .ok false
                   else Sig.compliantMembers rep (subFlag fl f df) x s) d v
end

def SigV.isCompliantG (rep : Bool) (sv : SigV) (o : Obj) : Except GetErr Bool :=
  match o.signature? with
  | none => .ok false
  | some sv' => if !SigV.eqv sv sv' then .ok false else Sig.compliantMembers rep sv.1 o sv.2

/-- repaired behaviour -/
def SigV.isCompliant (sv : SigV) (o : Obj) : Except GetErr Bool := sv.isCompliantG true o
/-- the code as it stands (F10) -/
def SigV.isCompliantOld (sv : SigV) (o : Obj) : Except GetErr Bool := sv.isCompliantG false o

/-! ## `connect` -/

inductive ConnErr
  | missing | kind | width | init | several | constVarying | constMismatch | onlyInputs
  /-- `assert out_member.dimensions == in_member.dimensions` (AssertionError, not ConnectionError) -/
  | dims
deriving DecidableEq, Repr

/-- one argument of `connect`: its handle, its signature, and which leaves are constants -/
structure Arg where
  handle : Nat
  sv : SigV
  consts : List (Path × Int)

/-- what `connect` sees of one argument: handle, `signature.members.flatten()`, constant leaves -/
structure Part where
  handle : Nat
  members : List Entry
  consts : List (Path × Int)
deriving DecidableEq

def Part.constAt (a : Part) (p : Path) : Option Int := a.consts.lookup p

/-- `signature.members.flatten()` -/
def Arg.view (a : Arg) : List Entry := a.sv.2.entries a.sv.1 []

def Arg.toPart (a : Arg) : Part := ⟨a.handle, a.view, a.consts⟩

def entryLe (a b : Entry) : Bool := (compare a.path b.path).isLE

/-- `sorted(signature.members.flatten())` (paths are unique, so members are never compared) -/
def sortEntries (l : List Entry) : List Entry := l.mergeSort entryLe

/-- a connection `input.eq(output)`; a leaf port is (handle, indexed path) -/
abbrev Conn := (Nat × Path) × (Nat × Path)   -- (input, output)

structure St where
  conns : List Conn
  anyIn : Bool
  anyOut : Bool

abbrev RowItem := Part × Entry

def isOutE (x : RowItem) : Bool := match x.2.view with | .port .out _ => true | _ => false
def isInE (x : RowItem) : Bool := match x.2.view with | .port .in _ => true | _ => false
def isIfaceE (x : RowItem) : Bool := match x.2.view with | .iface => true | _ => false
def widthE (x : RowItem) : Nat := match x.2.view with | .port _ p => p.width | _ => 0
def initE (x : RowItem) : Int := match x.2.view with | .port _ p => p.init | _ => 0

/-- `connect_value` for one pair of indexed leaves -/
def connectValue (i o : Part) (p : Path) : Except ConnErr (List Conn) :=
  match i.constAt p with
  | some ci =>
    match o.constAt p with
    | none => .error .constVarying
    | some co => if ci != co then .error .constMismatch else .ok []
  | none => .ok [((i.handle, p), (o.handle, p))]

def concatM {α β ε} (f : α → Except ε (List β)) : List α → Except ε (List β)
  | [] => .ok []
  | x :: xs => match f x with
    | .error e => .error e
    | .ok r => match concatM f xs with
      | .error e => .error e
      | .ok rs => .ok (r ++ rs)

/-- the shape/init check of the loop over `in_kind + out_kind`: first against every other -/
def checkShapes (first : RowItem) : List RowItem → Except ConnErr Unit
  | [] => .ok ()
  | x :: xs =>
    if widthE first != widthE x then .error .width
    else if initE first != initE x then .error .init
    else checkShapes first xs

def checkShapesAll : List RowItem → Except ConnErr Unit
  | [] => .ok ()
  | f :: rest => checkShapes f rest

/-- connect one input member to the output member, leaf by leaf -/
def connectIn (o : RowItem) (i : RowItem) : Except ConnErr (List Conn) :=
  if i.2.segs != o.2.segs then .error .dims
  else concatM (connectValue i.1 o.1) (expand o.2.segs)

/-- the body of the `while` loop after the heads have been collected -/
def processRow (row : List RowItem) : Except ConnErr (List Conn × Bool × Bool) :=
  let sigs := row.filter isIfaceE
  let ins := row.filter isInE
  let outs := row.filter isOutE
  if !sigs.isEmpty && !(ins ++ outs).isEmpty then .error .kind
  else if !sigs.isEmpty then .ok ([], false, false)
  else
    match checkShapesAll (ins ++ outs) with
    | .error e => .error e
    | .ok () =>
      match outs with
      | [] => .ok ([], !ins.isEmpty, false)
      | [o] =>
        match concatM (connectIn o) ins with
        | .error e => .error e
        | .ok cs => .ok (cs, !ins.isEmpty, true)
      | _ :: _ :: _ => .error .several

/-- the next member of every other argument must have the path of the first argument's -/
def popHeads (path : List String) : List (Part × List Entry) →
    Except ConnErr (List RowItem × List (Part × List Entry))
  | [] => .ok ([], [])
  | (a, l) :: cs =>
    match l with
    | [] => .error .missing
    | e :: l' =>
      if e.path != path then .error .missing
      else match popHeads path cs with
        | .error e => .error e
        | .ok (hs, ts) => .ok ((a, e) :: hs, (a, l') :: ts)

/-- the `while True` loop; the first argument's list drives it -/
def walk (a0 : Part) : List Entry → List (Part × List Entry) → St → Except ConnErr St
  | [], others, st => if others.all (·.2.isEmpty) then .ok st else .error .missing
  | e :: es, others, st =>
    match popHeads e.path others with
    | .error err => .error err
    | .ok (hs, ts) =>
      match processRow ((a0, e) :: hs) with
      | .error err => .error err
      | .ok (cs, i, o) => walk a0 es ts ⟨st.conns ++ cs, st.anyIn || i, st.anyOut || o⟩

def connectParts (parts : List Part) : Except ConnErr (List Conn) :=
  match parts with
  | [] => .ok []
  | [_] => .ok []
  | a0 :: others =>
    match walk a0 (sortEntries a0.members) (others.map fun a => (a, sortEntries a.members)) ⟨[], false, false⟩ with
    | .error e => .error e
    | .ok st => if st.conns.isEmpty && st.anyIn && !st.anyOut then .error .onlyInputs else .ok st.conns

def connect (args : List Arg) : Except ConnErr (List Conn) := connectParts (args.map Arg.toPart)

/-! ## Component metadata (`ComponentMetadata.as_json`): the port records, in document order -/

structure PortRec where
  name : String
  dir : Flow
  width : Nat
  signed : Bool
  init : Int
deriving DecidableEq, Repr

def pathName (p : Path) : String :=
  "__".intercalate (p.map fun | .name s => s | .idx n => toString n)

def SigV.metadata (sv : SigV) : List PortRec :=
  sv.flatten.map fun (p, l) => ⟨pathName p, l.flow, l.port.width, l.port.signed, l.port.init⟩

end Amaranth.Wiring
