/-!
# Model of `amaranth.build.res.ResourceManager` and `amaranth.build.dsl`

Follows the code mechanism by mechanism:

* `Connector.pairs` / `connPins` — `Connector.__init__`, `Connector.__iter__`, `add_connectors` (the flat
  `_conn_pins` dictionary of *strings*; connector-relative names are `"<name>_<number>:<pin>"`);
* `mapName` / `mapNames` — `Pins.map_names` (`while ":" in name: name = mapping[name]`), with fuel;
* `Node.plan` — `merge_options` (the option validation pass over the whole tree, before any pin is
  recorded) together with the path / attribute plumbing of `resolve`;
* `recordPinsL`, `resolveLeafL`, `resolveAllL`, `requestLeaky` — `resolve` and `request` exactly as the
  code runs them: `_phys_reqd`, `_io_clocks` and `_pins` are updated *incrementally*, so an exception
  leaves the entries made so far behind (finding F7);
* `request` — the *repaired* behaviour: same outcome, but a refused request returns no new state;
* `constraintBits` — `Platform.iter_port_constraints_bits`.

Core Lean only (this file is compiled into the native driver `amodel_c19`).
-/

namespace Amaranth.Res

/-- error kinds (Python exception classes) -/
inductive Err
  | resource   -- ResourceError
  | name       -- NameError   (nonexistent connector pin)
  | type       -- TypeError
  | value      -- ValueError
  | index      -- IndexError  (a (sub)signal without any I/O constraint)
  | runtime    -- RuntimeError (only in the un-repaired attribute resolution, finding F14)
  | fuel       -- the model ran out of fuel chasing a connector chain (real code: does not terminate)
deriving DecidableEq, Repr, Inhabited

/-- declared direction of `Pins` / `DiffPairs` -/
inductive Dir | i | o | oe | io
deriving DecidableEq, Repr, Inhabited

/-- a direction asked for in a request: a declared one, `"-"`, or anything else -/
inductive RDir
  | dir (d : Dir)
  | dash
  | bad
deriving DecidableEq, Repr, Inhabited

/-- `lib.io.Direction` of the returned port -/
inductive PortDir | input | output | bidir
deriving DecidableEq, Repr, Inhabited

/-- `direction = "o" if phys.dir == "oe" else phys.dir` -/
def Dir.port : Dir → PortDir
  | .i => .input | .o => .output | .oe => .output | .io => .bidir

/-! ## Connectors and name resolution -/

/-- the `io` argument of `Connector`: a dictionary, or a whitespace separated string (numbered from 1,
`-` skipped) -/
inductive ConnIO
  | dict (kvs : List (String × String))
  | seq (toks : List String)
deriving Repr, Inhabited

structure Connector where
  name : String
  number : String
  io : ConnIO
  conn : Option (String × String)
deriving Repr, Inhabited

def ConnIO.mapping : ConnIO → List (String × String)
  | .dict kvs => kvs
  | .seq toks => (toks.zipIdx 1).filterMap fun (t, i) => if t == "-" then none else some (toString i, t)

def connPrefix (name number : String) : String := name ++ "_" ++ number ++ ":"

/-- `Connector.__init__` (prefixing by the connector's own connector) followed by `__iter__` -/
def Connector.pairs (c : Connector) : List (String × String) :=
  c.io.mapping.map fun (k, v) =>
    (connPrefix c.name c.number ++ k,
     match c.conn with
     | none => v
     | some (cn, cnum) => connPrefix cn cnum ++ v)

/-- `ResourceManager._conn_pins` -/
def connPins (cs : List Connector) : List (String × String) := cs.flatMap Connector.pairs

def hasColon (s : String) : Bool := s.toList.any (· == ':')

/-- `while ":" in name: name = mapping[name]` (NameError if absent), with fuel -/
def mapName (m : List (String × String)) : Nat → String → Except Err String
  | 0, name => if hasColon name then .error .fuel else .ok name
  | f + 1, name =>
    if hasColon name then
      match m.lookup name with
      | none => .error .name
      | some v => mapName m f v
    else .ok name

def mapNames (m : List (String × String)) (fuel : Nat) : List String → Except Err (List String)
  | [] => .ok []
  | x :: xs =>
    match mapName m fuel x with
    | .error e => .error e
    | .ok y =>
      match mapNames m fuel xs with
      | .error e => .error e
      | .ok ys => .ok (y :: ys)

/-! ## Resource descriptions -/

/-- `Pins(names, conn=…)`: `names` as written; `full` is what the constructor stores -/
structure PinsDecl where
  names : List String
  conn : Option (String × String)
deriving Repr, Inhabited

def PinsDecl.full (p : PinsDecl) : List String :=
  match p.conn with
  | none => p.names
  | some (c, n) => p.names.map fun x => connPrefix c n ++ x

inductive Phys
  | single (p : PinsDecl)
  | diff (p n : PinsDecl)
deriving Repr, Inhabited

/-- declared attributes; `none` is a Python `None` value (or a callable returning `None`) -/
abbrev AttrsDecl := List (String × Option String)
abbrev Attrs := List (String × String)

/-- `{**attrs, **sub.attrs}`: an existing key keeps its position and takes the new value -/
def attrsSet (d : List (String × Option String)) (k : String) (v : Option String) : List (String × Option String) :=
  if d.any (·.1 == k) then d.map fun kv => if kv.1 == k then (k, v) else kv else d ++ [(k, v)]

def attrsUpdate (d : List (String × Option String)) (a : AttrsDecl) : List (String × Option String) :=
  a.foldl (fun acc kv => attrsSet acc kv.1 kv.2) d

/-- the loop at the head of `resolve`, repaired: `None`-valued attributes are dropped -/
def attrsResolve (inh : Attrs) (a : AttrsDecl) : Attrs :=
  (attrsUpdate (inh.map fun kv => (kv.1, some kv.2)) a).filterMap fun kv =>
    match kv.2 with
    | some v => some (kv.1, v)
    | none => none

/-- the loop as it is in the code (finding F14): deleting while iterating raises RuntimeError unless the
deleted key is the last one -/
def attrsResolveOld (inh : Attrs) (a : AttrsDecl) : Except Err Attrs :=
  let d := attrsUpdate (inh.map fun kv => (kv.1, some kv.2)) a
  let rec go : List (String × Option String) → Bool
    | [] => true
    | [_] => true
    | kv :: rest => kv.2.isSome && go rest
  if go d then .ok (attrsResolve inh a) else .error .runtime

/-- `Subsignal`: either one `Pins`/`DiffPairs` (with an optional clock, period in femtoseconds) or nested
sub-signals -/
inductive Node
  | leaf (name : String) (attrs : AttrsDecl) (phys : Phys) (dir : Dir) (invert : Bool) (clock : Option Nat)
  | group (name : String) (attrs : AttrsDecl) (subs : List Node)
deriving Repr, Inhabited

def Node.name : Node → String
  | .leaf n .. => n
  | .group n .. => n

/-- `Resource(name, number, …)`; `body.name` is the resource name -/
structure Resource where
  number : Int
  body : Node
deriving Repr, Inhabited

abbrev Key := String × Int

def Resource.key (r : Resource) : Key := (r.body.name, r.number)

structure Table where
  resources : List Resource
  connectors : List Connector
deriving Repr, Inhabited

def Table.mapping (t : Table) : List (String × String) := connPins t.connectors
/-- enough for every acyclic connector table (`C19.map_names_terminates`) -/
def Table.fuel (t : Table) : Nat := t.connectors.length + 1

def Table.lookup (t : Table) (k : Key) : Option Resource := t.resources.find? fun r => r.key == k

/-- what a leaf declares, with the path and the inherited, resolved attributes `resolve` reaches it with -/
structure LeafDecl where
  path : List String
  attrs : Attrs
  phys : Phys
  dir : Dir
  invert : Bool
  clock : Option Nat
deriving Repr, Inhabited

mutual
/-- the leaves of a (sub)signal in the order `resolve` visits them (depth first, declared order) -/
def Node.leaves (path : List String) (inh : Attrs) : Node → List LeafDecl
  | .leaf _ a ph d inv ck => [⟨path, attrsResolve inh a, ph, d, inv, ck⟩]
  | .group _ a subs => leavesList path (attrsResolve inh a) subs
def leavesList (path : List String) (inh : Attrs) : List Node → List LeafDecl
  | [] => []
  | n :: ns => n.leaves (path ++ [n.name]) inh ++ leavesList path inh ns
end

def Resource.rootPath (r : Resource) : List String := [r.body.name ++ "_" ++ toString r.number]
def Resource.leaves (r : Resource) : List LeafDecl := r.body.leaves r.rootPath []

/-! ## Request options -/

/-- a `dir=` / `xdr=` argument: `None`, a scalar, or a dictionary keyed by sub-signal name -/
inductive Opt (α : Type)
  | none
  | val (a : α)
  | dict (kvs : List (String × Opt α))
deriving Inhabited

/-- `d.get(name, None)` -/
def Opt.get {α : Type} : Opt α → String → Opt α
  | .dict kvs, k => match kvs.lookup k with
    | some v => v
    | Option.none => .none
  | _, _ => .none

/-- an `xdr` scalar: `some n` an `int`, `none` anything else -/
abbrev XdrV := Option Int

/-- a leaf together with the direction and data rate `merge_options` settled on -/
structure Planned where
  leaf : LeafDecl
  rdir : RDir
  xdr : Nat
deriving Repr, Inhabited

/-- the leaf case of `merge_options` -/
def mergeLeaf (d : Dir) (dir : Opt RDir) (xdr : Opt XdrV) : Except Err (RDir × Nat) :=
  let rd : RDir := match dir with
    | .none => .dir d
    | .val r => r
    | .dict _ => .bad
  if rd = .bad then .error .type
  else if rd ≠ .dir d ∧ ¬ (d = .io ∨ rd = .dash) then .error .value
  else match xdr with
    | .none => .ok (rd, 0)
    | .val (some n) => if n < 0 then .error .value else .ok (rd, n.toNat)
    | _ => .error .value

/-- the head of the sub-signal case of `merge_options`: `(orig_dir == "-", dir dict, xdr dict)` -/
def mergeGroupHead (dir : Opt RDir) (xdr : Opt XdrV) : Except Err (Bool × Opt RDir × Opt XdrV) :=
  let d : Except Err (Bool × Opt RDir) := match dir with
    | .none => .ok (false, .dict [])
    | .val .dash => .ok (true, .dict [])
    | .val _ => .error .type
    | .dict kvs => .ok (false, .dict kvs)
  match d with
  | .error e => .error e
  | .ok (dash, dd) =>
    match xdr with
    | .none => .ok (dash, dd, .dict [])
    | .val _ => .error .type
    | .dict kvs => .ok (dash, dd, .dict kvs)

mutual
/-- `merge_options` over the whole tree (all option errors are raised before `resolve` starts), producing
the leaves in visiting order with their settled options -/
def Node.plan (path : List String) (inh : Attrs) : Node → Opt RDir → Opt XdrV → Except Err (List Planned)
  | .leaf _ a ph d inv ck, dir, xdr =>
    match mergeLeaf d dir xdr with
    | .error e => .error e
    | .ok (rd, x) => .ok [⟨⟨path, attrsResolve inh a, ph, d, inv, ck⟩, rd, x⟩]
  | .group _ _ [], _, _ => .error .index
  | .group _ a (s :: ss), dir, xdr =>
    match mergeGroupHead dir xdr with
    | .error e => .error e
    | .ok (dash, dd, xd) => planList path (attrsResolve inh a) dash dd xd (s :: ss)
def planList (path : List String) (inh : Attrs) (dash : Bool) (dd : Opt RDir) (xd : Opt XdrV) :
    List Node → Except Err (List Planned)
  | [] => .ok []
  | n :: ns =>
    match n.plan (path ++ [n.name]) inh (if dash then .val .dash else dd.get n.name) (xd.get n.name) with
    | .error e => .error e
    | .ok a =>
      match planList path inh dash dd xd ns with
      | .error e => .error e
      | .ok b => .ok (a ++ b)
end

def Resource.plan (r : Resource) (dir : Opt RDir) (xdr : Opt XdrV) : Except Err (List Planned) :=
  r.body.plan r.rootPath [] dir xdr

/-! ## Granted ports and the manager's state -/

/-- an `IOPort` with its per-bit `PortMetadata` (pin name; the attributes are the same for every bit) -/
structure IOPortM where
  name : String
  pins : List String
  attrs : Attrs
deriving Repr, Inhabited, DecidableEq

inductive PortM
  | single (io : IOPortM)
  | diff (p n : IOPortM)
deriving Repr, Inhabited, DecidableEq

def PortM.ios : PortM → List IOPortM
  | .single io => [io]
  | .diff p n => [p, n]

/-- the physical pins of a port in the order `resolve` checks them (`phys_names_p + phys_names_n`) -/
def PortM.pins (p : PortM) : List String := p.ios.flatMap (·.pins)

/-- what `resolve` returns for one leaf: the port; and, unless `dir="-"`, the `Pin` (direction, xdr) -/
structure LeafGrant where
  path : List String
  port : PortM
  invert : Bool
  direction : PortDir
  pin : Option (Dir × Nat)
deriving Repr, Inhabited, DecidableEq

def grantPins (gs : List LeafGrant) : List String := gs.flatMap (·.port.pins)

structure State where
  /-- `_requested` (keys, in order of grant) -/
  requested : List Key
  /-- `_phys_reqd`: physical pin ↦ path of the component that owns it -/
  physReqd : List (String × List String)
  /-- `_pins` (what `iter_pins` yields) -/
  pins : List LeafGrant
  /-- `_io_clocks`: port name ↦ period in femtoseconds -/
  ioClocks : List (String × Nat)
deriving Repr, Inhabited, DecidableEq

def State.init : State := ⟨[], [], [], []⟩
def State.physPins (s : State) : List String := s.physReqd.map (·.1)

/-- `for phys_name in phys_names: if phys_name in self._phys_reqd: raise …; self._phys_reqd[phys_name] = path`
— returns the table as it is when the loop ends *or raises* -/
def recordPinsL (path : List String) : List (String × List String) → List String →
    List (String × List String) × Except Err Unit
  | reqd, [] => (reqd, .ok ())
  | reqd, x :: xs =>
    if x ∈ reqd.map (·.1) then (reqd, .error .resource)
    else recordPinsL path (reqd ++ [(x, path)]) xs

def addClock (s : State) (port : String) : Option Nat → State
  | none => s
  | some p => { s with ioClocks := s.ioClocks ++ [(port, p)] }

def portBase (path : List String) : String := "__".intercalate path

/-- the `IOPort`s and the port object the leaf case of `resolve` builds (NameError when a connector pin does
not exist) — this part does not depend on the manager's state -/
def plannedPortE (m : List (String × String)) (fuel : Nat) (pl : Planned) : Except Err PortM :=
  match pl.leaf.phys with
  | .single p =>
    match mapNames m fuel p.full with
    | .error e => .error e
    | .ok names => .ok (.single ⟨portBase pl.leaf.path ++ "__io", names, pl.leaf.attrs⟩)
  | .diff p n =>
    match mapNames m fuel p.full with
    | .error e => .error e
    | .ok np =>
      match mapNames m fuel n.full with
      | .error e => .error e
      | .ok nn => .ok (.diff ⟨portBase pl.leaf.path ++ "__p", np, pl.leaf.attrs⟩
                             ⟨portBase pl.leaf.path ++ "__n", nn, pl.leaf.attrs⟩)

/-- the `IOPort` a clock constraint is attached to (`iop`, resp. `p`) -/
def PortM.clockName : PortM → String
  | .single io => io.name
  | .diff p _ => p.name

/-- what `resolve` returns for a leaf once everything went well -/
def grantOf (pl : Planned) (port : PortM) : LeafGrant :=
  ⟨pl.leaf.path, port, pl.leaf.invert, pl.leaf.dir.port,
   match pl.rdir with
   | .dir d => some (d, pl.xdr)
   | _ => none⟩

/-- the tail of the leaf case of `resolve`: pin check-and-record loop, then the `Pin`/`PinBuffer` for a
request that is not `dir="-"` -/
def finishLeafL (s : State) (pl : Planned) (port : PortM) : State × Except Err LeafGrant :=
  let (reqd, r) := recordPinsL pl.leaf.path s.physReqd port.pins
  let s2 := { s with physReqd := reqd }
  match r with
  | .error e => (s2, .error e)
  | .ok () =>
    match pl.rdir with
    | .dash => (s2, .ok (grantOf pl port))
    | .bad => (s2, .error .type)
    | .dir _ =>
      if pl.xdr > 2 then (s2, .error .value)       -- `PinBuffer.__init__`
      else ({ s2 with pins := s2.pins ++ [grantOf pl port] }, .ok (grantOf pl port))

/-- the leaf case of `resolve` as the code runs it (state updated as it goes): names are mapped, the clock
constraint is recorded, then the pins are checked and recorded one by one -/
def resolveLeafL (m : List (String × String)) (fuel : Nat) (s : State) (pl : Planned) :
    State × Except Err LeafGrant :=
  match plannedPortE m fuel pl with
  | .error e => (s, .error e)
  | .ok port => finishLeafL (addClock s port.clockName pl.leaf.clock) pl port

def resolveAllL (m : List (String × String)) (fuel : Nat) : State → List Planned →
    State × Except Err (List LeafGrant)
  | s, [] => (s, .ok [])
  | s, p :: ps =>
    match resolveLeafL m fuel s p with
    | (s1, .error e) => (s1, .error e)
    | (s1, .ok g) =>
      match resolveAllL m fuel s1 ps with
      | (s2, .error e) => (s2, .error e)
      | (s2, .ok gs) => (s2, .ok (g :: gs))

structure Req where
  key : Key
  dir : Opt RDir
  xdr : Opt XdrV
deriving Inhabited

/-- `ResourceManager.request` as it is in the code: the state it leaves behind, and the outcome -/
def requestLeaky (t : Table) (s : State) (r : Req) : State × Except Err (List LeafGrant) :=
  match t.lookup r.key with
  | none => (s, .error .resource)
  | some res =>
    if r.key ∈ s.requested then (s, .error .resource)
    else
      match res.plan r.dir r.xdr with
      | .error e => (s, .error e)
      | .ok pls =>
        match resolveAllL t.mapping t.fuel s pls with
        | (s', .error e) => (s', .error e)
        | (s', .ok gs) => ({ s' with requested := s'.requested ++ [r.key] }, .ok gs)

/-- the repaired `request`: the same outcome; a refusal yields no new state -/
def request (t : Table) (s : State) (r : Req) : Except Err (State × List LeafGrant) :=
  match requestLeaky t s r with
  | (s', .ok gs) => .ok (s', gs)
  | (_, .error e) => .error e

inductive Outcome
  | granted (gs : List LeafGrant)
  | refused (e : Err)
deriving Repr, Inhabited, DecidableEq

def Outcome.pins : Outcome → List String
  | .granted gs => grantPins gs
  | .refused _ => []

/-- one request of a history (repaired): a refused request leaves the state as it was -/
def step (t : Table) (s : State) (r : Req) : State × Outcome :=
  match request t s r with
  | .ok (s', gs) => (s', .granted gs)
  | .error e => (s, .refused e)

def stepLeaky (t : Table) (s : State) (r : Req) : State × Outcome :=
  match requestLeaky t s r with
  | (s', .ok gs) => (s', .granted gs)
  | (s', .error e) => (s', .refused e)

def run (t : Table) : State → List Req → State × List Outcome
  | s, [] => (s, [])
  | s, r :: rs =>
    let (s1, o) := step t s r
    let (s2, os) := run t s1 rs
    (s2, o :: os)

def runLeaky (t : Table) : State → List Req → State × List Outcome
  | s, [] => (s, [])
  | s, r :: rs =>
    let (s1, o) := stepLeaky t s r
    let (s2, os) := runLeaky t s1 rs
    (s2, o :: os)

/-! ## The request as the specification sees it -/

/-- the physical pins a request asks for, when it is well formed on its own (the resource exists, the
options are accepted, every name resolves, every data rate is supported) — independent of the state -/
def plannedRateOk (pl : Planned) : Bool :=
  match pl.rdir with
  | .dash => true
  | .dir _ => pl.xdr ≤ 2
  | .bad => false

def wantedOfPlan (m : List (String × String)) (fuel : Nat) : List Planned → Option (List String)
  | [] => some []
  | pl :: pls =>
    match plannedPortE m fuel pl, wantedOfPlan m fuel pls with
    | .ok port, some rest => if plannedRateOk pl then some (port.pins ++ rest) else none
    | _, _ => none

def wanted (t : Table) (r : Req) : Option (List String) :=
  match t.lookup r.key with
  | none => none
  | some res =>
    match res.plan r.dir r.xdr with
    | .error _ => none
    | .ok pls => wantedOfPlan t.mapping t.fuel pls

/-! ## Constraint iteration -/

/-- `Platform.iter_port_constraints_bits` for one top-level port: `(port bit name, pin)` -/
def constraintBitsOf (io : IOPortM) : List (String × String) :=
  match io.pins with
  | [p] => [(io.name, p)]
  | ps => ps.zipIdx.map fun (p, i) => (io.name ++ "[" ++ toString i ++ "]", p)

def constraintBits (ios : List IOPortM) : List (String × String) := ios.flatMap constraintBitsOf

def grantPorts (gs : List LeafGrant) : List IOPortM := gs.flatMap (·.port.ios)

end Amaranth.Res
