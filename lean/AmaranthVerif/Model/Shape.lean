/-!
# Shapes, Python integer primitives, normalisation

Core Lean only (no Mathlib): this file is also compiled into the native model driver.

`Shape` follows `amaranth.hdl._ast.Shape`; `mask`/`norm` follow the `mask`/`sign` helpers of
`amaranth.sim._pyrtl._RHSValueCompiler`; `pyAnd`/`pyOr`/`pyXor` are Python's `& | ^` on unbounded
two's-complement integers (differentially tested against CPython by the harness on every run).
-/

namespace Amaranth

structure Shape where
  width  : Nat
  signed : Bool
deriving DecidableEq, Repr, Inhabited

namespace Shape

def u (w : Nat) : Shape := ⟨w, false⟩
def s (w : Nat) : Shape := ⟨w, true⟩

/-- `Shape.__init__` rejects signed shapes of width 0. -/
def WF (s : Shape) : Prop := s.signed = true → 0 < s.width

instance (s : Shape) : Decidable s.WF := by unfold WF; exact inferInstance

/-- smallest representable value -/
def lo (s : Shape) : Int := if s.signed then -(2 ^ (s.width - 1) : Int) else 0
/-- one past the largest representable value -/
def hi (s : Shape) : Int := if s.signed then (2 ^ (s.width - 1) : Int) else 2 ^ s.width

/-- the shape can represent `v` -/
def contains (s : Shape) (v : Int) : Prop := s.lo ≤ v ∧ v < s.hi

instance (s : Shape) (v : Int) : Decidable (s.contains v) := by unfold contains; exact inferInstance

/-- `Shape._unify` on two shapes (it is the join of a lattice, so the n-ary version is a fold). -/
def unify (a b : Shape) : Shape :=
  if a.signed || b.signed then
    ⟨max (if a.signed then a.width else a.width + 1) (if b.signed then b.width else b.width + 1), true⟩
  else ⟨max a.width b.width, false⟩

end Shape

/-- Python `v & ((1 << w) - 1)` for any integer `v`. -/
def mask (w : Nat) (v : Int) : Int := v % (2 ^ w : Int)

/-- `sign(mask & v, -1 << (w-1))` for signed shapes, `mask & v` for unsigned ones: the representative
of `v` modulo `2^w` inside the shape. -/
def norm (s : Shape) (v : Int) : Int :=
  let m := mask s.width v
  if s.signed then (if m ≥ 2 ^ (s.width - 1) then m - 2 ^ s.width else m) else m

/-- Python `a & b` on unbounded integers. -/
def pyAnd : Int → Int → Int
  | .ofNat m,   .ofNat n   => ((m &&& n : Nat) : Int)
  | .ofNat m,   .negSucc n => ((m - (m &&& n) : Nat) : Int)
  | .negSucc m, .ofNat n   => ((n - (n &&& m) : Nat) : Int)
  | .negSucc m, .negSucc n => .negSucc (m ||| n)

/-- Python `a | b` on unbounded integers. -/
def pyOr : Int → Int → Int
  | .ofNat m,   .ofNat n   => ((m ||| n : Nat) : Int)
  | .ofNat m,   .negSucc n => .negSucc (n - (n &&& m))
  | .negSucc m, .ofNat n   => .negSucc (m - (m &&& n))
  | .negSucc m, .negSucc n => .negSucc (m &&& n)

/-- Python `a ^ b` on unbounded integers. -/
def pyXor : Int → Int → Int
  | .ofNat m,   .ofNat n   => ((m ^^^ n : Nat) : Int)
  | .ofNat m,   .negSucc n => .negSucc (m ^^^ n)
  | .negSucc m, .ofNat n   => .negSucc (m ^^^ n)
  | .negSucc m, .negSucc n => ((m ^^^ n : Nat) : Int)

/-- Python `~a`. -/
def pyNot (a : Int) : Int := -a - 1

/-- Python `a >> n` for `n ≥ 0` (floor). -/
def pyShr (a : Int) (n : Nat) : Int := a / (2 ^ n : Int)

/-- Python `a << n` for `n ≥ 0`. -/
def pyShl (a : Int) (n : Nat) : Int := a * (2 ^ n : Int)

/-- Python `int(b)` -/
def b2i (b : Bool) : Int := if b then 1 else 0

/-- number of one bits among the low `w` bits of `n` (`format(n, 'b').count('1')` when `n < 2^w`). -/
def popcount : Nat → Nat → Nat
  | 0,     _ => 0
  | w + 1, n => n % 2 + popcount w (n / 2)

/-- `amaranth.utils.ceil_log2` for `n ≥ 0`: `(n - 1).bit_length()`, and 0 for 0. -/
def bitLength (n : Nat) : Nat := if n = 0 then 0 else Nat.log2 n + 1

def ceilLog2 (n : Nat) : Nat := if n = 0 then 0 else bitLength (n - 1)

/-- `amaranth.utils.bits_for(n, require_sign_bit)`. -/
def bitsFor (n : Int) (requireSign : Bool) : Nat :=
  if n > 0 then
    ceilLog2 (n.toNat + 1) + (if requireSign then 1 else 0)
  else
    ceilLog2 (-n).toNat + 1

end Amaranth
