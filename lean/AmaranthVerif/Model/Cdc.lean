import AmaranthVerif.Spec.Cdc

/-!
# Model of `amaranth/lib/cdc.py`, register by register

Each primitive is a state machine over the events of `Spec/Cdc.lean` (`Ev`); a state holds exactly
the registers that `elaborate` creates, and a step does what the simulator does at that event:

* an output-clock edge runs the `o_domain` statements with the values from before the edge,
* an input-clock edge runs the `i_domain` statements likewise,
* `both` runs both sets of statements on the same pre-edge values (the two clock signals rise in
  one `ctx.set`, both processes are woken in one delta cycle and commit together),
* `set v` changes the input signal (truncated to its width, as `ctx.set` does).

For the private `async_ff` domain of `AsyncFFSynchronizer` (`async_reset=True`) the simulator's
sync process is woken by a rising clock edge *and* by a rising edge of the reset; its body
computes the next values and then overrides them with the reset values while the reset is high
(`sim/_pyrtl.py`, `_FragmentCompiler`).  `asyncWake` is that body.
-/

namespace Amaranth.Cdc.Model

/-- `for i, o in zip((src, *flops), flops): m.d[domain] += o.eq(i)` : every flop takes the value
of its predecessor, the first takes `src`; `zip` stops after `len(flops)` pairs. -/
def shift {α : Type} (src : α) (flops : List α) : List α := (src :: flops).take flops.length

/-- `Signal(shape, init=init)`: the initial value is truncated to the width -/
def signalInit (w : Nat) (init : Int) : Nat := (init % 2 ^ w).toNat

/-! ## FFSynchronizer -/

structure FFState where
  /-- `self.i` -/
  inp : Nat
  /-- `stage0 … stage{n-1}` -/
  flops : List Nat
deriving Repr, DecidableEq

def ffInit (stages w : Nat) (init : Int) (i0 : Nat) : FFState :=
  ⟨i0 % 2 ^ w, List.replicate stages (signalInit w init)⟩

def ffStep (w : Nat) (s : FFState) : Ev → FFState
  | .set v => { s with inp := v % 2 ^ w }
  | .oedge => { s with flops := shift s.inp s.flops }
  | .both => { s with flops := shift s.inp s.flops }
  | .iedge => s

/-- `m.d.comb += self.o.eq(flops[-1])` -/
def FFState.out (s : FFState) : Nat := s.flops.getLast?.getD 0

def ffRun (stages w : Nat) (init : Int) (i0 : Nat) (evs : List Ev) : FFState :=
  evs.foldl (ffStep w) (ffInit stages w init i0)

def ffOut (stages w : Nat) (init : Int) (i0 : Nat) (evs : List Ev) : Nat :=
  (ffRun stages w init i0 evs).out

/-! ## FFSynchronizer: shapes of `i` and `o`, reset of `o_domain`

`flops = [Signal(self.i.shape(), init=self._init, reset_less=self._reset_less) …]`: the stages have
the shape of the input (its width *and* its signedness); `self.o.eq(flops[-1])` is an ordinary
assignment of a `w`-bit right-hand side to a `wo`-bit signal.

`m.d[o_domain] += o.eq(i)` are statements of the output domain.  Its process (`sim/_pyrtl.py`,
`_FragmentCompiler`) computes the next values and then, `if rst:`, replaces the next value of every
driven signal that is not `reset_less` by its `init`.  When the domain has `async_reset=True` a
second process, woken by a rising edge of the reset, loads `init` into the driven signals that are
not `reset_less`. -/

/-- right-hand side of an assignment brought to the width of the left-hand side: a signed operand
is extended with copies of its top bit, an unsigned one with zeros; surplus bits are dropped -/
def extendTo (sg : Bool) (w wo : Nat) (p : Nat) : Nat :=
  (if sg && decide (2 ^ w ≤ 2 * p) then p + (2 ^ max w wo - 2 ^ w) else p) % 2 ^ wo

structure FFRState where
  /-- `self.i` -/
  inp : Nat
  /-- `ResetSignal(o_domain)` -/
  rst : Bool
  /-- `stage0 … stage{n-1}` -/
  flops : List Nat
deriving Repr, DecidableEq

def ffrInit (stages w : Nat) (init : Int) (i0 : Nat) : FFRState :=
  ⟨i0 % 2 ^ w, false, List.replicate stages (signalInit w init)⟩

/-- every stage back at `init` -/
def FFRState.load (w : Nat) (init : Int) (s : FFRState) : FFRState :=
  { s with flops := List.replicate s.flops.length (signalInit w init) }

/-- body of the output domain's process at an active clock edge -/
def ffrClock (w : Nat) (init : Int) (resetLess : Bool) (s : FFRState) : FFRState :=
  if s.rst && !resetLess then s.load w init else { s with flops := shift s.inp s.flops }

def ffrStep (w : Nat) (init : Int) (resetLess asyncDom : Bool) (s : FFRState) : REv → FFRState
  | .ev (.set v) => { s with inp := v % 2 ^ w }
  | .ev .iedge => s
  | .ev .oedge => ffrClock w init resetLess s
  | .ev .both => ffrClock w init resetLess s
  | .rst v =>
    let s' := { s with rst := level v }
    -- the reset process of an `async_reset=True` domain: rising edge of the reset
    if asyncDom && !s.rst && level v && !resetLess then s'.load w init else s'

/-- `flops[-1]` -/
def FFRState.last (s : FFRState) : Nat := s.flops.getLast?.getD 0

def ffrRun (stages w : Nat) (init : Int) (resetLess asyncDom : Bool) (i0 : Nat)
    (evs : List REv) : FFRState :=
  evs.foldl (ffrStep w init resetLess asyncDom) (ffrInit stages w init i0)

/-- `m.d.comb += self.o.eq(flops[-1])` with `o` of width `wo` -/
def ffrOut (stages w : Nat) (sg : Bool) (wo : Nat) (init : Int) (resetLess asyncDom : Bool)
    (i0 : Nat) (evs : List REv) : Nat :=
  extendTo sg w wo (ffrRun stages w init resetLess asyncDom i0 evs).last

/-! ## AsyncFFSynchronizer / ResetSynchronizer -/

structure AsyncState where
  /-- `self.i` (one bit) -/
  inp : Bool
  /-- `stage0 … stage{n-1}`, all `init=1`, in the `async_ff` domain -/
  flops : List Bool
deriving Repr, DecidableEq

/-- `ResetSignal("async_ff").eq(self.i)` for `async_edge="pos"`, `.eq(~self.i)` for `"neg"` -/
def asyncRst (pos : Bool) (inp : Bool) : Bool := if pos then inp else !inp

/-- body of the `async_ff` sync process: `stage0 <= 0; stage{k} <= stage{k-1}`, then
`if rst: stage* = 1` -/
def asyncWake (pos : Bool) (s : AsyncState) : AsyncState :=
  if asyncRst pos s.inp then { s with flops := List.replicate s.flops.length true }
  else { s with flops := shift false s.flops }

def asyncStep (pos : Bool) (s : AsyncState) : Ev → AsyncState
  | .set v =>
    let s' := { s with inp := level v }
    -- the process is woken by a rising edge of the asynchronous reset
    if !asyncRst pos s.inp && asyncRst pos s'.inp then asyncWake pos s' else s'
  | .oedge => asyncWake pos s     -- `ClockSignal("async_ff").eq(ClockSignal(o_domain))`
  | .both => asyncWake pos s
  | .iedge => s

def asyncInit (stages : Nat) (i0 : Nat) : AsyncState := ⟨level i0, List.replicate stages true⟩

/-- `self.o.eq(flops[-1])` -/
def AsyncState.out (s : AsyncState) : Bool := s.flops.getLast?.getD false

def asyncRun (stages : Nat) (pos : Bool) (i0 : Nat) (evs : List Ev) : AsyncState :=
  evs.foldl (asyncStep pos) (asyncInit stages i0)

def asyncOut (stages : Nat) (pos : Bool) (i0 : Nat) (evs : List Ev) : Bool :=
  (asyncRun stages pos i0 evs).out

/-! ## PulseSynchronizer -/

structure PulseState where
  /-- `self.i` -/
  inp : Bool
  /-- `i_toggle`, in `i_domain` -/
  itog : Bool
  /-- `stage0 … stage{n-1}` of the inner `FFSynchronizer(i_toggle, o_toggle)` (init 0) -/
  flops : List Bool
  /-- `r_toggle`, in `o_domain` -/
  rtog : Bool
deriving Repr, DecidableEq

/-- `o_toggle` = `flops[-1]` of the inner synchroniser -/
def PulseState.otog (s : PulseState) : Bool := s.flops.getLast?.getD false

/-- `self.o.eq(o_toggle ^ r_toggle)` -/
def PulseState.out (s : PulseState) : Bool := s.otog ^^ s.rtog

def pulseStep (s : PulseState) : Ev → PulseState
  | .set v => { s with inp := level v }
  -- `m.d[i_domain] += i_toggle.eq(i_toggle ^ self.i)`
  | .iedge => { s with itog := s.itog ^^ s.inp }
  -- inner flop chain shifts `i_toggle` in; `m.d[o_domain] += r_toggle.eq(o_toggle)`
  | .oedge => { s with flops := shift s.itog s.flops, rtog := s.otog }
  | .both => { s with itog := s.itog ^^ s.inp, flops := shift s.itog s.flops, rtog := s.otog }

def pulseInit (stages : Nat) : PulseState := ⟨false, false, List.replicate stages false, false⟩

def pulseRun (stages : Nat) (evs : List Ev) : PulseState := evs.foldl pulseStep (pulseInit stages)

def pulseOut (stages : Nat) (evs : List Ev) : Bool := (pulseRun stages evs).out

/-! ## Constructors -/

/-- `_check_stages`: `not isinstance(stages, int) or stages < 1` → `TypeError`; `stages < 2` →
`ValueError`.  `none` stands for a non-`int` argument. -/
def checkStages : Option Int → Ctor
  | none => .typeError
  | some s => if s < 1 then .typeError else if s < 2 then .valueError else .ok

/-- `AsyncFFSynchronizer.__init__`: stages, then `len(i) != 1`, `len(o) != 1`, then the edge name -/
def asyncCtor (stages : Option Int) (wi wo : Nat) (edgeOk : Bool) : Ctor :=
  match checkStages stages with
  | .ok =>
    if wi ≠ 1 then .valueError
    else if wo ≠ 1 then .valueError
    else if !edgeOk then .valueError
    else .ok
  | r => r

/-! ## Elaboration -/

/-- the `RequirePosedge(domain)` fragments that `elaborate` of a primitive leaves in the design,
as the list of booleans "the fragment is present":

* `AsyncFFSynchronizer.elaborate`: `m.submodules += RequirePosedge(self._o_domain)` after the
  `if self._edge == "pos": … else: …`, i.e. for both asynchronous edges;
* `ResetSynchronizer.elaborate` returns `AsyncFFSynchronizer(…, o_domain=self._domain)` with the
  default `async_edge="pos"`;
* `FFSynchronizer.elaborate` adds none; `PulseSynchronizer.elaborate` contains one
  `FFSynchronizer` and adds none itself. -/
def asyncFFRequirements (_asyncEdgePos : Bool) : List Bool := [true]

def ffRequirements : List Bool := []

def posedgeRequirements : Prim → (asyncEdgePos : Bool) → List Bool
  | .asyncFFSync, pos => asyncFFRequirements pos
  | .resetSync, _ => asyncFFRequirements true
  | .ffSync, _ => ffRequirements
  | .pulseSync, _ => ffRequirements

/-- `Design._check_domain_requires`: `DomainRequirementFailed` when a `RequirePosedge` fragment
names a domain with `clk_edge != "pos"` -/
def elaborate (p : Prim) (asyncEdgePos negDomain : Bool) : Elab :=
  if (posedgeRequirements p asyncEdgePos).any (fun present => present && negDomain)
  then .domainRequirementFailed else .ok

end Amaranth.Cdc.Model
