/-!
# Model: the driver tables of `NetlistEmitter` (amaranth/hdl/_ir.py) and of `Module` (_dsl.py)

A design is reduced to its *drives*: "bits `lo..hi-1` of signal `sig` are driven by …"

* `logic m d` — an assignment in domain `d` (0 = comb) inside module `m` (`emit_assign` files it
  under the key `(module_idx, domain)` of `self.drivers[sig]`);
* `inst` / `mem` / `iobuf` — an `Instance` output, the data of a memory read port, the input side of
  an `IOBuffer`: `connect()` is called for them while the fragments are walked;
* `topIn` — a top-level input port: `connect()` in `emit_top_ports`, after `emit_drivers`.

Two tables decide: `driven_bits` in `emit_drivers` (first `(module, domain)` seen per bit; a
different domain, then a different module, raise `DriverConflict`) and `netlist.connections`
in `connect` (a bit that is already connected raises `DriverConflict`). `check` runs them in the
order of the code: walk-time connects, the `driven_bits` table over all logic drives, the connect of
every logic-driven bit (`self.connect(lhs[chunk_start:chunk_end], …)`: each such bit once), the
top-level inputs.

Not modelled, because it cannot change whether a conflict is raised: the order in which
`emit_drivers` visits signals and `(module, domain)` keys (here: list order; `conflict_iff` is
order-free), and the "single driver covers the whole signal" widening (the only `connect` that comes
later is that of a top-level input, which covers the whole signal anyway).

`early` is the opportunistic check of `Module._add_statement`: per module, `_driving[sig][bit]`
remembers the first domain; another domain raises `SyntaxError` at once.
-/

namespace Amaranth.Drivers

inductive Src
  | logic (module domain : Nat)
  | inst
  | mem
  | iobuf
  | topIn
deriving DecidableEq, Repr, Inhabited

structure Drive where
  sig : Nat
  lo : Nat
  hi : Nat
  src : Src
deriving DecidableEq, Repr, Inhabited

inductive Outcome
  | ok
  /-- `DriverConflict` -/
  | conflict
deriving DecidableEq, Repr

/-- `(signal, bit)` -/
abbrev Bit := Nat × Nat

/-- `range(lo, hi)` of the signal -/
def Drive.bits (d : Drive) : List Bit := (List.range' d.lo (d.hi - d.lo)).map fun b => (d.sig, b)

def Src.isLogic : Src → Bool
  | .logic _ _ => true
  | _ => false

/-- connected while the fragments are walked, i.e. before `emit_drivers` -/
def Src.isWalk : Src → Bool
  | .inst | .mem | .iobuf => true
  | _ => false

/-- a first-owner table: `tbl[k]` is set once; a later claim by another owner fails.
`driven_bits` with `k` = bit, owner = `(module, domain)`; `Module._driving` with `k` =
(module, bit), owner = domain. -/
def claim {K O : Type} [DecidableEq K] [DecidableEq O] (o : O) : List (K × O) → List K → Option (List (K × O))
  | tbl, [] => some tbl
  | tbl, k :: ks =>
    match tbl.lookup k with
    | some o' => if o' = o then claim o tbl ks else none
    | none => claim o ((k, o) :: tbl) ks

def claimAll {K O : Type} [DecidableEq K] [DecidableEq O] : List (K × O) → List (O × List K) → Option (List (K × O))
  | tbl, [] => some tbl
  | tbl, (o, ks) :: rest =>
    match claim o tbl ks with
    | none => none
    | some t => claimAll t rest

/-- `connect(lhs, rhs)`: `if left in self.netlist.connections: raise DriverConflict`, bit by bit -/
def connect : List Bit → List Bit → Option (List Bit)
  | conn, [] => some conn
  | conn, b :: bs => if b ∈ conn then none else connect (b :: conn) bs

/-- a logic drive as an entry for `driven_bits` -/
def Drive.item (d : Drive) : (Nat × Nat) × List Bit :=
  match d.src with
  | .logic m dom => ((m, dom), d.bits)
  | _ => ((0, 0), [])

def walkDrives (ds : List Drive) : List Drive := ds.filter fun d => d.src.isWalk
def laterDrives (ds : List Drive) : List Drive := ds.filter fun d => !d.src.isWalk
def logicDrives (ds : List Drive) : List Drive := (laterDrives ds).filter fun d => d.src.isLogic
def topDrives (ds : List Drive) : List Drive := (laterDrives ds).filter fun d => !d.src.isLogic

/-- whole-design check (`emit_fragment` … `emit_drivers` … `emit_top_ports`) -/
def check (ds : List Drive) : Outcome :=
  match connect [] ((walkDrives ds).flatMap Drive.bits) with
  | none => .conflict
  | some conn =>
    match claimAll [] ((logicDrives ds).map Drive.item) with
    | none => .conflict
    | some tbl =>
      match connect conn (tbl.map (·.1) ++ (topDrives ds).flatMap Drive.bits) with
      | none => .conflict
      | some _ => .ok

/-- a logic drive as an entry for `Module._driving`: key (module, signal, bit), owner = domain -/
def Drive.earlyItem (d : Drive) : Nat × List (Nat × Bit) :=
  match d.src with
  | .logic m dom => (dom, d.bits.map fun b => (m, b))
  | _ => (0, [])

/-- `Module._add_statement` refuses some statement with `SyntaxError` -/
def early (ds : List Drive) : Bool :=
  (claimAll [] ((ds.filter fun d => d.src.isLogic).map Drive.earlyItem)).isNone

end Amaranth.Drivers
