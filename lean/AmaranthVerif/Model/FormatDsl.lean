import AmaranthVerif.Model.Dsl
import AmaranthVerif.Spec.Format

/-!
# Lowering of Module-DSL programs that contain Print / Assert / Assume

The same `Module._pop_ctrl` / `Switch.__init__` mechanism as `Model/Dsl.lean` (`ifPattern`, `boolify`,
`catList`, `normUPats` are shared), over `PProg` / `PStmt`: a Print or Property is a statement like
an assignment and ends up inside the `Switch` cases of the blocks that enclose it.
-/

namespace Amaranth
namespace Fmt

mutual
def lowerP (ctx : Ctx) : PProg → PStmt
  | .assign l r => .assign l r
  | .fx l => .fx l
  | .ifs branches els =>
    lowerIfP ctx (catList (ifTestsP ctx branches)) branches.length 0 branches (lowerListP ctx els)
  | .switch test cases => lowerCasesP ctx test cases
def lowerListP (ctx : Ctx) : List PProg → PStmt
  | [] => .skip
  | p :: ps => .seq (lowerP ctx p) (lowerListP ctx ps)
def lowerIfP (ctx : Ctx) (t : Expr) (n : Nat) : Nat → List (Expr × List PProg) → PStmt → PStmt
  | _, [], els => .ite t [Pat.dontCare n] els .skip
  | i, (_, body) :: rest, els =>
    .ite t [ifPattern n i] (lowerListP ctx body) (lowerIfP ctx t n (i + 1) rest els)
def lowerCasesP (ctx : Ctx) (test : Expr) : List (Option (List UPat) × List PProg) → PStmt
  | [] => .skip
  | (none, body) :: rest =>
    .ite test [Pat.dontCare (widthOf ctx test)] (lowerListP ctx body) (lowerCasesP ctx test rest)
  | (some pats, body) :: rest =>
    .ite test (normUPats (shapeOf ctx test) pats) (lowerListP ctx body) (lowerCasesP ctx test rest)
def ifTestsP (ctx : Ctx) : List (Expr × List PProg) → List Expr
  | [] => []
  | (c, _) :: rest => boolify ctx c :: ifTestsP ctx rest
end

end Fmt
end Amaranth
