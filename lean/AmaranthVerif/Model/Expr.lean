import AmaranthVerif.Model.Shape

/-!
# Expression language: syntax, shapes, well-formedness, the two evaluators

* `Expr` is the abstract syntax of `amaranth.hdl._ast` values after construction:
  `Const Signal Operator Slice Part Concat SwitchValue`.
  - `Concat` with n parts is written as right-nested binary `cat lo hi` ending in
    `const 0 (unsigned 0)`.
  - `SwitchValue(test, [(pats₁, v₁), …])` is written as the chain
    `ite test pats₁ v₁ (ite test pats₂ v₂ … (const 0 (unsigned 0)))`; a default case
    (`patterns is None`) is the single all-don't-care pattern.
* `shapeOf` follows `Operator.shape`, `Slice.shape`, `Part.shape`, `Concat.shape`,
  `SwitchValue.shape`.
* `evalRtl` follows `amaranth.sim._pyrtl._RHSValueCompiler` (compiled circuits): the result is an
  un-normalised Python integer; consumers apply `mask` or `sign`.
* `evalTb` follows `amaranth.sim._pyeval.eval_value` (testbench `ctx.get`).
-/

namespace Amaranth

inductive PatBit | zero | one | any
deriving DecidableEq, Repr, Inhabited

/-- A pattern, most significant bit first (as in the pattern strings). -/
abbrev Pat := List PatBit

namespace Pat
/-- `int("".join("0" if b == "-" else "1" for b in pattern), 2)` -/
def maskNat (p : Pat) : Nat := p.foldl (fun acc b => 2 * acc + (if b = .any then 0 else 1)) 0
/-- `int("".join("0" if b == "-" else b for b in pattern), 2)` -/
def valueNat (p : Pat) : Nat := p.foldl (fun acc b => 2 * acc + (if b = .one then 1 else 0)) 0
/-- the all-don't-care pattern: what a default case matches -/
def dontCare (w : Nat) : Pat := List.replicate w .any
end Pat

inductive Op1 | inv | neg | bool | rany | rall | rxor | u | s
deriving DecidableEq, Repr, Inhabited

inductive Op2 | add | sub | mul | fdiv | mod | eq | ne | lt | le | gt | ge | and | or | xor | shl | shr
deriving DecidableEq, Repr, Inhabited

inductive Expr
  | const (v : Int) (s : Shape)
  | sig (i : Nat)
  | op1 (o : Op1) (a : Expr)
  | op2 (o : Op2) (a b : Expr)
  | slice (a : Expr) (start stop : Nat)
  | part (a off : Expr) (width stride : Nat)
  | cat (lo hi : Expr)
  | ite (test : Expr) (pats : List Pat) (thn els : Expr)
deriving Repr, Inhabited

abbrev Ctx := List Shape
abbrev Env := List Int

def Ctx.shape (ctx : Ctx) (i : Nat) : Shape := ctx.getD i (Shape.u 0)
def Env.val (env : Env) (i : Nat) : Int := env.getD i 0

/-- every signal holds a value of its shape, and every signal shape is constructible -/
def EnvOk (ctx : Ctx) (env : Env) : Prop :=
  ∀ i, (ctx.shape i).WF ∧ (ctx.shape i).contains (env.val i)

/-- the empty concatenation / the value of a switch in which nothing matched -/
def Expr.nil : Expr := .const 0 (Shape.u 0)

def shapeOf (ctx : Ctx) : Expr → Shape
  | .const _ s => s
  | .sig i => ctx.shape i
  | .op1 o a =>
    let sa := shapeOf ctx a
    match o with
    | .inv => ⟨sa.width, sa.signed⟩
    | .neg => ⟨sa.width + 1, true⟩
    | .bool | .rany | .rall | .rxor => ⟨1, false⟩
    | .u => ⟨sa.width, false⟩
    | .s => ⟨sa.width, true⟩
  | .op2 o a b =>
    let sa := shapeOf ctx a
    let sb := shapeOf ctx b
    match o with
    | .add => let o := Shape.unify sa sb; ⟨o.width + 1, o.signed⟩
    | .sub => let o := Shape.unify sa sb; ⟨o.width + 1, true⟩
    | .mul => ⟨sa.width + sb.width, sa.signed || sb.signed⟩
    | .fdiv => ⟨sa.width + (if sb.signed then 1 else 0), sa.signed || sb.signed⟩
    | .mod => ⟨sb.width, sb.signed⟩
    | .eq | .ne | .lt | .le | .gt | .ge => ⟨1, false⟩
    | .and | .or | .xor => Shape.unify sa sb
    | .shl => ⟨sa.width + 2 ^ sb.width - 1, sa.signed⟩
    | .shr => ⟨sa.width, sa.signed⟩
  | .slice _ start stop => ⟨stop - start, false⟩
  | .part _ _ width _ => ⟨width, false⟩
  | .cat lo hi => ⟨(shapeOf ctx lo).width + (shapeOf ctx hi).width, false⟩
  | .ite _ _ thn els => Shape.unify (shapeOf ctx thn) (shapeOf ctx els)

def widthOf (ctx : Ctx) (e : Expr) : Nat := (shapeOf ctx e).width

/-- the tail of a `SwitchValue` chain: another case of a chain, or the end marker -/
def Expr.isSwTail : Expr → Bool
  | .ite .. => true
  | .const 0 ⟨0, false⟩ => true
  | _ => false

/-- Exactly what the constructors accept (everything else raises at construction time). -/
def Expr.wf (ctx : Ctx) : Expr → Bool
  | .const v s => decide s.WF && decide (s.contains v)
  | .sig i => decide (i < ctx.length)
  | .op1 o a => a.wf ctx && (match o with | .s => decide (0 < widthOf ctx a) | _ => true)
  | .op2 o a b => a.wf ctx && b.wf ctx &&
      (match o with | .shl | .shr => !(shapeOf ctx b).signed | _ => true)
  | .slice a start stop => a.wf ctx && decide (start ≤ stop) && decide (stop ≤ widthOf ctx a)
  | .part a off _ stride => a.wf ctx && off.wf ctx && !(shapeOf ctx off).signed && decide (0 < stride)
  | .cat lo hi => lo.wf ctx && hi.wf ctx
  | .ite test pats thn els => test.wf ctx && thn.wf ctx && els.wf ctx && els.isSwTail &&
      pats.all (fun p => p.length == widthOf ctx test)

/-- `value == (mask & test)` for some pattern; `test` is the masked (non-negative) test value. -/
def matchesAny (pats : List Pat) (test : Int) : Bool :=
  pats.any (fun p => (p.valueNat : Int) == pyAnd (p.maskNat : Int) test)

/-! ## Compiled-circuit evaluator (`_RHSValueCompiler`) -/

/-- Python `zdiv` helper -/
def zdiv (a b : Int) : Int := if b = 0 then 0 else Int.fdiv a b
/-- Python `zmod` helper -/
def zmod (a b : Int) : Int := if b = 0 then 0 else Int.fmod a b

def binop (o : Op2) (x y : Int) : Int :=
  match o with
  | .add => x + y
  | .sub => x - y
  | .mul => x * y
  | .fdiv => zdiv x y
  | .mod => zmod x y
  | .eq => b2i (x == y)
  | .ne => b2i (x != y)
  | .lt => b2i (x < y)
  | .le => b2i (x ≤ y)
  | .gt => b2i (x > y)
  | .ge => b2i (x ≥ y)
  | .and => pyAnd x y
  | .or => pyOr x y
  | .xor => pyXor x y
  | .shl => pyShl x y.toNat
  | .shr => pyShr x y.toNat

/-- `fixedPart = true` is the compiler after the F1 repair (`on_Part` reads `sign(value.value)`);
`false` is the compiler as found (raw operand). -/
def evalRtlG (fixedPart : Bool) (ctx : Ctx) (env : Env) : Expr → Int
  | .const v _ => v
  | .sig i => env.val i
  | .op1 o a =>
    let ra := evalRtlG fixedPart ctx env a
    let sa := shapeOf ctx a
    let ma := mask sa.width ra
    match o with
    | .inv => pyNot ma
    | .neg => -(norm sa ra)
    | .bool => b2i (ma != 0)
    | .rany => b2i (0 != ma)
    | .rall => b2i ((2 ^ sa.width - 1 : Int) == ma)
    | .rxor => ((popcount sa.width ma.toNat % 2 : Nat) : Int)
    | .u | .s => ra
  | .op2 o a b =>
    binop o (norm (shapeOf ctx a) (evalRtlG fixedPart ctx env a))
            (norm (shapeOf ctx b) (evalRtlG fixedPart ctx env b))
  | .slice a start stop => mask (stop - start) (pyShr (evalRtlG fixedPart ctx env a) start)
  | .part a off width stride =>
    let ra := evalRtlG fixedPart ctx env a
    let va := if fixedPart then norm (shapeOf ctx a) ra else ra
    let o := stride * (mask (widthOf ctx off) (evalRtlG fixedPart ctx env off)).toNat
    mask width (pyShr va o)
  | .cat lo hi =>
    pyOr (pyShl (mask (widthOf ctx lo) (evalRtlG fixedPart ctx env lo)) 0)
         (pyShl (mask (widthOf ctx hi) (evalRtlG fixedPart ctx env hi)) (widthOf ctx lo))
  | .ite test pats thn els =>
    let t := mask (widthOf ctx test) (evalRtlG fixedPart ctx env test)
    if matchesAny pats t then norm (shapeOf ctx thn) (evalRtlG fixedPart ctx env thn)
    else evalRtlG fixedPart ctx env els

/-- the repaired compiler -/
abbrev evalRtl := evalRtlG true
/-- the compiler as found (F1) -/
abbrev evalRtlUnfixed := evalRtlG false

/-- what a consumer of a compiled expression sees: `sign(e)` -/
def rtlValue (ctx : Ctx) (env : Env) (e : Expr) : Int := norm (shapeOf ctx e) (evalRtl ctx env e)

/-! ## Testbench evaluator (`eval_value`) -/

def evalTb (ctx : Ctx) (env : Env) : Expr → Int
  | .const v _ => v
  | .sig i => env.val i
  | .op1 o a =>
    let va := evalTb ctx env a
    let w := widthOf ctx a
    match o with
    | .u => mask w va
    | .s => let r := mask w va
            if pyAnd r (pyShl 1 (w - 1)) != 0 then pyOr r (pyShl (-1) (w - 1)) else r
    | .neg => -va
    | .inv => if (shapeOf ctx a).signed then pyNot va else mask w (pyNot va)
    | .bool | .rany => b2i (va != 0)
    | .rall => b2i (mask w va == (2 ^ w - 1 : Int))
    | .rxor => ((popcount w (mask w va).toNat % 2 : Nat) : Int)
  | .op2 o a b => binop o (evalTb ctx env a) (evalTb ctx env b)
  | .slice a start stop => mask (stop - start) (pyShr (evalTb ctx env a) start)
  | .part a off width stride =>
    mask width (pyShr (evalTb ctx env a) ((evalTb ctx env off).toNat * stride))
  | .cat lo hi =>
    pyOr (pyOr 0 (pyShl (mask (widthOf ctx lo) (evalTb ctx env lo)) 0))
         (pyShl (mask (widthOf ctx hi) (evalTb ctx env hi)) (widthOf ctx lo))
  | .ite test pats thn els =>
    -- `_eval_matches(test, patterns)`: `value == (mask & test)` on the exact (possibly negative) test
    if matchesAny pats (evalTb ctx env test) then evalTb ctx env thn else evalTb ctx env els

end Amaranth
