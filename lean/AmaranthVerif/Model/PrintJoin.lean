import AmaranthVerif.Model.Format

/-!
# How `Print(*args, sep=, end=)` builds its message (`hdl/_ast.py`, `Print.__init__`, `Format._clean_chunks`)

An argument is given by the chunks of `Format("{}", arg)` (a string is its own text, a value is one
value chunk, a `Format` is its chunks). `Print.__init__` puts `sep` between arguments when `sep != ""`,
`end` after the last when `end != ""`, and hands the list to `Format._from_chunks`, which drops empty
literal chunks and merges adjacent literal chunks (`_clean_chunks`: a left-to-right loop over `res`,
modelled with `res` newest-first).
-/

namespace Amaranth
namespace Fmt

/-- one iteration of the loop in `_clean_chunks`; `acc` is `res` newest element first -/
def cleanStep (acc : List Chunk) : Chunk → List Chunk
  | .lit s =>
    if s = [] then acc else
      match acc with
      | .lit t :: r => .lit (t ++ s) :: r
      | _ => .lit s :: acc
  | .val e sp => .val e sp :: acc

/-- `Format._clean_chunks` -/
def cleanChunks (cs : List Chunk) : List Chunk := (cs.foldl cleanStep []).reverse

/-- the loop of `Print.__init__` (`first` is the Python variable of that name) -/
def printRaw (sep : PyStr) : Bool → List (List Chunk) → List Chunk
  | _, [] => []
  | first, a :: rest =>
    (if !first && sep != [] then [Chunk.lit sep] else []) ++ a ++ printRaw sep false rest

/-- the chunks of `Print(*args, sep=sep, end=end_).message` -/
def printChunks (args : List (List Chunk)) (sep end_ : PyStr) : List Chunk :=
  cleanChunks (printRaw sep true args ++ (if end_ != [] then [Chunk.lit end_] else []))

/-- a chunk list in the form `_clean_chunks` leaves: no empty literal, no two adjacent literals -/
def cleanForm : List Chunk → Bool
  | [] => true
  | .lit s :: rest =>
    s != [] && (match rest with | .lit _ :: _ => false | _ => true) && cleanForm rest
  | .val _ _ :: rest => cleanForm rest

end Fmt
end Amaranth
