/-!
# Model of the places where reproducibility (C09) is decided

Follows the code mechanism by mechanism.  Every place where the code iterates an *unordered* collection is
a function with an explicit `order : List String` argument (the order in which the `set` happened to be
iterated), so that "the result does not depend on the hash seed" becomes "the function gives the same
result for every permutation of `order`".

* `collect` / `usedSet` — `hdl._xfrm.DomainCollector` (`_local_domains` scoping, `used_domains`);
* `propagateDown` — `Fragment._propagate_domains_down`;
* `createMissingDomainsOld` — `Fragment._create_missing_domains` **as the code stands**: the loop body is run
  over `used_domains - defined_domains` in the iteration order of that `set` (finding F3);
* `createMissingDomains` — the *repaired* behaviour: the same loop over `sorted(...)`;
* `propagateDomains`, `portsOf`, `preparePorts` — `Fragment._propagate_domains`, and the ports that
  `Fragment.prepare` appends for the created domains;
  (`Design._assign_port_names` / `_assign_names` iterate only ordered containers — `SignalDict`, lists; the
  `set` of assigned names is used for membership and `len()` only — so they have no `order` argument and are
  not modelled; the subprocess differential of the check covers them);
* `Plan.addFile`, `digestInput`, `digest`, `archive`, `extract` — `build.run.BuildPlan` (`sorted(self.files)`;
  `ZipInfo(filename)` has the fixed time stamp 1980-01-01 00:00:00);
* `EngineState`, `reset`, `initial`, `step` — the state of `sim.pysim.PySimEngine` that `Simulator.reset()`
  is responsible for: `_PyTimeline` (`now`, `wakers`), every `_PySignalState` (`curr`, `next`) and
  `_PyMemoryState` (`data`, `write_queue`), the `pending` set, every `PyRTLProcess` / `PyClockProcess` /
  `AsyncProcess` (processes and testbenches: `runnable`, `critical`, `initial`, `waits_on`, the coroutine
  abstracted as a program counter, `first_await`), `_active_triggers`, `_delta_cycles`, `Simulator._running`.
  `reset` follows the `reset` methods component by component, *repaired* (finding F21: the code forgets
  `_active_triggers` and `_delta_cycles`; that behaviour is `resetOld`).
  Not part of the model state: the `wakers` lists of the slots (stale trigger wakers are left in place by
  `reset()`; they are inert — a trigger whose process no longer waits on it only marks itself broken) and the
  VCD writers.

Core Lean only (this file is compiled into the native driver `amodel_c09`).
-/

namespace Amaranth.Repro

/-- `Except` values can be compared (used by the examples and the driver) -/
instance {ε α : Type} [DecidableEq ε] [DecidableEq α] : DecidableEq (Except ε α)
  | .ok a, .ok b => if h : a = b then isTrue (by rw [h]) else isFalse (by intro h'; cases h'; exact h rfl)
  | .error a, .error b => if h : a = b then isTrue (by rw [h]) else isFalse (by intro h'; cases h'; exact h rfl)
  | .ok _, .error _ => isFalse (by intro h; cases h)
  | .error _, .ok _ => isFalse (by intro h; cases h)

/-- the error of a failed computation -/
def errorOf {ε α : Type} : Except ε α → Option ε
  | .error e => some e
  | .ok _ => none

/-! ## Names and `sorted` -/

/-- `a <= b` on Python `str` (code-point lexicographic), as a Boolean -/
def leName (a b : String) : Bool := decide (a ≤ b)

/-- insert into an ascending list, after the elements that are `<=` (stable) -/
def insertName (a : String) : List String → List String
  | [] => [a]
  | b :: bs => if leName b a then b :: insertName a bs else a :: b :: bs

/-- `sorted(names)` (a stable sort; insertion sort computes the same list) -/
def sortNames : List String → List String
  | [] => []
  | a :: as => insertName a (sortNames as)

/-! ## Fragments, `DomainCollector`, `_propagate_domains_down` -/

/-- a `ClockDomain`: its name and whether it has a reset signal (`rst is not None`) -/
structure Dom where
  name : String
  hasRst : Bool
deriving DecidableEq, Repr, Inhabited

/-- the part of a `Fragment` that domain propagation looks at.
`preUses`: domains referenced by memory ports / `RequirePosedge` / instance port values (looked up *before*
the fragment's own domains become local); `uses`: statement domains and `ClockSignal`/`ResetSignal`
references inside statements, in traversal order. -/
inductive Frag
  | mk (name : Option String) (domains : List Dom) (preUses uses : List String) (subs : List Frag)
deriving Repr, Inhabited

namespace Frag
def name : Frag → Option String | .mk n _ _ _ _ => n
def domains : Frag → List Dom | .mk _ d _ _ _ => d
def preUses : Frag → List String | .mk _ _ p _ _ => p
def uses : Frag → List String | .mk _ _ _ u _ => u
def subs : Frag → List Frag | .mk _ _ _ _ s => s
def domainNames (f : Frag) : List String := f.domains.map (·.name)
def withName : Frag → Option String → Frag | .mk _ d p u s, n => .mk n d p u s
def withDomains : Frag → List Dom → Frag | .mk n _ p u s, d => .mk n d p u s
/-- `add_subfragment(sub, name)` -/
def addSub : Frag → Frag → String → Frag | .mk n d p u s, sub, nm => .mk n d p u (s ++ [sub.withName (some nm)])
end Frag

/-- `_add_used_domain`: `comb` and local domains are not recorded -/
def usedFilter (loc : List String) (names : List String) : List String :=
  names.filter (fun n => n != "comb" && !loc.contains n)

mutual
/-- `DomainCollector.on_fragment` with `_local_domains = loc`: the names added to `used_domains`, in the order
in which they are added (with repetitions) -/
def collect (loc : List String) : Frag → List String
  | .mk _ doms pre uses subs =>
    let loc' := doms.map (·.name) ++ loc
    usedFilter loc pre ++ usedFilter loc' uses ++ collectList loc' subs
def collectList (loc : List String) : List Frag → List String
  | [] => []
  | f :: fs => collect loc f ++ collectList loc fs
end

/-- the elements of `collector.used_domains - collector.defined_domains` (`defined_domains` is never added
to), without repetitions, in first-occurrence order -/
def usedSet (f : Frag) : List String := (collect [] f).eraseDups

/-- for each domain of the parent (in the parent's order) that the child does not define: `add_domains` -/
def inheritDomains (own inherited : List Dom) : List Dom :=
  inherited.foldl (fun acc d => if acc.any (fun x => x.name == d.name) then acc else acc ++ [d]) own

mutual
/-- `_propagate_domains_down` seen from a child: `inherited` are the parent's domains -/
def propagateInto (inherited : List Dom) : Frag → Frag
  | .mk n doms pre uses subs =>
    let doms' := inheritDomains doms inherited
    .mk n doms' pre uses (propagateIntoList doms' subs)
def propagateIntoList (inherited : List Dom) : List Frag → List Frag
  | [] => []
  | f :: fs => propagateInto inherited f :: propagateIntoList inherited fs
end

/-- `Fragment._propagate_domains_down` -/
def propagateDown (f : Frag) : Frag := propagateInto [] f

/-! ## `_create_missing_domains` -/

/-- what the `missing_domain` callback returns for a name -/
inductive Missing
  | none                     -- `None`
  | domain (d : Dom)         -- a `ClockDomain`
  | fragment (f : Frag)      -- anything else: `Fragment.get(value)`
deriving Repr, Inhabited

inductive DomErr
  | undefined (name : String)      -- DomainError: used but not defined
  | notProvided (name : String)    -- DomainError: the returned fragment does not define the domain
  | duplicate (name : String)      -- AssertionError in `add_domains`
deriving DecidableEq, Repr, Inhabited

/-- `add_domains(d)`: `assert domain.name not in self.domains` -/
def Frag.addDomain (f : Frag) (d : Dom) : Except DomErr Frag :=
  if f.domainNames.contains d.name then .error (.duplicate d.name) else .ok (f.withDomains (f.domains ++ [d]))

def Frag.addDomains (f : Frag) (ds : List Dom) : Except DomErr Frag := ds.foldlM Frag.addDomain f

/-- the body of the `for domain_name in …` loop; the accumulator is (`self`, `new_domains`) -/
def createStep (missing : String → Missing) (acc : Frag × List Dom) (name : String) :
    Except DomErr (Frag × List Dom) :=
  if name == "comb" then .ok acc
  else match missing name with
    | .none => .error (.undefined name)
    | .domain d => do
        let f ← acc.1.addDomain d
        pure (f, acc.2 ++ [d])
    | .fragment nf =>
        if !nf.domainNames.contains name then .error (.notProvided name)
        else do
          let f ← (acc.1.addSub nf ("cd_" ++ name)).addDomains nf.domains
          pure (f, acc.2)

/-- `_create_missing_domains` **as the code stands**: `order` is the order in which the set difference is
iterated -/
def createMissingDomainsOld (missing : String → Missing) (order : List String) (f : Frag) :
    Except DomErr (Frag × List Dom) :=
  order.foldlM (createStep missing) (f, [])

/-- `_create_missing_domains`, repaired: `for domain_name in sorted(used - defined)` -/
def createMissingDomains (missing : String → Missing) (order : List String) (f : Frag) :
    Except DomErr (Frag × List Dom) :=
  createMissingDomainsOld missing (sortNames order) f

/-- `_propagate_domains`: down, create, down.  `order` enumerates `usedSet (propagateDown f)`. -/
def propagateDomains (missing : String → Missing) (order : List String) (f : Frag) :
    Except DomErr (Frag × List Dom) := do
  let (f', new) ← createMissingDomains missing order (propagateDown f)
  pure (propagateDown f', new)

def propagateDomainsOld (missing : String → Missing) (order : List String) (f : Frag) :
    Except DomErr (Frag × List Dom) := do
  let (f', new) ← createMissingDomainsOld missing order (propagateDown f)
  pure (propagateDown f', new)

inductive PortKind | clk | rst
deriving DecidableEq, Repr, Inhabited

/-- `Fragment.prepare`: `for domain in new_domains: ports.append(domain.clk); if domain.rst is not None: …` -/
def portsOf (new : List Dom) : List (String × PortKind) :=
  new.flatMap (fun d => (d.name, .clk) :: (if d.hasRst then [(d.name, .rst)] else []))

/-- the port list of the prepared design: the user's ports followed by those of the created domains -/
def preparePorts (user : List (String × PortKind)) (missing : String → Missing) (order : List String) (f : Frag) :
    Except DomErr (List (String × PortKind)) := do
  let (_, new) ← propagateDomains missing order f
  pure (user ++ portsOf new)

def preparePortsOld (user : List (String × PortKind)) (missing : String → Missing) (order : List String) (f : Frag) :
    Except DomErr (List (String × PortKind)) := do
  let (_, new) ← propagateDomainsOld missing order f
  pure (user ++ portsOf new)

/-- the default `missing_domain = lambda name: ClockDomain(name)` -/
def defaultMissing (name : String) : Missing := .domain ⟨name, true⟩

/-! ## `BuildPlan` -/

abbrev Bytes := List UInt8

/-- `str.encode("utf-8")` -/
def utf8 (s : String) : Bytes := s.toUTF8.toList

/-- a build plan: `script` and the `OrderedDict` `files` (insertion order; `str` contents already encoded) -/
structure Plan where
  script : String
  files : List (String × Bytes)
deriving DecidableEq, Repr, Inhabited

inductive PlanErr
  | duplicate (name : String)    -- AssertionError: `filename not in self.files`
  | absolute (name : String)     -- ValueError
deriving DecidableEq, Repr, Inhabited

/-- `PurePosixPath(name).is_absolute() or PureWindowsPath(name).is_absolute()`: a leading `/`; a one-character
drive followed by `:` and a separator; or a UNC prefix (two separators, a server, a separator, a share) -/
def isAbsolute (name : String) : Bool :=
  let sep := fun (c : Char) => c == '/' || c == '\\'
  match name.toList with
  | '/' :: _ => true
  | c :: ':' :: s :: _ => !sep c && sep s
  | a :: b :: rest =>
    if sep a && sep b then
      let server := rest.takeWhile (fun c => !sep c)
      let after := (rest.dropWhile (fun c => !sep c)).drop 1
      let share := after.takeWhile (fun c => !sep c)
      !server.isEmpty && !share.isEmpty
    else false
  | _ => false

namespace Plan

def names (p : Plan) : List String := p.files.map (·.1)

/-- `self.files[filename]` -/
def content (p : Plan) (name : String) : Bytes := (p.files.lookup name).getD []

/-- `add_file(filename, content)` -/
def addFile (p : Plan) (name : String) (content : Bytes) : Except PlanErr Plan :=
  if p.names.contains name then .error (.duplicate name)
  else if isAbsolute name then .error (.absolute name)
  else .ok { p with files := p.files ++ [(name, content)] }

/-- a plan built by a sequence of `add_file` calls -/
def ofCalls (script : String) (calls : List (String × Bytes)) : Except PlanErr Plan :=
  calls.foldlM (fun p c => p.addFile c.1 c.2) ⟨script, []⟩

/-- the bytes fed to the hasher by `digest()`: for every file name in `sorted(self.files)` the encoded name and
the content, then the encoded script name -/
def digestInput (p : Plan) : Bytes :=
  (sortNames p.names).flatMap (fun n => utf8 n ++ p.content n) ++ utf8 p.script

/-- `digest()`; the hash function (BLAKE2b) is a parameter -/
def digest {δ : Type} (hash : Bytes → δ) (p : Plan) : δ := hash (digestInput p)

end Plan

/-- a member of the archive: `ZipInfo(filename)` (time stamp `(1980, 1, 1, 0, 0, 0)`) and the data -/
structure Member where
  name : String
  dateTime : Nat × Nat × Nat × Nat × Nat × Nat
  data : Bytes
deriving DecidableEq, Repr, Inhabited

def zipEpoch : Nat × Nat × Nat × Nat × Nat × Nat := (1980, 1, 1, 0, 0, 0)

/-- `archive(file)`: the members written, in order.  (The byte encoding of a member list is `zipfile`'s and is
a function of this list.) -/
def Plan.archive (p : Plan) : List Member :=
  (sortNames p.names).map (fun n => ⟨n, zipEpoch, p.content n⟩)

/-! ### `extract` -/

/-- split at `/` -/
def splitSlash : List Char → List Char → List String
  | [], cur => [String.ofList cur.reverse]
  | c :: cs, cur => if c == '/' then String.ofList cur.reverse :: splitSlash cs [] else splitSlash cs (c :: cur)

/-- `pathlib.Path(filename).parts` of a relative POSIX path: empty and `.` components vanish -/
def pathParts (name : String) : List String :=
  (splitSlash name.toList []).filter (fun c => c != "" && c != ".")

/-- a directory tree: the directories that exist and the regular files with their contents -/
structure Tree where
  dirs : List (List String)
  files : List (List String × Bytes)
deriving DecidableEq, Repr, Inhabited

def Tree.empty : Tree := ⟨[], []⟩

inductive ExtractErr
  | assertion (name : String)     -- `assert not filename.is_absolute() and ".." not in filename.parts`
  | isDirectory (name : String)   -- opening a directory (or `.`) for writing
  | notDirectory (name : String)  -- a parent component is a regular file
deriving DecidableEq, Repr, Inhabited

/-- the non-empty proper prefixes of a path, shortest first -/
def properPrefixes : List String → List (List String)
  | [] => []
  | [_] => []
  | c :: rest => [c] :: (properPrefixes rest).map (c :: ·)

def Tree.isFile (t : Tree) (path : List String) : Bool := t.files.any (·.1 == path)

/-- one iteration of the loop in `extract`: `os.makedirs(dirname, exist_ok=True)`, then `open(filename, "wb")`
and `write` -/
def extractOne (t : Tree) (file : String × Bytes) : Except ExtractErr Tree :=
  let path := pathParts file.1
  if path.contains ".." then .error (.assertion file.1)
  else if path.isEmpty || t.dirs.contains path then .error (.isDirectory file.1)
  else if (properPrefixes path).any t.isFile then .error (.notDirectory file.1)
  else .ok { dirs := (properPrefixes path).foldl (fun ds d => if ds.contains d then ds else ds ++ [d]) t.dirs
             files := t.files.filter (·.1 != path) ++ [(path, file.2)] }

/-- `extract(root)` into the tree `t` (the build root) -/
def Plan.extract (p : Plan) (t : Tree) : Except ExtractErr Tree := p.files.foldlM extractOne t

/-! ## The simulation engine state and `reset` -/

/-- what is fixed when a slot is created -/
inductive SlotDecl
  | signal (init : Int)            -- `signal.init`
  | memory (init : List Int)       -- `memory._init._raw`
deriving DecidableEq, Repr, Inhabited

/-- `_PySignalState` (`curr`, `next`) / `_PyMemoryState` (`data`, `write_queue` as an insertion-ordered dict) -/
inductive Slot
  | signal (init curr next : Int)
  | memory (init data : List Int) (writeQueue : List (Nat × Int))
deriving DecidableEq, Repr, Inhabited

def Slot.decl : Slot → SlotDecl
  | .signal i _ _ => .signal i
  | .memory i _ _ => .memory i

/-- `__init__` (which ends in `self.reset()`) -/
def SlotDecl.fresh : SlotDecl → Slot
  | .signal i => .signal i i i
  | .memory i => .memory i i []

/-- `_PySignalState.reset` (`curr = next = signal.init`) / `_PyMemoryState.reset` (`data = list(init)`,
`write_queue = {}`) -/
def Slot.reset : Slot → Slot
  | .signal i _ _ => .signal i i i
  | .memory i _ _ => .memory i i []

/-- what is fixed when a process or testbench is added -/
inductive ProcDecl
  | rtl (isComb : Bool)                       -- `PyRTLProcess`
  | clock (slot phase period : Nat)           -- `PyClockProcess`
  | coro (testbench background : Bool)        -- `AsyncProcess`
deriving DecidableEq, Repr, Inhabited

/-- the mutable fields.  For an `AsyncProcess`: `waitsOn` is the trigger object (`none` = `None`), `pc` the
position of the coroutine (`some 0` = just created, `none` = `self.coroutine is None`). -/
inductive Proc
  | rtl (isComb : Bool) (runnable critical : Bool)
  | clock (slot phase period : Nat) (runnable critical initial : Bool)
  | coro (testbench background : Bool) (runnable critical : Bool) (waitsOn : Option Nat) (pc : Option Nat)
      (firstAwait : Bool)
deriving DecidableEq, Repr, Inhabited

def Proc.decl : Proc → ProcDecl
  | .rtl c _ _ => .rtl c
  | .clock s ph pe _ _ _ => .clock s ph pe
  | .coro tb bg _ _ _ _ _ => .coro tb bg

def ProcDecl.fresh : ProcDecl → Proc
  | .rtl c => .rtl c c false
  | .clock s ph pe => .clock s ph pe true false true
  | .coro tb bg => .coro tb bg true (!bg) none (some 0) true

/-- `PyRTLProcess.reset` (`runnable = is_comb`, `critical = False`), `PyClockProcess.reset` (`runnable = True`,
`critical = False`, `initial = True`), `AsyncProcess.reset` (`runnable = True`, `critical = not background`,
`waits_on = None`, a new coroutine, `first_await = True`) -/
def Proc.reset : Proc → Proc
  | .rtl c _ _ => .rtl c c false
  | .clock s ph pe _ _ _ => .clock s ph pe true false true
  | .coro tb bg _ _ _ _ _ => .coro tb bg true (!bg) none (some 0) true

def Proc.runnable : Proc → Bool
  | .rtl _ r _ => r | .clock _ _ _ r _ _ => r | .coro _ _ r _ _ _ _ => r
def Proc.critical : Proc → Bool
  | .rtl _ _ c => c | .clock _ _ _ _ c _ => c | .coro _ _ _ c _ _ _ => c

/-- `_PyTimeline`: `now` and the dict `wakers` (waker ↦ deadline) in insertion order -/
structure Timeline where
  now : Nat
  wakers : List (Nat × Nat)
deriving DecidableEq, Repr, Inhabited

/-- `_PyTimeline.reset` -/
def Timeline.reset (_ : Timeline) : Timeline := ⟨0, []⟩

structure Design where
  slots : List SlotDecl
  procs : List ProcDecl
  tbs : List ProcDecl
deriving DecidableEq, Repr, Inhabited

structure EngineState where
  timeline : Timeline
  slots : List Slot
  pending : List Nat              -- indices of the pending slots
  procs : List Proc               -- `_processes`
  tbs : List Proc                 -- `_testbenches`
  activeTriggers : List Nat       -- `_active_triggers`
  deltaCycles : Nat               -- `_delta_cycles`
  running : Bool                  -- `Simulator._running`
deriving DecidableEq, Repr, Inhabited

/-- the static part of a state -/
def EngineState.design (s : EngineState) : Design :=
  ⟨s.slots.map Slot.decl, s.procs.map Proc.decl, s.tbs.map Proc.decl⟩

/-- a freshly constructed `Simulator` with these slots, processes and testbenches -/
def initial (d : Design) : EngineState :=
  { timeline := ⟨0, []⟩, slots := d.slots.map SlotDecl.fresh, pending := [],
    procs := d.procs.map ProcDecl.fresh, tbs := d.tbs.map ProcDecl.fresh,
    activeTriggers := [], deltaCycles := 0, running := false }

/-- `Simulator.reset` → `PySimEngine.reset` → `_PyEngineState.reset`, **as the code stands** (F21):
`_active_triggers` and `_delta_cycles` survive -/
def EngineState.resetOld (s : EngineState) : EngineState :=
  { timeline := s.timeline.reset, slots := s.slots.map Slot.reset, pending := [],
    procs := s.procs.map Proc.reset, tbs := s.tbs.map Proc.reset,
    activeTriggers := s.activeTriggers, deltaCycles := s.deltaCycles, running := false }

/-- `Simulator.reset`, repaired: also `_active_triggers.clear()` and `_delta_cycles = 0` -/
def EngineState.reset (s : EngineState) : EngineState :=
  { s.resetOld with activeTriggers := [], deltaCycles := 0 }

/-! ### A small step function: the primitive operations that dirty the state -/

inductive Op
  | update (slot : Nat) (value : Int)            -- `_PySignalState.update(value)`
  | memWrite (slot addr : Nat) (value : Int)     -- `_PyMemoryState.write(addr, value)` (value in range of the shape)
  | commit                                       -- `_PyEngineState.commit()` and `_delta_cycles += 1`
  | setWaker (waker interval : Nat)              -- `_PyTimeline.set_waker`
  | advance                                      -- `_PyTimeline.advance`
  | runClock (k waker : Nat)                     -- `PyClockProcess.run` of process `k` (its new closure is `waker`)
  | runRtl (k : Nat)                             -- the engine's `process.runnable = False` before `run()`
  | wakeProc (k : Nat)                           -- a waker: `process.runnable = True`
  | coroAwait (tb : Bool) (k trigger : Nat)      -- `AsyncProcess.run`: the coroutine ran up to its next `await`
  | coroFinish (tb : Bool) (k : Nat)             -- `AsyncProcess.run`: `StopIteration`
  | triggerRun (tb : Bool) (k : Nat)             -- `_PyTriggerState.run`: `runnable = True`, `waits_on = None`
  | activate (trigger : Nat)                     -- `_PyTriggerState.activate` (the process waits on it)
  | clearActive                                  -- `self._active_triggers.clear()`
  | setCritical (tb : Bool) (k : Nat) (v : Bool) -- `with ctx.critical()`
  | setRunning                                   -- `Simulator.advance`: `_running = True`
  | get (slot : Nat)                             -- observe `curr`
  | read (slot addr : Nat)                       -- observe `_PyMemoryState.read(addr)`
  | now                                          -- observe `timeline.now`
deriving DecidableEq, Repr, Inhabited

def modifyAt {α : Type} (xs : List α) (i : Nat) (f : α → α) : List α := xs.modify i f

/-- `_PySignalState.update`: `if self.next != value: self.next = value; pending.add(self)` -/
def opUpdate (s : EngineState) (i : Nat) (v : Int) : EngineState :=
  match s.slots[i]? with
  | some (.signal init c n) =>
    if n != v then
      { s with slots := s.slots.set i (.signal init c v), pending := setAddNat s.pending i }
    else s
  | _ => s
where setAddNat (xs : List Nat) (i : Nat) : List Nat := if xs.contains i then xs else xs ++ [i]

/-- `write_queue[addr] = value` on an insertion-ordered dict -/
def dictSet (q : List (Nat × Int)) (a : Nat) (v : Int) : List (Nat × Int) :=
  if q.any (·.1 == a) then q.map (fun e => if e.1 == a then (a, v) else e) else q ++ [(a, v)]

/-- `_PyMemoryState.write(addr, value)` without mask -/
def opMemWrite (s : EngineState) (i a : Nat) (v : Int) : EngineState :=
  match s.slots[i]? with
  | some (.memory init data q) =>
    if a < data.length then
      { s with slots := s.slots.set i (.memory init data (dictSet q a v)),
               pending := opUpdate.setAddNat s.pending i }
    else s
  | _ => s

/-- `state.commit()` of one slot -/
def Slot.commit : Slot → Slot
  | .signal init _ n => .signal init n n
  | .memory init data q => .memory init (q.foldl (fun d e => d.set e.1 e.2) data) []

/-- `_PyEngineState.commit`: every pending slot commits, `pending.clear()`; then `_delta_cycles += 1` -/
def opCommit (s : EngineState) : EngineState :=
  { s with slots := s.pending.foldl (fun sl i => sl.modify i Slot.commit) s.slots, pending := [],
           deltaCycles := s.deltaCycles + 1 }

/-- `self.wakers[waker] = self.now + interval` -/
def Timeline.setWaker (t : Timeline) (w interval : Nat) : Timeline :=
  let d := t.now + interval
  if t.wakers.any (·.1 == w) then { t with wakers := t.wakers.map (fun e => if e.1 == w then (w, d) else e) }
  else { t with wakers := t.wakers ++ [(w, d)] }

/-- `_PyTimeline.advance`: the wakers with the nearest deadline are called and removed, `now` moves there -/
def Timeline.advance (t : Timeline) : Timeline :=
  match t.wakers.map (·.2) with
  | [] => t
  | d :: ds =>
    let nearest := ds.foldl min d
    ⟨nearest, t.wakers.filter (·.2 != nearest)⟩

def Proc.setRunnable (v : Bool) : Proc → Proc
  | .rtl c _ cr => .rtl c v cr
  | .clock s ph pe _ cr i => .clock s ph pe v cr i
  | .coro tb bg _ cr w pc fa => .coro tb bg v cr w pc fa

def Proc.setCritical (v : Bool) : Proc → Proc
  | .rtl c r _ => .rtl c r v
  | .clock s ph pe r _ i => .clock s ph pe r v i
  | .coro tb bg r _ w pc fa => .coro tb bg r v w pc fa

/-- `PyClockProcess.run` -/
def opRunClock (s : EngineState) (k w : Nat) : EngineState :=
  match s.procs[k]? with
  | some (.clock slot ph pe _ cr true) =>
    { s with procs := s.procs.set k (.clock slot ph pe false cr false), timeline := s.timeline.setWaker w ph }
  | some (.clock slot ph pe _ cr false) =>
    let s' := match s.slots[slot]? with
      | some (.signal _ c _) => opUpdate s slot (if c == 0 then 1 else 0)
      | _ => s
    { s' with procs := s'.procs.set k (.clock slot ph pe false cr false),
              timeline := s'.timeline.setWaker w (pe / 2) }
  | _ => s

def onProcs (s : EngineState) (tb : Bool) (k : Nat) (f : Proc → Proc) : EngineState :=
  if tb then { s with tbs := s.tbs.modify k f } else { s with procs := s.procs.modify k f }

inductive Obs
  | value (v : Int)
  | time (t : Nat)
  | nothing
deriving DecidableEq, Repr, Inhabited

def step (s : EngineState) : Op → EngineState × Option Obs
  | .update i v => (opUpdate s i v, none)
  | .memWrite i a v => (opMemWrite s i a v, none)
  | .commit => (opCommit s, none)
  | .setWaker w iv => ({ s with timeline := s.timeline.setWaker w iv }, none)
  | .advance => ({ s with timeline := s.timeline.advance }, none)
  | .runClock k w => (opRunClock s k w, none)
  | .runRtl k => (onProcs s false k (Proc.setRunnable false), none)
  | .wakeProc k => (onProcs s false k (Proc.setRunnable true), none)
  | .coroAwait tb k t => (onProcs s tb k (fun p => match p with
      | .coro t' bg _ cr _ pc _ => .coro t' bg false cr (some t) (pc.map (· + 1)) false
      | p => p), none)
  | .coroFinish tb k => (onProcs s tb k (fun p => match p with
      | .coro t' bg _ _ _ _ fa => .coro t' bg false false none none fa
      | p => p), none)
  | .triggerRun tb k => (onProcs s tb k (fun p => match p with
      | .coro t' bg _ cr _ pc fa => .coro t' bg true cr none pc fa
      | p => p), none)
  | .activate t => ({ s with activeTriggers := opUpdate.setAddNat s.activeTriggers t }, none)
  | .clearActive => ({ s with activeTriggers := [] }, none)
  | .setCritical tb k v => (onProcs s tb k (Proc.setCritical v), none)
  | .setRunning => ({ s with running := true }, none)
  | .get i => (s, some (match s.slots[i]? with | some (.signal _ c _) => .value c | _ => .nothing))
  | .read i a => (s, some (match s.slots[i]? with
      | some (.memory _ data _) => .value (data.getD a 0)
      | _ => .nothing))
  | .now => (s, some (.time s.timeline.now))

/-- run a script of operations; the trace is the list of observations -/
def run (s : EngineState) : List Op → EngineState × List Obs
  | [] => (s, [])
  | op :: ops =>
    let (s', o) := step s op
    let (s'', os) := run s' ops
    (s'', match o with | some x => x :: os | none => os)

def trace (r : EngineState × List Obs) : List Obs := r.2

end Amaranth.Repro
