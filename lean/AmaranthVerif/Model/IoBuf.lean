/-!
# Model of `amaranth/lib/io.py` (ports, `Buffer`, `FFBuffer`) and of the single-use table of I/O bits in
# `amaranth/hdl/_ir.py` (`NetlistEmitter.emit_io_use`)

The model follows the code mechanism by mechanism:

* a library port keeps **two parallel structures**: the underlying wires (an `IOValue` tree for
  `SingleEndedPort`/`DifferentialPort`, `Value` trees `_i/_o/_oe` for `SimulationPort`; here: the
  flattened list of wire identities, which is what `emit_io` / bit iteration produce) and a tuple
  of inversion flags; `__getitem__` subscripts each of them separately, the constructor re-checks
  that the lengths agree;
* `IOValue.__getitem__` / `Value.__getitem__`: integer keys are range-checked and become a one-bit
  slice; slice keys go through `slice.indices`, unit-step slices become an `IOSlice`/`Slice`
  (which rejects `start > stop`), other steps become a concatenation of one-bit slices;
* `Buffer.elaborate`: `invert = sum(bit << idx …)`, `o_inv = o ^ invert`, `i = i_inv ^ invert`
  (both skipped when the mask is zero), the simulation-port branch with its bit-by-bit loop-back
  `Mux(oe_bit, o_bit, i_bit)` and `oe.replicate(len(port))`;
* `FFBuffer.elaborate`: `i_ff`, `o_ff`, `oe_ff` around an inner `Buffer` — on a simulation port
  (`FFBuffer.step/out/run`) and on a real port (`FFBuffer.realStep/realOut/realRun`: the inner
  `Buffer` is the only source of `IOBufferInstance`s, the three registers are fabric flip-flops);
* `Buffer.elaborate` on a `DifferentialPort` follows the vendor-neutral code of `lib/io.py` (no platform
  `get_io_buffer`; `build/plat.py` defines none): an **input** buffer instantiates one cell on the `p` half and
  none on the `n` half; a driving buffer adds an output cell on the `n` half carrying `~o_inv`;
* `emit_io_use`: the `ionet_src_loc` table.

Core Lean only (this file is compiled into the native driver).
-/

namespace Amaranth.IoBuf

/-- exception kinds that the modelled code raises -/
inductive Err
  | valueError | indexError | typeError | driverConflict
deriving DecidableEq, Repr

abbrev R := Except Err

instance [DecidableEq α] : DecidableEq (R α)
  | .ok a, .ok b => if h : a = b then isTrue (congrArg _ h) else isFalse (fun h' => h (Except.ok.inj h'))
  | .error a, .error b => if h : a = b then isTrue (congrArg _ h) else isFalse (fun h' => h (Except.error.inj h'))
  | .ok _, .error _ => isFalse (fun h => by cases h)
  | .error _, .ok _ => isFalse (fun h => by cases h)

/-! ## `Direction` -/

inductive Dir
  | i | o | io
deriving DecidableEq, Repr

/-- `Direction.__and__` -/
def Dir.meet (a b : Dir) : R Dir :=
  if a = b then pure a
  else if a = .io then pure b
  else if b = .io then pure a
  else throw .valueError

/-! ## Python builtins used by the code: `slice.indices`, `range`, tuple subscripting -/

/-- a subscript: `x[k]`, `x[start:stop:step]` (each part optional), or a key of any other type -/
inductive Key
  | idx (k : Int)
  | slc (start stop step : Option Int)
  | bad
deriving DecidableEq, Repr

namespace Py

/-- one bound of `slice.indices(n)` (CPython `PySlice_AdjustIndices`) -/
def clip (n : Nat) (lower upper x : Int) : Int :=
  if x < 0 then (if x + n < lower then lower else x + n)
  else (if x > upper then upper else x)

/-- `slice(start, stop, step).indices(n)`; `ValueError` for a zero step -/
def sliceIndices (n : Nat) (start stop step : Option Int) : R (Int × Int × Int) :=
  let st := step.getD 1
  if st = 0 then throw .valueError
  else
    let lower : Int := if st < 0 then -1 else 0
    let upper : Int := if st < 0 then (n : Int) - 1 else n
    let a := match start with
      | none => if st < 0 then upper else lower
      | some x => clip n lower upper x
    let b := match stop with
      | none => if st < 0 then lower else upper
      | some x => clip n lower upper x
    pure (a, b, st)

/-- `len(range(a, b, c))` -/
def rangeLen (a b c : Int) : Nat :=
  if 0 < c then (if a < b then ((b - a - 1) / c + 1).toNat else 0)
  else if c < 0 then (if b < a then ((a - b - 1) / (-c) + 1).toNat else 0)
  else 0

/-- `list(range(a, b, c))` -/
def range (a b c : Int) : List Int :=
  (List.range (rangeLen a b c)).map fun (k : Nat) => a + (k : Int) * c

/-- `t[k]` for a tuple `t` and an integer `k` -/
def tupleIndex (xs : List α) (k : Int) : R α :=
  let n : Int := xs.length
  if -n ≤ k ∧ k < n then
    match xs[(if k < 0 then k + n else k).toNat]? with
    | some x => pure x
    | none => throw .indexError
  else throw .indexError

/-- `t[start:stop:step]` for a tuple `t` -/
def tupleSlice (xs : List α) (start stop step : Option Int) : R (List α) := do
  let (a, b, c) ← sliceIndices xs.length start stop step
  pure ((range a b c).filterMap fun i => xs[i.toNat]?)

end Py

/-! ## `IOValue.__getitem__` / `Value.__getitem__` on the flattened wires -/

/-- `IOSlice(value, start, stop)` (resp. `Slice`) followed by flattening: `emit_io(value)[start:stop]` -/
def ioSlice (xs : List β) (start stop : Int) : R (List β) :=
  let n : Int := xs.length
  if ¬ (-n ≤ start ∧ start ≤ n) then throw .indexError
  else
    let start := if start < 0 then start + n else start
    if ¬ (-n ≤ stop ∧ stop ≤ n) then throw .indexError
    else
      let stop := if stop < 0 then stop + n else stop
      if start > stop then throw .indexError
      else pure ((xs.drop start.toNat).take (stop.toNat - start.toNat))

/-- `value[k]`, `k` an integer -/
def ioIndex (xs : List β) (k : Int) : R (List β) :=
  let n : Int := xs.length
  if ¬ (-n ≤ k ∧ k < n) then throw .indexError
  else
    let k := if k < 0 then k + n else k
    ioSlice xs k (k + 1)

/-- `value[key]` -/
def ioGetItem (xs : List β) : Key → R (List β)
  | .idx k => ioIndex xs k
  | .slc s e st => do
    let (a, b, c) ← Py.sliceIndices xs.length s e st
    if c ≠ 1 then do
      -- `IOConcat(self[i] for i in range(start, stop, step))`, flattened part by part
      let parts ← (Py.range a b c).mapM (ioIndex xs)
      pure parts.flatten
    else ioSlice xs a b
  | .bad => throw .typeError

/-! ## the `invert` argument -/

/-- `invert=` as the constructors accept it: one `bool` for the whole port, or one per wire -/
inductive InvArg
  | all (b : Bool)
  | each (bs : List Bool)
deriving DecidableEq, Repr

/-- `self._invert[index]`: a `bool` for an integer key, a tuple for a slice -/
def invGetItem (inv : List Bool) : Key → R InvArg
  | .idx k => do pure (.all (← Py.tupleIndex inv k))
  | .slc s e st => do pure (.each (← Py.tupleSlice inv s e st))
  | .bad => throw .typeError

/-- `SimulationPort.__getitem__`: `self._invert[key]` for a slice, `(self._invert[key],)` otherwise -/
def InvArg.toTuple : InvArg → List Bool
  | .all b => [b]
  | .each bs => bs

/-- normalisation of `invert` in `__init__` -/
def normInvert (n : Nat) : InvArg → R (List Bool)
  | .all b => pure (List.replicate n b)
  | .each bs => if bs.length ≠ n then throw .valueError else pure bs

/-! ## `SingleEndedPort` -/

structure SEPort (β : Type) where
  io : List β
  inv : List Bool
  dir : Dir
deriving DecidableEq, Repr

namespace SEPort
variable {β : Type}

def new (io : List β) (inv : InvArg) (dir : Dir) : R (SEPort β) := do
  let inv ← normInvert io.length inv
  pure ⟨io, inv, dir⟩

def len (p : SEPort β) : Nat := p.io.length

def getItem (p : SEPort β) (key : Key) : R (SEPort β) := do
  let io ← ioGetItem p.io key
  let inv ← invGetItem p.inv key
  new io inv p.dir

def invert (p : SEPort β) : R (SEPort β) :=
  new p.io (.each (p.inv.map not)) p.dir

def add (p q : SEPort β) : R (SEPort β) := do
  let d ← p.dir.meet q.dir
  new (p.io ++ q.io) (.each (p.inv ++ q.inv)) d

end SEPort

/-! ## `DifferentialPort` -/

structure DiffPort (β : Type) where
  p : List β
  n : List β
  inv : List Bool
  dir : Dir
deriving DecidableEq, Repr

namespace DiffPort
variable {β : Type}

def new (p n : List β) (inv : InvArg) (dir : Dir) : R (DiffPort β) := do
  if p.length ≠ n.length then throw .valueError
  let inv ← normInvert p.length inv
  pure ⟨p, n, inv, dir⟩

def len (x : DiffPort β) : Nat := x.p.length

def getItem (x : DiffPort β) (key : Key) : R (DiffPort β) := do
  let p ← ioGetItem x.p key
  let n ← ioGetItem x.n key
  let inv ← invGetItem x.inv key
  new p n inv x.dir

def invert (x : DiffPort β) : R (DiffPort β) :=
  new x.p x.n (.each (x.inv.map not)) x.dir

def add (x y : DiffPort β) : R (DiffPort β) := do
  let d ← x.dir.meet y.dir
  new (x.p ++ y.p) (x.n ++ y.n) (.each (x.inv ++ y.inv)) d

end DiffPort

/-! ## `SimulationPort` -/

structure SimPort (β : Type) where
  i : Option (List β)
  o : Option (List β)
  oe : Option (List β)
  inv : List Bool
  dir : Dir
deriving DecidableEq, Repr

namespace SimPort
variable {β : Type}

/-- `SimulationPort.__init__`: fresh signals `i`, `o`, `oe` (whichever the direction has) -/
def new (dir : Dir) (i o oe : List β) (inv : InvArg) (width : Nat) : R (SimPort β) := do
  let inv ← normInvert width inv
  pure ⟨if dir = .o then none else some i, if dir = .i then none else some o,
        if dir = .i then none else some oe, inv, dir⟩

/-- `__len__` -/
def len (p : SimPort β) : Nat :=
  match p.dir with
  | .i => (p.i.getD []).length
  | .o => (p.o.getD []).length
  | .io => (p.i.getD []).length

def lane (l : Option (List β)) (key : Key) : R (Option (List β)) :=
  match l with
  | none => pure none
  | some xs => do pure (some (← ioGetItem xs key))

def getItem (p : SimPort β) (key : Key) : R (SimPort β) := do
  let i ← lane p.i key
  let o ← lane p.o key
  let oe ← lane p.oe key
  let inv ← invGetItem p.inv key
  pure ⟨i, o, oe, inv.toTuple, p.dir⟩

def invert (p : SimPort β) : R (SimPort β) :=
  pure ⟨p.i, p.o, p.oe, p.inv.map not, p.dir⟩

/-- `Cat(self._x, other._x)`; the lanes exist whenever the combined direction has them -/
def catLane (a b : Option (List β)) : Option (List β) := some (a.getD [] ++ b.getD [])

def add (p q : SimPort β) : R (SimPort β) := do
  let d ← p.dir.meet q.dir
  pure ⟨if d = .o then none else catLane p.i q.i,
        if d = .i then none else catLane p.o q.o,
        if d = .i then none else catLane p.oe q.oe,
        p.inv ++ q.inv, d⟩

end SimPort

/-! ## port expressions built from subscripting, `+` and `~` -/

structure Ops (P : Type) where
  getItem : P → Key → R P
  add : P → P → R P
  invert : P → R P

def SEPort.ops : Ops (SEPort β) := ⟨SEPort.getItem, SEPort.add, SEPort.invert⟩
def DiffPort.ops : Ops (DiffPort β) := ⟨DiffPort.getItem, DiffPort.add, DiffPort.invert⟩
def SimPort.ops : Ops (SimPort β) := ⟨SimPort.getItem, SimPort.add, SimPort.invert⟩

inductive PExpr (P : Type)
  | leaf (p : P)
  | getItem (e : PExpr P) (key : Key)
  | add (a b : PExpr P)
  | invert (a : PExpr P)
deriving Repr

/-- Python evaluates the operands left to right, then applies the operator -/
def PExpr.eval (ops : Ops P) : PExpr P → R P
  | .leaf p => pure p
  | .getItem e key => do ops.getItem (← e.eval ops) key
  | .add a b => do
    let x ← a.eval ops
    let y ← b.eval ops
    ops.add x y
  | .invert a => do ops.invert (← a.eval ops)

/-! ## buffers: constructor checks -/

/-- `Buffer.__init__` / `FFBuffer.__init__` / `DDRBuffer.__init__`: port and buffer direction must agree -/
def bufferNew (bdir pdir : Dir) : R Unit :=
  if pdir = .i ∧ bdir ≠ .i then throw .valueError
  else if pdir = .o ∧ bdir ≠ .o then throw .valueError
  else pure ()

/-- the `i_domain=` / `o_domain=` checks of `FFBuffer.__init__` (and `DDRBuffer.__init__`), which
come before the direction check; `iDom`/`oDom`: whether the argument was given -/
def ffBufferNew (bdir pdir : Dir) (iDom oDom : Bool) : R Unit :=
  if bdir = .o ∧ iDom then throw .valueError
  else if bdir = .i ∧ oDom then throw .valueError
  else bufferNew bdir pdir

/-! ## `Buffer.elaborate` on a simulation port -/

/-- `sum(bit << idx for idx, bit in enumerate(invert))` -/
def invertMaskFrom (idx : Nat) : List Bool → Nat
  | [] => 0
  | b :: bs => (b.toNat <<< idx) + invertMaskFrom (idx + 1) bs

def invertMask (inv : List Bool) : Nat := invertMaskFrom 0 inv

/-- assignment to a `w`-bit signal -/
def trunc (w x : Nat) : Nat := x % 2 ^ w

/-- `oe.replicate(w)` -/
def replicateBit (b : Bool) (w : Nat) : Nat := if b then 2 ^ w - 1 else 0

/-- `for … in zip(i_inv, port.oe, port.o, port.i): i_inv_bit.eq(Mux(oe_bit, o_bit, i_bit))`:
the word whose bit `k < w` is `Mux(sel[k], a[k], b[k])` -/
def muxBits : Nat → Nat → Nat → Nat → Nat
  | 0, _, _, _ => 0
  | w + 1, sel, a, b =>
    muxBits w sel a b + ((if sel.testBit w then a.testBit w else b.testBit w).toNat <<< w)

/-- what the test bench drives: the buffer's `o` and `oe`, and the port's `i` -/
structure BufIn where
  o : Nat
  oe : Bool
  pi : Nat
deriving DecidableEq, Repr

/-- what the design drives: the port's `o` and `oe`, and the buffer's `i` (each if present) -/
structure BufOut where
  portO : Option Nat
  portOe : Option Nat
  i : Option Nat
deriving DecidableEq, Repr

/-- `Buffer(bdir, port).elaborate` for a `SimulationPort` with inversion flags `inv` -/
def Buffer.comb (bdir : Dir) (inv : List Bool) (x : BufIn) : BufOut :=
  let w := inv.length
  let mask := invertMask inv
  -- `o_inv = Signal.like(self.o); o_inv.eq(self.o ^ invert)` or `o_inv = self.o`
  let oInv := if mask ≠ 0 then trunc w (x.o ^^^ mask) else x.o
  -- `self.i.eq(i_inv ^ invert)` or `i_inv = self.i`
  let fromInv (iInv : Nat) := if mask ≠ 0 then trunc w (iInv ^^^ mask) else iInv
  let portO := oInv
  let portOe := replicateBit x.oe w
  match bdir with
  | .i => { portO := none, portOe := none, i := some (fromInv x.pi) }
  | .o => { portO := some portO, portOe := some portOe, i := none }
  | .io => { portO := some portO, portOe := some portOe, i := some (fromInv (muxBits w portOe portO x.pi)) }

/-! ## `FFBuffer.elaborate` -/

/-- the three reset-less registers (power-on value 0) -/
structure FFState where
  iFf : Nat
  oFf : Nat
  oeFf : Bool
deriving DecidableEq, Repr

def FFState.init : FFState := ⟨0, 0, false⟩

/-- one step of the test bench: the driven values and which of the two named domains have an
active clock edge (`i_domain == o_domain` means both flags are always equal) -/
structure FFEvent where
  x : BufIn
  tickI : Bool
  tickO : Bool
deriving DecidableEq, Repr

/-- the inner `Buffer` is fed from `o_ff`/`oe_ff` -/
def FFBuffer.inner (bdir : Dir) (inv : List Bool) (s : FFState) (pi : Nat) : BufOut :=
  Buffer.comb bdir inv ⟨s.oFf, s.oeFf, pi⟩

/-- combinational outputs: `self.i.eq(i_ff)`, port driven from the inner buffer -/
def FFBuffer.out (bdir : Dir) (inv : List Bool) (s : FFState) (pi : Nat) : BufOut :=
  let b := FFBuffer.inner bdir inv s pi
  { portO := b.portO, portOe := b.portOe, i := if bdir = .o then none else some s.iFf }

/-- clock edges: `m.d[i_domain] += i_ff.eq(io_buffer.i)`, `m.d[o_domain] += [o_ff.eq(o), oe_ff.eq(oe)]`.
A register that the buffer direction does not have (`i_ff` of an output buffer, `o_ff`/`oe_ff` of an
input buffer) is a don't-care here: nothing reads it. -/
def FFBuffer.step (bdir : Dir) (inv : List Bool) (s : FFState) (e : FFEvent) : FFState :=
  let b := FFBuffer.inner bdir inv s e.x.pi
  { iFf := if e.tickI then b.i.getD s.iFf else s.iFf
    oFf := if e.tickO then e.x.o else s.oFf
    oeFf := if e.tickO then e.x.oe else s.oeFf }

/-- observations after each event (inputs still applied) -/
def FFBuffer.run (bdir : Dir) (inv : List Bool) : FFState → List FFEvent → List BufOut
  | _, [] => []
  | s, e :: es =>
    let s' := FFBuffer.step bdir inv s e
    FFBuffer.out bdir inv s' e.x.pi :: FFBuffer.run bdir inv s' es

def FFBuffer.final (bdir : Dir) (inv : List Bool) : FFState → List FFEvent → FFState
  | s, [] => s
  | s, e :: es => FFBuffer.final bdir inv (FFBuffer.step bdir inv s e) es

/-! ## buffers on real ports: the `IOBufferInstance`s and the single-use table -/

/-- one `IOBufferInstance` / `IOBuffer` cell: the pad bits it claims, its direction, and what it
drives onto the pads -/
structure IOBCell (β : Type) where
  port : List β
  dir : Dir
  o : Option Nat
  oe : Option Bool
deriving DecidableEq, Repr

/-- bitwise complement of a `w`-bit value (`~o_inv`) -/
def notBits (w x : Nat) : Nat := 2 ^ w - 1 - x % 2 ^ w

/-- `Buffer.elaborate` for a `SingleEndedPort`: the cell, and `i` as a function of the pad value -/
def Buffer.single (bdir : Dir) (p : SEPort β) (o : Nat) (oe : Bool) (pad : Nat) : List (IOBCell β) × Option Nat :=
  let w := p.inv.length
  let mask := invertMask p.inv
  let oInv := if mask ≠ 0 then trunc w (o ^^^ mask) else o
  let fromInv (iInv : Nat) := if mask ≠ 0 then trunc w (iInv ^^^ mask) else iInv
  match bdir with
  | .i => ([⟨p.io, .i, none, none⟩], some (fromInv pad))
  | .o => ([⟨p.io, .o, some oInv, some oe⟩], none)
  | .io => ([⟨p.io, .io, some oInv, some oe⟩], some (fromInv pad))

/-- `Buffer.elaborate` for a `DifferentialPort`: the `n` half is driven with `~o_inv` and never read -/
def Buffer.diff (bdir : Dir) (p : DiffPort β) (o : Nat) (oe : Bool) (pad : Nat) : List (IOBCell β) × Option Nat :=
  let w := p.inv.length
  let mask := invertMask p.inv
  let oInv := if mask ≠ 0 then trunc w (o ^^^ mask) else o
  let fromInv (iInv : Nat) := if mask ≠ 0 then trunc w (iInv ^^^ mask) else iInv
  match bdir with
  | .i => ([⟨p.p, .i, none, none⟩], some (fromInv pad))
  | .o => ([⟨p.p, .o, some oInv, some oe⟩, ⟨p.n, .o, some (notBits w oInv), some oe⟩], none)
  | .io => ([⟨p.p, .io, some oInv, some oe⟩, ⟨p.n, .o, some (notBits w oInv), some oe⟩], some (fromInv pad))

/-! ## `FFBuffer.elaborate` on a real port -/

/-- `Buffer(direction, port).elaborate` for one real port, as a function of the buffer's `o`, `oe` and of the
value on the pads: `Buffer.single bdir p` or `Buffer.diff bdir p` -/
abbrev RealBuf (β : Type) := Nat → Bool → Nat → List (IOBCell β) × Option Nat

/-- what `FFBuffer(direction, port)` shows: the cells of the inner `Buffer` (there are no others), driven from
`o_ff` / `oe_ff`, and `self.i.eq(i_ff)` -/
def FFBuffer.realOut (inner : RealBuf β) (bdir : Dir) (s : FFState) (pad : Nat) : List (IOBCell β) × Option Nat :=
  ((inner s.oFf s.oeFf pad).1, if bdir = .o then none else some s.iFf)

/-- clock edges, as in `FFBuffer.step`; `e.x.pi` is the value on the pads -/
def FFBuffer.realStep (inner : RealBuf β) (s : FFState) (e : FFEvent) : FFState :=
  { iFf := if e.tickI then (inner s.oFf s.oeFf e.x.pi).2.getD s.iFf else s.iFf
    oFf := if e.tickO then e.x.o else s.oFf
    oeFf := if e.tickO then e.x.oe else s.oeFf }

/-- observations after each event (inputs and pad values still applied) -/
def FFBuffer.realRun (inner : RealBuf β) (bdir : Dir) : FFState → List FFEvent → List (List (IOBCell β) × Option Nat)
  | _, [] => []
  | s, e :: es =>
    let s' := FFBuffer.realStep inner s e
    FFBuffer.realOut inner bdir s' e.x.pi :: FFBuffer.realRun inner bdir s' es

/-- `emit_io_use`: every net of the value is looked up in `ionet_src_loc`; a net that is already
there raises `DriverConflict`, otherwise it is entered -/
def emitIoUse [DecidableEq β] (used : List β) : List β → R (List β)
  | [] => pure used
  | n :: ns => if n ∈ used then throw .driverConflict else emitIoUse (n :: used) ns

/-- the netlist builder visits the buffer cells in order -/
def emitAll [DecidableEq β] (used : List β) : List (List β) → R (List β)
  | [] => pure used
  | c :: cs => do emitAll (← emitIoUse used c) cs

end Amaranth.IoBuf
