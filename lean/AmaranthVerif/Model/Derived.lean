import AmaranthVerif.Model.Expr

/-!
# The construction-time rewrites of the derived operators (`hdl/_ast.py`, class `Value`)

`abs`, `shift_left`, `shift_right`, `rotate_left`, `rotate_right`, `replicate`, `Mux`, `bool`-free
`matches` on one pattern … are not AST nodes; the methods build primitive nodes. These functions
follow the Python text.
-/

namespace Amaranth

/-- `Cat(x, y)` -/
def mkCat2 (x y : Expr) : Expr := .cat x (.cat y Expr.nil)

/-- `Mux(sel, val1, val0)` = `SwitchValue(sel, ((0, val0), (None, val1)))` -/
def mkMux (ctx : Ctx) (sel val1 val0 : Expr) : Expr :=
  .ite sel [List.replicate (widthOf ctx sel) .zero] val0
    (.ite sel [Pat.dontCare (widthOf ctx sel)] val1 Expr.nil)

/-- `abs(self)`: `Mux(self >= 0, self, -self)[:len(self)]` for signed values, `self` otherwise -/
def mkAbs (ctx : Ctx) (a : Expr) : Expr :=
  if (shapeOf ctx a).signed then
    .slice (mkMux ctx (.op2 .ge a (.const 0 ⟨1, false⟩)) a (.op1 .neg a)) 0 (widthOf ctx a)
  else a

/-- `self.shift_left(n)` for `n ≥ 0`: `Cat(Const(0, n), self)`, re-signed for signed values -/
def mkShiftLeft (ctx : Ctx) (a : Expr) (n : Nat) : Expr :=
  let c := mkCat2 (.const 0 ⟨n, false⟩) a
  if (shapeOf ctx a).signed then .op1 .s c else c

/-- `self.shift_right(n)` for `n ≥ 0`: `self[n:]` (clamped), re-signed for signed values -/
def mkShiftRight (ctx : Ctx) (a : Expr) (n : Nat) : Expr :=
  let w := widthOf ctx a
  if (shapeOf ctx a).signed then .op1 .s (.slice a (min n (w - 1)) w)
  else .slice a (min n w) w

/-- `self.rotate_left(k)` with `k` already reduced modulo the width: `Cat(self[-k:], self[:-k])` -/
def mkRotateLeft (ctx : Ctx) (a : Expr) (k : Nat) : Expr :=
  let w := widthOf ctx a
  if k = 0 then mkCat2 (.slice a 0 w) (.slice a 0 0)
  else mkCat2 (.slice a (w - k) w) (.slice a 0 (w - k))

/-- `self.replicate(count)`: `Cat(self for _ in range(count))` -/
def mkReplicate (a : Expr) : Nat → Expr
  | 0 => Expr.nil
  | n + 1 => .cat a (mkReplicate a n)

end Amaranth
