import AmaranthVerif.Model.Domain

/-!
# The delta-cycle engine of the Python simulator

Follows `amaranth/sim/pysim.py`, `_pyclock.py`, `_async.py`, `core.py`, mechanism by mechanism.

* A **slot** has a current and a pending value (`_PySignalState.curr/next`); the state keeps the two
  environments `curr` and `next`. A process never writes `curr`; it calls
  `update(value, mask)`: `next := (next & ~mask) | (value & mask)` (`applyUpdate`).
* An **owner** is anything that can be woken: a compiled circuit process, a clock process, a user
  process (`add_process`) or a testbench (`add_testbench`). Its mutable part is a `Local`
  (`runnable`, the clock's `initial` flag, the script position, and the state of the trigger it
  waits on: `waits_on`, membership in `_active_triggers`, `_triggers_hit`, `_result`). Its behaviour
  is a `ProcDef`: four functions
    - `run`  : what `process.run()` does, as a function of its `Local` and of **`curr`**, returning
               the new `Local`, a list of masked updates and possibly an interval for
               `set_delay_waker`;
    - `wake` : the owner's wakers on slot `i`, called at commit with `(curr, next)`;
    - `trig` : `_PyTriggerState.run()` — sample, make the owner runnable (phase 1a of a delta);
    - `fire` : the owner's timeline waker.
  Every function reads and writes only the owner's own `Local`; that is how the real objects are
  wired (a waker closes over its own process / trigger state).
* `delta` is one iteration of the loop of `PySimEngine.step_design`: triggers, every runnable
  process once **in the given order**, commit **in the given order** (`curr := next`, wakers).
  The real engine iterates two Python `set`s here (`_processes`, `pending`); the orders are
  parameters (`Orders`), chosen per delta by a schedule `Nat → Orders` indexed by `_delta_cycles`.
  Instead of the `pending` set the commit walks a list of slots and skips those with
  `curr = next` (a pending slot whose value did not change is skipped by `commit()` as well, and
  a slot whose `next` differs from `curr` is always pending).
* `settle` = `step_design()`; `advanceTime` = `_PyTimeline.advance()`; `advance`, `run`,
  `runUntil` = `PySimEngine.advance`, `Simulator.run`, `Simulator.run_until`.
* Concrete owners: compiled comb/sync/async-reset processes (`_FragmentCompiler`), `PyClockProcess`,
  the two documented process forms (`docs/simulator.rst`), and testbench scripts of
  `set get tick delay edge changed` with `.sample(...)`.

Simplifications (reported by the check as assumptions): a compiled synchronous process starts from
`slots[i].next`, the model from `curr` — the two are equal at the start of every delta (after a
commit `curr = next` on every slot) and no other process writes the same bits (`DisjointWrites`);
memories and their write queues are not modelled here (C11 models them); trigger combinations
have at most one delay element.
-/

namespace Amaranth.Engine
open Amaranth

/-! ## Masked updates -/

/-- one call `slots[slot].update(value, mask)` -/
structure Update where
  slot : Nat
  value : Int
  mask : Int
deriving Repr, Inhabited, DecidableEq

/-- `(next & ~mask) | (value & mask)` on Python integers -/
def applyUpdate (u : Update) (x : Int) : Int :=
  pyOr (pyAnd x (pyNot u.mask)) (pyAnd u.value u.mask)

def modAt (l : List Int) (i : Nat) (f : Int → Int) : List Int :=
  match l[i]? with
  | some x => l.set i (f x)
  | none => l

/-- the update applied to the pending environment -/
def applyTo (next : Env) (u : Update) : Env := modAt next u.slot (applyUpdate u)

def applyAll (next : Env) (us : List Update) : Env := us.foldl applyTo next

/-! ## Owners -/

structure Local where
  runnable : Bool := false
  /-- `PyClockProcess.initial` / `AsyncProcess.first_await` -/
  initial : Bool := true
  /-- script position; for a clock: the number of toggles performed (not read by the clock) -/
  pc : Nat := 0
  /-- `process.waits_on is trigger_state` -/
  waiting : Bool := false
  /-- the trigger state is in `_active_triggers` -/
  active : Bool := false
  /-- `_triggers_hit`, by position of the trigger in the combination -/
  hits : List Bool := []
  /-- `_result` -/
  result : List Int := []
  /-- a testbench that has to record the result of its wait when it resumes -/
  report : Bool := false
  /-- the coroutine finished (`critical := False`) -/
  done : Bool := false
deriving Repr, Inhabited, DecidableEq

structure Effect where
  loc : Local
  updates : List Update := []
  /-- `set_delay_waker(interval, waker)` -/
  timer : Option Nat := none

structure ProcDef where
  run  : Local → Env → Effect
  wake : Local → Nat → Int → Int → Local
  trig : Local → Env → Local
  fire : Local → Local

instance : Inhabited ProcDef := ⟨⟨fun l _ => { loc := l }, fun l _ _ _ => l, fun l _ => l, fun l => l⟩⟩

/-- one observation of a testbench: `(testbench, elapsed_time() in fs, values)` -/
abbrev Obs := Nat × Nat × List Int

structure EState where
  curr : Env
  next : Env
  locals : List Local
  /-- `_PyTimeline.wakers`: the deadline of each owner's timeline waker -/
  timers : List (Option Nat)
  now : Nat := 0
  /-- `_delta_cycles` -/
  deltas : Nat := 0
  /-- observations, most recent first -/
  obs : List Obs := []
deriving Inhabited

structure Orders where
  /-- iteration order of `_processes` in this delta -/
  procs : List Nat
  /-- iteration order of `pending` in this delta -/
  slots : List Nat
deriving Inhabited

def getLoc (s : EState) (p : Nat) : Local := s.locals.getD p default

def setLoc (s : EState) (p : Nat) (l : Local) : EState := { s with locals := s.locals.set p l }

/-! ## One delta cycle -/

/-- phase 1a: `for trigger_state in self._active_triggers: trigger_state.run()` -/
def trigPhase (ps : List ProcDef) (s : EState) : EState :=
  { s with locals := List.zipWith (fun d l => if l.active then d.trig l s.curr else l) ps s.locals }

/-- what running owner `p` would do in state `s` -/
def effectOf (ps : List ProcDef) (s : EState) (p : Nat) : Option Effect :=
  match ps[p]?, s.locals[p]? with
  | some d, some l => if l.runnable then some (d.run { l with runnable := false } s.curr) else none
  | _, _ => none

def applyEffect (s : EState) (p : Nat) : Option Effect → EState
  | none => s
  | some e =>
    { s with next := applyAll s.next e.updates,
             locals := s.locals.set p e.loc,
             timers := match e.timer with
               | some n => s.timers.set p (some (s.now + n))
               | none => s.timers }

/-- phase 1b for one process: `if process.runnable: process.runnable = False; process.run()` -/
def stepProc (ps : List ProcDef) (s : EState) (p : Nat) : EState :=
  applyEffect s p (effectOf ps s p)

/-- `_PySignalState.commit()` of slot `i`, with its wakers -/
def commitSlot (ps : List ProcDef) (s : EState) (i : Nat) : EState :=
  let old := s.curr.val i
  let new := s.next.val i
  if old == new then s
  else { s with curr := s.curr.set i new,
                locals := List.zipWith (fun d l => d.wake l i old new) ps s.locals }

/-- `_PyEngineState.commit()` -/
def commit (ps : List ProcDef) (order : List Nat) (s : EState) : EState :=
  order.foldl (commitSlot ps) s

/-- some slot is going to change in the commit (`converged = False`) -/
def anyChange (order : List Nat) (s : EState) : Bool :=
  order.any fun i => s.curr.val i != s.next.val i

def runProcs (ps : List ProcDef) (order : List Nat) (s : EState) : EState :=
  order.foldl (stepProc ps) s

/-- one iteration of the loop in `step_design`; the flag is `converged` -/
def delta (ps : List ProcDef) (o : Orders) (s : EState) : EState × Bool :=
  let s2 := runProcs ps o.procs (trigPhase ps s)
  let s3 := commit ps o.slots s2
  ({ s3 with deltas := s3.deltas + 1 }, !anyChange o.slots s2)

abbrev Sched := Nat → Orders

/-- `step_design()`: at least one delta, until a commit changes nothing. The flag tells whether the
loop ended because it converged (`true`) or because the model's fuel ran out (`false`; the real
loop would go on) -/
def settle (ps : List ProcDef) (sched : Sched) : Nat → EState → EState × Bool
  | 0, s => (s, false)
  | fuel + 1, s =>
    let r := delta ps (sched s.deltas) s
    if r.2 then r else settle ps sched fuel r.1

/-! ## The timeline -/

/-- the items of the `wakers` dictionary: `(owner, deadline)` -/
def entriesFrom : Nat → List (Option Nat) → List (Nat × Nat)
  | _, [] => []
  | i, none :: ts => entriesFrom (i + 1) ts
  | i, some d :: ts => (i, d) :: entriesFrom (i + 1) ts

/-- the body of the loop in `_PyTimeline.advance`: `acc = (nearest_deadline, nearest_wakers)` -/
def scanStep (acc : Option Nat × List Nat) (e : Nat × Nat) : Option Nat × List Nat :=
  match acc.1 with
  | none => (some e.2, [e.1])
  | some d =>
    if e.2 ≤ d then (some e.2, if e.2 < d then [e.1] else acc.2 ++ [e.1])
    else acc

def scanNearest (es : List (Nat × Nat)) : Option Nat × List Nat := es.foldl scanStep (none, [])

def mapIdxFrom {α β : Type} (f : Nat → α → β) : Nat → List α → List β
  | _, [] => []
  | i, a :: as => f i a :: mapIdxFrom f (i + 1) as

/-- `_PyTimeline.advance()`: wake every nearest waker, delete it, jump to the deadline -/
def advanceTime (ps : List ProcDef) (s : EState) : EState × Bool :=
  match scanNearest (entriesFrom 0 s.timers) with
  | (some d, ws) =>
    ({ s with now := d,
              timers := mapIdxFrom (fun i t => if ws.contains i then none else t) 0 s.timers,
              locals := mapIdxFrom (fun i l => if ws.contains i then (ps.getD i default).fire l else l) 0 s.locals },
     true)
  | (none, _) => (s, false)

/-! ## Triggers (`_PyTriggerState`) -/

inductive TrigElem
  | edge (sig bit : Nat) (pol : Bool)
  | changed (sig : Nat)
  | delay (n : Nat)
  | sample (e : Expr)
deriving Repr, Inhabited

abbrev Trigger := List TrigElem

def bitOf (v : Int) (bit : Nat) : Bool := pyAnd (pyShr v bit) 1 != 0

/-- does the waker of this element, registered on its signal, activate the trigger? -/
def TrigElem.firesOn (slot : Nat) (old new : Int) : TrigElem → Bool
  | .edge sig bit pol => sig == slot && bitOf old bit != bitOf new bit && bitOf new bit == pol
  | .changed sig => sig == slot
  | _ => false

/-- is this element recorded in `_triggers_hit` by its slot waker? -/
def TrigElem.hitOn (slot : Nat) (old new : Int) : TrigElem → Bool
  | .edge sig bit pol => sig == slot && bitOf old bit != bitOf new bit && bitOf new bit == pol
  | _ => false

def TrigElem.isDelay : TrigElem → Bool
  | .delay _ => true
  | _ => false

/-- the slot wakers of a trigger state (they do nothing once the owner no longer waits on it) -/
def trigWake (t : Trigger) (l : Local) (slot : Nat) (old new : Int) : Local :=
  if l.waiting then
    { l with active := l.active || t.any (·.firesOn slot old new),
             hits := List.zipWith (fun el h => h || el.hitOn slot old new) t l.hits }
  else l

/-- the timeline waker of a trigger state (the waker of an earlier, completed wait does nothing) -/
def trigFire (t : Trigger) (l : Local) : Local :=
  if l.waiting && t.any (·.isDelay) then
    { l with active := true, hits := List.zipWith (fun el h => h || el.isDelay) t l.hits }
  else l

/-- `compute_result()` -/
def trigResult (ctx : Ctx) (t : Trigger) (hits : List Bool) (cur : Env) : List Int :=
  List.zipWith (fun el h => match el with
    | .sample e => evalTb ctx cur e
    | .changed sig => cur.val sig
    | _ => b2i h) t hits

/-- `_PyTriggerState.run()` -/
def trigRun (ctx : Ctx) (t : Trigger) (l : Local) (cur : Env) : Local :=
  { l with result := trigResult ctx t l.hits cur, runnable := true, waiting := false, active := false,
           hits := List.replicate t.length false }

/-- the delay a freshly awaited trigger registers on the timeline -/
def Trigger.delay? : Trigger → Option Nat
  | [] => none
  | .delay n :: _ => some n
  | _ :: t => Trigger.delay? t

/-- `TickTrigger._collect_trigger()` -/
def tickTrigger (cfg : DomCfg) (samples : List Expr) : Trigger :=
  let clk := TrigElem.edge cfg.clk 0 cfg.posedge
  match cfg.async, cfg.rst with
  | true, some r => [clk, .edge r 0 true, .sample (.sig r)] ++ samples.map .sample
  | _, some r => [clk, .sample (.const 0 (Shape.u 1)), .sample (.sig r)] ++ samples.map .sample
  | _, none => [clk, .sample (.const 0 (Shape.u 1)), .sample (.const 0 (Shape.u 1))] ++ samples.map .sample

/-- `(clk_edge, bool(rst_edge or rst_sample), *values)` -/
def tickResult (r : List Int) : List Int :=
  r.getD 0 0 :: b2i (r.getD 1 0 != 0 || r.getD 2 0 != 0) :: r.drop 3

/-! ## Compiled circuit processes (`_FragmentCompiler`) -/

def exprSigs : Expr → List Nat
  | .const _ _ => []
  | .sig i => [i]
  | .op1 _ a => exprSigs a
  | .op2 _ a b => exprSigs a ++ exprSigs b
  | .slice a _ _ => exprSigs a
  | .part a off _ _ => exprSigs a ++ exprSigs off
  | .cat lo hi => exprSigs lo ++ exprSigs hi
  | .ite t _ a b => exprSigs t ++ exprSigs a ++ exprSigs b

/-- the `inputs` of a combinational process: every signal its statements mention -/
def stmtReads : Stmt → List Nat
  | .skip => []
  | .seq a b => stmtReads a ++ stmtReads b
  | .assign lhs rhs => exprSigs lhs ++ exprSigs rhs
  | .ite t _ a b => exprSigs t ++ stmtReads a ++ stmtReads b

/-- `if signal.shape().signed and (mask & 1 << (len(signal) - 1)): mask |= -1 << len(signal)` -/
def extMask (s : Shape) (m : Int) : Int :=
  if s.signed && (pyAnd m (pyShl 1 (s.width - 1)) != 0) then pyOr m (pyShl (-1) s.width) else m

/-- the `slots[i].update(next_i, mask_i)` calls at the end of a compiled process -/
def procUpdates (ctx : Ctx) (body : Stmt) (nxt : Env) : List Update :=
  let tab := stmtMask ctx body (List.replicate ctx.length 0)
  (List.range ctx.length).filterMap fun i =>
    let m := tab.get i
    if m == 0 then none else some ⟨i, nxt.val i, extMask (ctx.shape i) m⟩

def combDef (D : Design) (body : Stmt) : ProcDef where
  run l cur := { loc := l, updates := procUpdates D.ctx body (combNext D.ctx D.inits body cur) }
  wake l slot _ _ := if (stmtReads body).contains slot then { l with runnable := true } else l
  trig l _ := { l with active := false }
  fire l := l

def syncDef (D : Design) (d : Nat) (body : Stmt) : ProcDef :=
  let cfg := D.doms.getD d default
  { run := fun l cur =>
      { loc := l, updates := procUpdates D.ctx body
          (syncNext D.ctx D.inits D.resetLess (cfg.rst.map cur.val) body cur) }
    wake := fun l slot _ new =>
      if slot == cfg.clk && new == (if cfg.posedge then 1 else 0) then { l with runnable := true } else l
    trig := fun l _ => { l with active := false }
    fire := fun l => l }

/-- the reset-only process of an `async_reset` domain -/
def arstDef (D : Design) (d : Nat) (body : Stmt) : ProcDef :=
  let cfg := D.doms.getD d default
  let driven := stmtSigs body
  { run := fun l _ =>
      { loc := l, updates := (procUpdates D.ctx body D.inits).filter fun u =>
          driven.contains u.slot && !(D.resetLess.getD u.slot false) }
    wake := fun l slot _ new => if some slot == cfg.rst && new == 1 then { l with runnable := true } else l
    trig := fun l _ => { l with active := false }
    fire := fun l => l }

/-! ## `PyClockProcess` -/

def clockDef (slot phase period : Nat) : ProcDef where
  run l cur :=
    if l.initial then { loc := { l with initial := false, runnable := false }, timer := some phase }
    else { loc := { l with runnable := false, pc := l.pc + 1 },
           updates := [⟨slot, b2i (cur.val slot == 0), -1⟩],
           timer := some (period / 2) }
  wake l _ _ _ := l
  trig l _ := { l with active := false }
  fire l := { l with runnable := true }

/-! ## The two documented process forms -/

/-- the values returned by a trigger, put back on the signals they were sampled from -/
def sampleEnv (n : Nat) (ins : List Nat) (vals : List Int) : Env :=
  (ins.zip vals).foldl (fun env iv => env.put iv.1 iv.2) (List.replicate n 0)

/-- `ctx.set(out, value)` on a whole signal: `update(value normalised to the shape)` -/
def setUpd (ctx : Ctx) (out : Nat) (v : Int) : Update := ⟨out, norm (ctx.shape out) v, -1⟩

/-- `async for values in ctx.changed(*ins): ctx.set(out, e(values))` -/
def userCombDef (ctx : Ctx) (ins : List Nat) (out : Nat) (e : Expr) : ProcDef :=
  let t : Trigger := ins.map .changed
  { run := fun l cur =>
      -- first run: `initial_eligible()` grants one wake-up with the values at time 0
      let vals := if l.initial then ins.map cur.val else l.result
      { loc := { l with initial := false, waiting := true, hits := List.replicate t.length false },
        updates := [setUpd ctx out (evalTb ctx (sampleEnv ctx.length ins vals) e)] }
    wake := trigWake t
    trig := trigRun ctx t
    fire := fun l => l }

/-- `async for clk_edge, rst, *values in ctx.tick(d).sample(*ins):`
`if rst: ctx.set(out, init) elif clk_edge: ctx.set(out, e(values))` -/
def userSyncDef (ctx : Ctx) (cfg : DomCfg) (ins : List Nat) (out : Nat) (e : Expr) (init : Int) : ProcDef :=
  let t : Trigger := tickTrigger cfg (ins.map .sig)
  { run := fun l _ =>
      let l' := { l with initial := false, waiting := true, hits := List.replicate t.length false }
      if l.initial then { loc := l' }
      else
        let r := tickResult l.result
        if r.getD 1 0 != 0 then { loc := l', updates := [setUpd ctx out init] }
        else if r.getD 0 0 != 0 then
          { loc := l', updates := [setUpd ctx out (evalTb ctx (sampleEnv ctx.length ins (r.drop 2)) e)] }
        else { loc := l' }
    wake := trigWake t
    trig := trigRun ctx t
    fire := fun l => l }

/-- `ctx.set(out[lo:hi], value)` from a process, for an unsigned `out` and `lo ≤ hi ≤ len(out)`:
`_eval_assign_inner` reads `next`, replaces the bits `lo..hi-1` and writes the whole value back, i.e. the masked
update `(next & ~mask) | ((value << lo) & mask)` with `mask = (1 << hi) - (1 << lo)` -/
def setPartUpd (out lo hi : Nat) (v : Int) : Update := ⟨out, pyShl v lo, 2 ^ hi - 2 ^ lo⟩

/-- the synchronous process form driving only the bits `lo..hi-1` of an unsigned signal:
`async for clk_edge, rst, *values in ctx.tick(d).sample(*ins):`
`if rst: ctx.set(out[lo:hi], out.init >> lo) elif clk_edge: ctx.set(out[lo:hi], e(values))` -/
def userSyncPartDef (ctx : Ctx) (cfg : DomCfg) (ins : List Nat) (out lo hi : Nat) (e : Expr) (init : Int) : ProcDef :=
  let t : Trigger := tickTrigger cfg (ins.map .sig)
  { run := fun l _ =>
      let l' := { l with initial := false, waiting := true, hits := List.replicate t.length false }
      if l.initial then { loc := l' }
      else
        let r := tickResult l.result
        if r.getD 1 0 != 0 then { loc := l', updates := [setPartUpd out lo hi (pyShr init lo)] }
        else if r.getD 0 0 != 0 then
          { loc := l', updates := [setPartUpd out lo hi (evalTb ctx (sampleEnv ctx.length ins (r.drop 2)) e)] }
        else { loc := l' }
    wake := trigWake t
    trig := trigRun ctx t
    fire := fun l => l }

/-- a process that first waits for a delay and only then enters the documented combinational form:
`await ctx.delay(n)`, then `async for values in ctx.changed(*ins): ctx.set(out, e(values))`.
Only a `changed()` loop that is the *first* thing a process awaits is woken once at time 0 to see the initial values
(`first_await`); this loop is entered later, so its first iteration waits for a real change. -/
def userLateCombDef (ctx : Ctx) (n : Nat) (ins : List Nat) (out : Nat) (e : Expr) : ProcDef :=
  let t0 : Trigger := [.delay n]
  let t : Trigger := ins.map .changed
  { run := fun l _ =>
      if l.initial then
        { loc := { l with initial := false, waiting := true, hits := [false], pc := 0 }, timer := some n }
      else if l.pc == 0 then
        { loc := { l with pc := 1, waiting := true, hits := List.replicate t.length false } }
      else
        { loc := { l with waiting := true, hits := List.replicate t.length false },
          updates := [setUpd ctx out (evalTb ctx (sampleEnv ctx.length ins l.result) e)] }
    wake := fun l slot old new => if l.pc == 0 then l else trigWake t l slot old new
    trig := fun l cur => if l.pc == 0 then trigRun ctx t0 l cur else trigRun ctx t l cur
    fire := fun l => if l.pc == 0 then trigFire t0 l else l }

/-! ## Testbench scripts -/

inductive TbOp
  /-- `ctx.set(target, value)` -/
  | set (target : Expr) (value : Int)
  /-- `ctx.set(target, ctx.get(e))` -/
  | setFrom (target : Expr) (e : Expr)
  /-- record `ctx.get(e)` -/
  | get (e : Expr)
  /-- record `await ctx.tick(d).sample(*es)` -/
  | tick (d : Nat) (samples : List Expr)
  /-- record `await <trigger combination>` -/
  | wait (t : Trigger)
deriving Repr, Inhabited

def TbOp.trigger (doms : List DomCfg) : TbOp → Option Trigger
  | .tick d es => some (tickTrigger (doms.getD d default) es)
  | .wait t => some t
  | _ => none

def TbOp.shown (r : List Int) : TbOp → List Int
  | .tick _ _ => tickResult r
  | _ => r

/-- the trigger a testbench is suspended on -/
def tbTrigger (doms : List DomCfg) (script : List TbOp) (l : Local) : Trigger :=
  match script[l.pc]? with
  | some op => (op.trigger doms).getD []
  | none => []

/-- wakers of a testbench; its `run` is not used by `delta` (testbenches are not in `_processes`) -/
def tbDef (ctx : Ctx) (doms : List DomCfg) (script : List TbOp) : ProcDef where
  run l _ := { loc := l }
  wake l slot old new := trigWake (tbTrigger doms script l) l slot old new
  trig l cur := trigRun ctx (tbTrigger doms script l) l cur
  fire l := trigFire (tbTrigger doms script l) l

/-- a simulation: the static tables and `step_design()` as a function of the state. Everything above
`step_design()` (testbenches, the timeline, `advance`, `run`) sees the processes and the schedule only
through `step`. -/
structure Sim where
  ctx : Ctx
  doms : List DomCfg
  /-- all owners: processes first, then testbenches -/
  defs : List ProcDef
  nproc : Nat
  scripts : List (List TbOp)
  fuel : Nat
  /-- `step_design()` -/
  step : EState → EState

/-- `AsyncProcess.run()` of testbench `t` (owner `S.nproc + t`): execute until the next `await` -/
def tbExec (S : Sim) (t : Nat) (script : List TbOp) : Nat → EState → EState
  | 0, s => s
  | fuel + 1, s =>
    let o := S.nproc + t
    let l := getLoc s o
    match script[l.pc]? with
    | none => setLoc s o { l with done := true }
    | some op =>
      if l.report then
        -- resumed from the wait at `pc`: record what it returned
        let s' := { s with obs := (t, s.now, op.shown l.result) :: s.obs }
        tbExec S t script fuel (setLoc s' o { l with report := false, pc := l.pc + 1 })
      else
        match op with
        | .set tgt v =>
          let s1 := { s with next := assignTbG true S.ctx s.curr tgt 0 v (widthOf S.ctx tgt) s.next }
          let s2 := S.step s1
          tbExec S t script fuel (setLoc s2 o { getLoc s2 o with pc := l.pc + 1 })
        | .setFrom tgt e =>
          let v := evalTb S.ctx s.curr e
          let s1 := { s with next := assignTbG true S.ctx s.curr tgt 0 v (widthOf S.ctx tgt) s.next }
          let s2 := S.step s1
          tbExec S t script fuel (setLoc s2 o { getLoc s2 o with pc := l.pc + 1 })
        | .get e =>
          let s' := { s with obs := (t, s.now, [evalTb S.ctx s.curr e]) :: s.obs }
          tbExec S t script fuel (setLoc s' o { l with pc := l.pc + 1 })
        | op =>
          -- `await`: create the trigger state, register its delay, suspend
          let tr := (op.trigger S.doms).getD []
          let s' := setLoc s o { l with waiting := true, report := true, active := false,
                                        hits := List.replicate tr.length false }
          match tr.delay? with
          | some n => { s' with timers := s'.timers.set o (some (s.now + n)) }
          | none => s'

/-- one `for testbench in self._testbenches` pass; the flag is `not converged` -/
def tbPass (S : Sim) (s : EState) : EState × Bool :=
  (List.range S.scripts.length).foldl (fun (acc : EState × Bool) t =>
    let o := S.nproc + t
    let l := getLoc acc.1 o
    if l.runnable then
      let script := S.scripts.getD t []
      (tbExec S t script (2 * script.length + 2) (setLoc acc.1 o { l with runnable := false }), true)
    else acc) (s, false)

def tbLoop (S : Sim) : Nat → EState → EState
  | 0, s => s
  | fuel + 1, s => let r := tbPass S s; if r.2 then tbLoop S fuel r.1 else r.1

/-- some testbench is still critical -/
def anyCritical (S : Sim) (s : EState) : Bool :=
  (List.range S.scripts.length).any fun t => !(getLoc s (S.nproc + t)).done

/-- `PySimEngine.advance()` -/
def advance (S : Sim) (s : EState) : EState × Bool :=
  let s1 := S.step s
  let s2 := tbLoop S S.fuel s1
  let s3 := (advanceTime S.defs s2).1
  (s3, anyCritical S s3)

/-- `Simulator.run()` -/
def run (S : Sim) : Nat → EState → EState
  | 0, s => s
  | fuel + 1, s => let r := advance S s; if r.2 then run S fuel r.1 else r.1

/-- `Simulator.run_until(deadline)` -/
def runUntil (S : Sim) (deadline : Nat) : Nat → EState → EState
  | 0, s => s
  | fuel + 1, s => if s.now < deadline then runUntil S deadline fuel (advance S s).1 else s

/-! ## Building a simulation -/

inductive ProcKind
  | comb (body : Stmt)
  | sync (d : Nat) (body : Stmt)
  | arst (d : Nat) (body : Stmt)
  | clock (slot phase period : Nat)
  | userComb (ins : List Nat) (out : Nat) (e : Expr)
  | userSync (d : Nat) (ins : List Nat) (out : Nat) (e : Expr)
  | userSyncPart (d : Nat) (ins : List Nat) (out lo hi : Nat) (e : Expr)
  | userLateComb (n : Nat) (ins : List Nat) (out : Nat) (e : Expr)
deriving Inhabited

def ProcKind.toDef (D : Design) : ProcKind → ProcDef
  | .comb body => combDef D body
  | .sync d body => syncDef D d body
  | .arst d body => arstDef D d body
  | .clock slot phase period => clockDef slot phase period
  | .userComb ins out e => userCombDef D.ctx ins out e
  | .userSync d ins out e => userSyncDef D.ctx (D.doms.getD d default) ins out e (D.inits.val out)
  | .userSyncPart d ins out lo hi e =>
    userSyncPartDef D.ctx (D.doms.getD d default) ins out lo hi e (D.inits.val out)
  | .userLateComb n ins out e => userLateCombDef D.ctx n ins out e

/-- `reset()` of each kind of process: which ones are runnable at time 0 -/
def ProcKind.initLocal : ProcKind → Local
  | .comb _ => { runnable := true }
  | .sync _ _ => {}
  | .arst _ _ => {}
  | _ => { runnable := true }

/-- the processes `_FragmentCompiler` creates for a design: one per (fragment, domain), plus a
reset-only process for every synchronous process of an `async_reset` domain -/
def circuitKinds (D : Design) : List ProcKind :=
  D.procs.flatMap fun p => match p.dom with
    | none => [.comb p.body]
    | some d =>
      let cfg := D.doms.getD d default
      if cfg.async && cfg.rst.isSome then [.arst d p.body, .sync d p.body] else [.sync d p.body]

def identitySched (nproc nslots : Nat) : Sched := fun _ => ⟨List.range nproc, List.range nslots⟩
def reverseSched (nproc nslots : Nat) : Sched := fun _ => ⟨(List.range nproc).reverse, (List.range nslots).reverse⟩

def simDefs (D : Design) (kinds : List ProcKind) (scripts : List (List TbOp)) : List ProcDef :=
  kinds.map (·.toDef D) ++ scripts.map (tbDef D.ctx D.doms)

def mkSim (D : Design) (kinds : List ProcKind) (scripts : List (List TbOp)) (sched : Sched) (fuel : Nat) : Sim :=
  { ctx := D.ctx, doms := D.doms,
    defs := simDefs D kinds scripts,
    nproc := kinds.length, scripts, fuel,
    step := fun s => (settle (simDefs D kinds scripts) sched fuel s).1 }

def initState (D : Design) (kinds : List ProcKind) (scripts : List (List TbOp)) : EState :=
  { curr := D.inits, next := D.inits,
    locals := kinds.map (·.initLocal) ++ scripts.map (fun _ => { runnable := true }),
    timers := List.replicate (kinds.length + scripts.length) none }

end Amaranth.Engine
