import AmaranthVerif.Model.Stmt

/-!
# Format specifications, Python's formatting mini-language, Print / Assert in the compiled simulator

Core Lean only (compiled into the native driver `amodel_c20`).

A Python `str` is modelled as its sequence of code points, `PyStr = List Char` (lone surrogates, which
a Python string may hold and a Lean `Char` may not, are reported as `PyErr.surrogate`).

* `Spec`, `parseSpecL` follow `Format._FORMAT_SPEC_PATTERN` (hdl/_ast.py), a regular expression whose
  character classes are pairwise disjoint, so that greedy matching is the only match;
  `Spec.reject` follows the extra rules of `Format._parse_format_spec` in the order of the code.
* `pyFormatInt`, `pyFormatStr` follow CPython's `format_long_internal`, `calc_number_widths`,
  `_PyUnicode_InsertThousandsGrouping`, `fill_number` and `format_string_internal`
  (Python/formatter_unicode.c): `Spec` *is* Python's mini-language (without precision).
  They are tied to CPython differentially by the harness on every run.
* `valueToString` follows `amaranth.sim._pyeval.value_to_string`.
* `escape`, `emitFormat`, `render` follow `_StatementCompiler.emit_format` (sim/_pyrtl.py);
  `strFormat` follows the parser of `str.format` (`MarkupIterator_next`, Objects/stringlib/unicode_format.h)
  for automatically numbered fields. `emitFormat true` is the compiler after the F20 repair (each field
  is `{}` and its argument is `format(value, spec)`); `emitFormat false` is the compiler as found (the
  spec is spliced into the format string, so a `{` or `}` fill character breaks it).
* `evalFormatTb` follows `amaranth.sim._pyeval.eval_format` (used by the VCD writer).
* `PStmt`, `collect`, `runLeaves`, `wakes`, `simulate` follow `_StatementCompiler.on_Switch/on_Print/
  on_Property` and the wake-up condition installed by `_FragmentCompiler` (clock edge of the right
  polarity; `wakesAsFound` is the condition before the F4 repair, which also ran the statements on a
  rising edge of an asynchronous reset).
-/

namespace Amaranth
namespace Fmt

/-- a Python string: its code points -/
abbrev PyStr := List Char

/-! ## The format-spec grammar -/

inductive Align | left | right | eq | center
deriving DecidableEq, Repr, Inhabited

inductive Sign | minus | plus | space
deriving DecidableEq, Repr, Inhabited

inductive Grp | under | comma
deriving DecidableEq, Repr, Inhabited

inductive Ty | b | o | d | x | X | c | s | n
deriving DecidableEq, Repr, Inhabited

/-- the named groups of `_FORMAT_SPEC_PATTERN` -/
structure Spec where
  fill  : Option Char := none
  align : Option Align := none
  sign  : Option Sign := none
  alt   : Bool := false
  zero  : Bool := false
  width : Option Nat := none
  group : Option Grp := none
  ty    : Option Ty := none
deriving DecidableEq, Repr, Inhabited

def alignOf? (c : Char) : Option Align :=
  if c = '<' then some .left else if c = '>' then some .right
  else if c = '=' then some .eq else if c = '^' then some .center else none

def signOf? (c : Char) : Option Sign :=
  if c = '-' then some .minus else if c = '+' then some .plus else if c = ' ' then some .space else none

def grpOf? (c : Char) : Option Grp :=
  if c = '_' then some .under else if c = ',' then some .comma else none

def tyOf? (c : Char) : Option Ty :=
  if c = 'b' then some .b else if c = 'o' then some .o else if c = 'd' then some .d
  else if c = 'x' then some .x else if c = 'X' then some .X else if c = 'c' then some .c
  else if c = 's' then some .s else if c = 'n' then some .n else none

def Align.char : Align → Char | .left => '<' | .right => '>' | .eq => '=' | .center => '^'
def Sign.char : Sign → Char | .minus => '-' | .plus => '+' | .space => ' '
def Grp.char : Grp → Char | .under => '_' | .comma => ','
def Ty.char : Ty → Char
  | .b => 'b' | .o => 'o' | .d => 'd' | .x => 'x' | .X => 'X' | .c => 'c' | .s => 's' | .n => 'n'

/-- `[0-9]` -/
def isDigit (c : Char) : Bool := decide ('0' ≤ c) && decide (c ≤ '9')
/-- `[1-9]` -/
def isDigit19 (c : Char) : Bool := decide ('1' ≤ c) && decide (c ≤ '9')

def digitVal (c : Char) : Nat := c.toNat - 48

/-- `int(digits)` -/
def digitsVal (ds : List Char) : Nat := ds.foldl (fun acc c => acc * 10 + digitVal c) 0

/-- an optional single character of a class -/
def optHead {α : Type} (f : Char → Option α) : List Char → Option α × List Char
  | [] => (none, [])
  | c :: rest => match f c with
    | some a => (some a, rest)
    | none => (none, c :: rest)

/-- an optional literal character (`[#]?`, `[0]?`) -/
def flag (ch : Char) : List Char → Bool × List Char
  | [] => (false, [])
  | c :: rest => if c = ch then (true, rest) else (false, c :: rest)

/-- `(?P<width>[1-9][0-9]*)?` : the digit string and the rest -/
def takeWidth : List Char → List Char × List Char
  | [] => ([], [])
  | c :: rest =>
    if isDigit19 c then ((c :: rest).takeWhile isDigit, (c :: rest).dropWhile isDigit) else ([], c :: rest)

/-- everything after the optional `[[fill]align]` group -/
def parseTail (fill : Option Char) (align : Option Align) (s : List Char) : Option Spec :=
  let r1 := optHead signOf? s
  let r2 := flag '#' r1.2
  let r3 := flag '0' r2.2
  let r4 := takeWidth r3.2
  let r5 := optHead grpOf? r4.2
  let r6 := optHead tyOf? r5.2
  if r6.2 = [] then
    some { fill := fill, align := align, sign := r1.1, alt := r2.1, zero := r3.1,
           width := if r4.1 = [] then none else some (digitsVal r4.1), group := r5.1, ty := r6.1 }
  else none

/-- `_FORMAT_SPEC_PATTERN.fullmatch(spec)`. `(?P<fill>.)` does not match a newline. -/
def parseSpecL : List Char → Option Spec
  | [] => parseTail none none []
  | [f] =>
    match alignOf? f with
    | some al => parseTail none (some al) []
    | none => parseTail none none [f]
  | f :: a :: rest =>
    match alignOf? a with
    | some al => if f = '\n' then none else parseTail (some f) (some al) rest
    | none =>
      match alignOf? f with
      | some al => parseTail none (some al) (a :: rest)
      | none => parseTail none none (f :: a :: rest)

def parseSpec (s : String) : Option Spec := parseSpecL s.toList

/-- why `_parse_format_spec` raises `ValueError`, in the order of the code -/
inductive Reject
  | invalid | alignCaret | groupComma | typeN
  | signedCS | alignEqCS | altCS | zeroCS | signCS | groupCS | widthS
deriving DecidableEq, Repr, Inhabited

def Reject.name : Reject → String
  | .invalid => "invalid" | .alignCaret => "caret" | .groupComma => "comma" | .typeN => "n"
  | .signedCS => "signed" | .alignEqCS => "aligneq" | .altCS => "alt" | .zeroCS => "zero"
  | .signCS => "sign" | .groupCS => "group" | .widthS => "width8"

/-- the extra rules of `_parse_format_spec` for a value of shape `sh` -/
def Spec.reject (sp : Spec) (sh : Shape) : Option Reject :=
  if sp.align = some .center then some .alignCaret
  else if sp.group = some .comma then some .groupComma
  else if sp.ty = some .n then some .typeN
  else if sp.ty = some .c ∨ sp.ty = some .s then
    if sh.signed then some .signedCS
    else if sp.align = some .eq then some .alignEqCS
    else if sp.alt then some .altCS
    else if sp.zero then some .zeroCS
    else if sp.sign.isSome then some .signCS
    else if sp.group.isSome then some .groupCS
    else if sp.ty = some .s ∧ sh.width % 8 ≠ 0 then some .widthS
    else none
  else none

/-- `Format._parse_format_spec(spec, shape)`: the reason of the `ValueError`, or `none` if accepted -/
def rejectL (s : List Char) (sh : Shape) : Option Reject :=
  match parseSpecL s with
  | none => some .invalid
  | some sp => sp.reject sh

def acceptsL (s : List Char) (sh : Shape) : Bool := (rejectL s sh).isNone

def accepts (s : String) (sh : Shape) : Bool := acceptsL s.toList sh

/-! ## Python's `format(int, spec)` -/

/-- what Python raises instead of producing text; `surrogate` marks text this model cannot hold -/
inductive PyErr | valueError | overflow | decode | surrogate
deriving DecidableEq, Repr, Inhabited

def PyErr.name : PyErr → String
  | .valueError => "ValueError" | .overflow => "OverflowError" | .decode => "other:UnicodeDecodeError"
  | .surrogate => "surrogate"

/-- digit `d < 16` in lower case -/
def digitChar (d : Nat) : Char := if d < 10 then Char.ofNat (48 + d) else Char.ofNat (87 + d)

/-- the digits of `n` in base `b`, least significant first (`fuel` bounds the number of digits) -/
def digitsRev (b : Nat) : Nat → Nat → List Char
  | 0, _ => []
  | fuel + 1, n => digitChar (n % b) :: (if n / b = 0 then [] else digitsRev b fuel (n / b))

/-- the digits of `n` in base `b`, most significant first; `"0"` for 0 -/
def digits (b n : Nat) : List Char := (digitsRev b (n + 1) n).reverse

def Spec.base (sp : Spec) : Nat :=
  match sp.ty with
  | some .b => 2 | some .o => 8 | some .x => 16 | some .X => 16 | _ => 10

def Spec.upper (sp : Spec) : Bool := sp.ty = some .X

/-- `#`: the base prefix -/
def Spec.pfx (sp : Spec) : PyStr :=
  if sp.alt then
    match sp.ty with
    | some .b => ['0', 'b'] | some .o => ['0', 'o'] | some .x => ['0', 'x'] | some .X => ['0', 'X']
    | _ => []
  else []

/-- the sign character -/
def Spec.signStr (sp : Spec) (neg : Bool) : PyStr :=
  if neg then ['-'] else
    match sp.sign with
    | some .plus => ['+'] | some .space => [' '] | _ => []

/-- the `0` flag sets the fill character when no fill is given -/
def Spec.fillChar (sp : Spec) : Char :=
  match sp.fill with
  | some f => f
  | none => if sp.zero then '0' else ' '

/-- numbers are right-aligned by default; the `0` flag without an explicit alignment means `=` -/
def Spec.alignNum (sp : Spec) : Align :=
  match sp.align with
  | some a => a
  | none => if sp.zero then .eq else .right

/-- strings are left-aligned by default -/
def Spec.alignStr (sp : Spec) : Align := sp.align.getD .left

def Spec.widthN (sp : Spec) : Nat := sp.width.getD 0

/-- size of a digit group: 4 for `b o x X`, 3 otherwise -/
def Spec.groupSize (sp : Spec) : Nat :=
  match sp.ty with
  | some .b => 4 | some .o => 4 | some .x => 4 | some .X => 4 | _ => 3

/-- `_PyUnicode_InsertThousandsGrouping` (least significant digit first, output likewise): groups of
`g` digits separated by `sep`, zero-filled on the left up to `minW` characters, never starting with a
separator. `useSep` is false for the first group. -/
def groupRev (g : Nat) (sep : Char) : Nat → List Char → Nat → Bool → List Char
  | 0, _, _, _ => []
  | fuel + 1, ds, minW, useSep =>
    let remaining := ds.length
    let len := min g (max (max remaining minW) 1)
    let nChars := min remaining len
    let nZeros := len - remaining
    let grp := (if useSep then [sep] else []) ++ ds.take nChars ++ List.replicate nZeros '0'
    let ds' := ds.drop nChars
    let minW' := minW - len
    if ds'.isEmpty && minW' == 0 then grp
    else grp ++ groupRev g sep fuel ds' (minW' - 1) true

/-- digits (most significant first) with grouping and zero fill up to `minW` -/
def groupDigits (g : Nat) (sep : Char) (minW : Nat) (ds : List Char) : List Char :=
  (groupRev g sep (ds.length + minW + 1) ds.reverse minW false).reverse

/-- no grouping: one group as long as needed (`len = max(remaining, min_width, 1)`) -/
def zeroPad (minW : Nat) (ds : List Char) : List Char := List.replicate (minW - ds.length) '0' ++ ds

/-- `fill_number`: padding around sign, prefix, digits -/
def padNumber (fill : Char) (align : Align) (width : Nat) (sgn pre body : PyStr) : PyStr :=
  let p := width - (sgn.length + pre.length + body.length)
  match align with
  | .left => sgn ++ pre ++ body ++ List.replicate p fill
  | .right => List.replicate p fill ++ sgn ++ pre ++ body
  | .eq => sgn ++ pre ++ List.replicate p fill ++ body
  | .center => List.replicate (p / 2) fill ++ sgn ++ pre ++ body ++ List.replicate (p - p / 2) fill

/-- the digit part for the presentation types `b o d x X` (and none, `n`) -/
def Spec.digitStr (sp : Spec) (v : Int) : PyStr :=
  let ds := digits sp.base v.natAbs
  if sp.upper then ds.map Char.toUpper else ds

/-- `min_width` of the digit part: only with fill `0` and alignment `=` -/
def Spec.minDigits (sp : Spec) (sgn pre : PyStr) : Nat :=
  if sp.fillChar = '0' ∧ sp.alignNum = .eq then sp.widthN - (sgn.length + pre.length) else 0

def Spec.body (sp : Spec) (v : Int) : PyStr :=
  let sgn := sp.signStr (v < 0)
  let minW := sp.minDigits sgn sp.pfx
  match sp.group with
  | none => zeroPad minW (sp.digitStr v)
  | some g => groupDigits sp.groupSize g.char minW (sp.digitStr v)

def isSurrogate (n : Nat) : Bool := decide (0xd800 ≤ n) && decide (n ≤ 0xdfff)

/-- `format(v, spec)` for an `int` -/
def pyFormatInt (sp : Spec) (v : Int) : Except PyErr PyStr :=
  match sp.ty with
  | some .s => .error .valueError
  | some .c =>
    if sp.sign.isSome ∨ sp.alt ∨ sp.group.isSome then .error .valueError
    else if v < 0 ∨ 0x110000 ≤ v then .error .overflow
    else if isSurrogate v.toNat then .error .surrogate
    else .ok (padNumber sp.fillChar sp.alignNum sp.widthN [] [] [Char.ofNat v.toNat])
  | _ =>
    if (sp.group = some .comma ∧ sp.base ≠ 10) then .error .valueError
    else .ok (padNumber sp.fillChar sp.alignNum sp.widthN (sp.signStr (v < 0)) sp.pfx (sp.body v))

/-- the total function the theorems are about: the integer presentation types -/
def pyFormat (sp : Spec) (v : Int) : PyStr :=
  padNumber sp.fillChar sp.alignNum sp.widthN (sp.signStr (v < 0)) sp.pfx (sp.body v)

/-- `format(s, spec)` for a `str` (no precision in this grammar) -/
def pyFormatStr (sp : Spec) (s : PyStr) : Except PyErr PyStr :=
  if sp.sign.isSome ∨ sp.alt ∨ sp.group.isSome ∨ sp.alignStr = .eq then .error .valueError
  else match sp.ty with
    | none | some .s => .ok (padNumber sp.fillChar sp.alignStr sp.widthN [] [] s)
    | _ => .error .valueError

/-! ## `value_to_string` -/

/-- the non-zero bytes of `v`, least significant first -/
def bytesOf : Nat → Nat → List Nat
  | 0, _ => []
  | fuel + 1, v =>
    if v = 0 then [] else
      (if v % 256 = 0 then [] else [v % 256]) ++ bytesOf fuel (v / 256)

/-- `value_to_string(value)`: `bytearray.decode()` is strict UTF-8 (the Python loop does not
terminate on negative values; `Format` only accepts `s` for unsigned shapes) -/
def valueToString (v : Int) : Except PyErr PyStr :=
  let bs := bytesOf (v.toNat + 1) v.toNat
  match String.fromUTF8? ⟨(bs.map UInt8.ofNat).toArray⟩ with
  | some s => .ok s.toList
  | none => .error .decode

/-! ## `str.format` -/

inductive Arg
  | int (v : Int)
  | str (s : PyStr)
deriving Repr, Inhabited

/-- `format(arg, spec)` -/
def formatArg (a : Arg) (spec : List Char) : Except PyErr PyStr :=
  match parseSpecL spec with
  | none => .error .valueError
  | some sp =>
    match a with
    | .int v => pyFormatInt sp v
    | .str s => pyFormatStr sp s

/-- `s.replace(c, rep)` for a single character `c` -/
def replaceChar (c : Char) (rep : List Char) : List Char → List Char
  | [] => []
  | x :: xs => (if x = c then rep else [x]) ++ replaceChar c rep xs

/-- `chunk.replace("{", "{{").replace("}", "}}")` -/
def escape (s : PyStr) : PyStr := replaceChar '}' ['}', '}'] (replaceChar '{' ['{', '{'] s)

/-- parser states of `str.format`: literal text; just after `{`; just after `}`; inside a field -/
inductive St
  | lit
  | opened
  | closed
  | field (acc : List Char)

/-- a replacement field with automatic numbering: `{}` or `{:spec}` -/
def fieldText (content : List Char) (args : List Arg) : Except PyErr (PyStr × List Arg) :=
  match args with
  | [] => .error .valueError                       -- IndexError in Python; never produced by emit_format
  | a :: rest =>
    match content with
    | [] => (fun t => (t, rest)) <$> formatArg a []
    | ':' :: spec => (fun t => (t, rest)) <$> formatArg a spec
    | _ => .error .valueError

def prependE (l : PyStr) (r : Except PyErr PyStr) : Except PyErr PyStr :=
  match r with
  | .ok t => .ok (l ++ t)
  | .error e => .error e

/-- `fmt.format(*args)`: `{{`/`}}` are literal braces, a lone `}` is an error, `{…}` is a field (a `{`
inside a field would need recursive expansion, which `emit_format` never intends: an error here as it
is, for these strings, in Python) -/
def strFormatGo : St → List Arg → List Char → Except PyErr PyStr
  | .lit, _, [] => .ok []
  | .opened, _, [] => .error .valueError          -- Single '{' encountered in format string
  | .closed, _, [] => .error .valueError          -- Single '}' encountered in format string
  | .field _, _, [] => .error .valueError         -- expected '}' before end of string
  | .lit, args, c :: cs =>
    if c = '{' then strFormatGo .opened args cs
    else if c = '}' then strFormatGo .closed args cs
    else prependE [c] (strFormatGo .lit args cs)
  | .opened, args, c :: cs =>
    if c = '{' then prependE ['{'] (strFormatGo .lit args cs)
    else if c = '}' then
      match fieldText [] args with
      | .ok (t, args') => prependE t (strFormatGo .lit args' cs)
      | .error e => .error e
    else strFormatGo (.field [c]) args cs
  | .closed, args, c :: cs =>
    if c = '}' then prependE ['}'] (strFormatGo .lit args cs)
    else .error .valueError
  | .field acc, args, c :: cs =>
    if c = '{' then .error .valueError
    else if c = '}' then
      match fieldText acc.reverse args with
      | .ok (t, args') => prependE t (strFormatGo .lit args' cs)
      | .error e => .error e
    else strFormatGo (.field (c :: acc)) args cs

def strFormat (fmt : List Char) (args : List Arg) : Except PyErr PyStr := strFormatGo .lit args fmt

/-- what `str.format` makes of a string without fields -/
def pyFormatString (fmt : List Char) : Except PyErr PyStr := strFormat fmt []

/-! ## `emit_format` -/

inductive Chunk
  | lit (s : PyStr)
  | val (e : Expr) (spec : List Char)
deriving Repr, Inhabited

/-- an argument expression of the generated `.format(...)` call: `sign(e)`, possibly through
`value_to_string`, possibly (after the repair) through `format(·, spec)` -/
structure ArgE where
  e : Expr
  toStr : Bool
  pre : Option (List Char)
deriving Repr, Inhabited

/-- `format_desc.endswith("s")` -/
def endsWithS (spec : List Char) : Bool := spec.getLast? == some 's'

/-- the spec handed to Python: `format_desc[:-1]` on the `s` path -/
def specSent (spec : List Char) : List Char := if endsWithS spec then spec.dropLast else spec

def emitFormat (repaired : Bool) : List Chunk → List Char × List ArgE
  | [] => ([], [])
  | .lit s :: rest =>
    let r := emitFormat repaired rest
    (escape s ++ r.1, r.2)
  | .val e spec :: rest =>
    let r := emitFormat repaired rest
    if repaired then (['{', '}'] ++ r.1, ⟨e, endsWithS spec, some (specSent spec)⟩ :: r.2)
    else ('{' :: ':' :: specSent spec ++ '}' :: r.1, ⟨e, endsWithS spec, none⟩ :: r.2)

def evalArg (ctx : Ctx) (env : Env) (a : ArgE) : Except PyErr Arg :=
  let v := rtlValue ctx env a.e
  let x : Except PyErr Arg := if a.toStr then Arg.str <$> valueToString v else .ok (Arg.int v)
  match x with
  | .error e => .error e
  | .ok x =>
    match a.pre with
    | none => .ok x
    | some sp => Arg.str <$> formatArg x sp

def evalArgs (ctx : Ctx) (env : Env) : List ArgE → Except PyErr (List Arg)
  | [] => .ok []
  | a :: rest =>
    match evalArg ctx env a with
    | .error e => .error e
    | .ok x =>
      match evalArgs ctx env rest with
      | .error e => .error e
      | .ok xs => .ok (x :: xs)

/-- the text a compiled `Print` writes / a failing `Assert` carries -/
def render (repaired : Bool) (ctx : Ctx) (env : Env) (chunks : List Chunk) : Except PyErr PyStr :=
  let r := emitFormat repaired chunks
  match evalArgs ctx env r.2 with
  | .error e => .error e
  | .ok args => strFormat r.1 args

/-- `eval_format(sim, fmt)` (testbench evaluator; feeds the string variables of the VCD writer) -/
def evalFormatTb (ctx : Ctx) (env : Env) : List Chunk → Except PyErr PyStr
  | [] => .ok []
  | .lit s :: rest => prependE s (evalFormatTb ctx env rest)
  | .val e spec :: rest =>
    let v := evalTb ctx env e
    let t : Except PyErr PyStr :=
      if endsWithS spec then
        match valueToString v with
        | .ok s => formatArg (.str s) spec.dropLast
        | .error e => .error e
      else formatArg (.int v) spec
    match t with
    | .ok t => prependE t (evalFormatTb ctx env rest)
    | .error e => .error e

/-! ## Statements with Print / Assert / Assume, and the synchronous process -/

inductive PKind | assert | assume
deriving DecidableEq, Repr, Inhabited

/-- a `Print` or `Property` statement; `id` identifies the statement (its `src_loc`) -/
inductive Leaf
  | print (id : Nat) (msg : List Chunk)
  | prop (id : Nat) (kind : PKind) (test : Expr) (msg : Option (List Chunk))
deriving Repr, Inhabited

def Leaf.id : Leaf → Nat
  | .print i _ => i
  | .prop i _ _ _ => i

/-- `Stmt` of `Model/Stmt.lean` extended with Print / Property nodes -/
inductive PStmt
  | skip
  | seq (a b : PStmt)
  | assign (lhs rhs : Expr)
  | ite (test : Expr) (pats : List Pat) (thn els : PStmt)
  | fx (l : Leaf)
deriving Repr, Inhabited

/-- the Print / Property statements executed by one run of the compiled process, in execution order
(`on_Switch`: first matching case; `on_statements`: in order) -/
def collect (ctx : Ctx) (cur : Env) : PStmt → List Leaf
  | .skip => []
  | .seq a b => collect ctx cur a ++ collect ctx cur b
  | .assign _ _ => []
  | .ite test pats thn els =>
    if matchesAny pats (mask (widthOf ctx test) (evalRtl ctx cur test)) then collect ctx cur thn
    else collect ctx cur els
  | .fx l => [l]

/-- the assignments of the statement alone: what `execRtl` runs (Print / Property write nothing) -/
def PStmt.erase : PStmt → Stmt
  | .skip => .skip
  | .seq a b => .seq a.erase b.erase
  | .assign l r => .assign l r
  | .ite t p a b => .ite t p a.erase b.erase
  | .fx _ => .skip

inductive Stop
  | assertion (id : Nat) (text : PyStr)   -- `AssertionError(text)` raised by statement `id`
  | pyError (e : PyErr)                   -- an exception out of Python's formatting
deriving DecidableEq, Repr, Inhabited

structure RunRes where
  out : PyStr
  stop : Option Stop
deriving Repr, Inhabited

def PKind.text : PKind → PyStr
  | .assert => "Assertion violated".toList
  | .assume => "Assumption violated".toList

/-- run the executed Print / Property statements in order: a Print appends to stdout, a Property
whose (sign-normalised) test is zero raises `AssertionError` -/
def runLeaves (repaired : Bool) (ctx : Ctx) (cur : Env) : List Leaf → RunRes
  | [] => ⟨[], none⟩
  | .print _ msg :: rest =>
    match render repaired ctx cur msg with
    | .ok t => let r := runLeaves repaired ctx cur rest; ⟨t ++ r.out, r.stop⟩
    | .error e => ⟨[], some (.pyError e)⟩
  | .prop id k test msg :: rest =>
    if rtlValue ctx cur test = 0 then
      match msg with
      | none => ⟨[], some (.assertion id k.text)⟩
      | some m =>
        match render repaired ctx cur m with
        | .ok t => ⟨[], some (.assertion id (k.text ++ [':', ' '] ++ t))⟩
        | .error e => ⟨[], some (.pyError e)⟩
    else runLeaves repaired ctx cur rest

structure Domain where
  posedge : Bool
  hasRst : Bool
  asyncRst : Bool
deriving Repr, Inhabited

/-- one change of the domain's clock and/or reset (both may change at once, or neither), with the
values of all signals the process reads at that instant -/
structure Event where
  clk0 : Bool
  clk1 : Bool
  rst0 : Bool
  rst1 : Bool
  env : Env
deriving Repr, Inhabited

/-- `edge_waker(domain_process, polarity)` on `clk`: the domain's statements run when the clock
changes to the active level. (After the F4 repair a rising asynchronous reset wakes a separate
process that only loads initial values; it runs no Print and checks no Property.) -/
def wakes (d : Domain) (e : Event) : Bool :=
  (e.clk0 != e.clk1) && (e.clk1 == d.posedge)

/-- the wake-up condition as found (F4): with `domain.async_reset and domain.rst is not None` the
whole process, Prints and Properties included, also ran on a rising edge of `rst` -/
def wakesAsFound (d : Domain) (e : Event) : Bool :=
  ((e.clk0 != e.clk1) && (e.clk1 == d.posedge)) ||
  (d.asyncRst && d.hasRst && (e.rst0 != e.rst1) && e.rst1)

/-- the Print / Property statements the domain's process executes at an event, in execution order -/
def firedAt (d : Domain) (ctx : Ctx) (body : PStmt) (e : Event) : List Leaf :=
  if wakes d e then collect ctx e.env body else []

structure Trace where
  /-- text written at each processed event -/
  outs : List PyStr
  /-- index of the event at which `Simulator.run()` raised, and what -/
  stop : Option (Nat × Stop)
deriving Repr, Inhabited

/-- the whole simulation as far as Print / Assert / Assume are concerned; `i` numbers the events -/
def simulate (repaired : Bool) (d : Domain) (ctx : Ctx) (body : PStmt) : List Event → Nat → Trace
  | [], _ => ⟨[], none⟩
  | ev :: rest, i =>
    if wakes d ev then
      let r := runLeaves repaired ctx ev.env (collect ctx ev.env body)
      match r.stop with
      | some s => ⟨[r.out], some (i, s)⟩
      | none =>
        let t := simulate repaired d ctx body rest (i + 1)
        ⟨r.out :: t.outs, t.stop⟩
    else
      let t := simulate repaired d ctx body rest (i + 1)
      ⟨[] :: t.outs, t.stop⟩

end Fmt
end Amaranth
