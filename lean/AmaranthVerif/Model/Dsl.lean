import AmaranthVerif.Model.Stmt
import AmaranthVerif.Spec.Prog

/-!
# Lowering of the Module DSL to `Switch` statements (`Module._pop_ctrl`, `Switch.__init__`)

* `If/Elif/Else` with `n` tests becomes **one** `Switch(Cat(tests), …)`; the `i`-th branch has the
  pattern `("1" + "-"*i).rjust(n, "-")`, `Else` is the default case; a test that is not exactly one
  bit wide is reduced with `.bool()` first. First-match priority makes the encoding a priority chain.
* `Switch/Case`: string patterns are kept, integer patterns become `to_binary(k & mask, width)`,
  integers the test's shape cannot represent are dropped (the case can then never be selected).
-/

namespace Amaranth

/-- `("1" + "-" * i).rjust(n, "-")` -/
def ifPattern (n i : Nat) : Pat := List.replicate (n - 1 - i) .any ++ [.one] ++ List.replicate i .any

/-- `if len(if_test) != 1: if_test = if_test.bool()` -/
def boolify (ctx : Ctx) (c : Expr) : Expr := if widthOf ctx c = 1 then c else .op1 .bool c

def catList : List Expr → Expr
  | [] => Expr.nil
  | e :: es => .cat e (catList es)

/-- `to_binary(v, w)`: `w` binary digits of `v`, most significant first -/
def toBinary (v : Nat) : Nat → Pat
  | 0 => []
  | w + 1 => (if v.testBit w then PatBit.one else PatBit.zero) :: toBinary v w

/-- `_normalize_patterns` followed by `Switch.__init__`: `none` when the pattern is dropped -/
def normUPat (s : Shape) : UPat → Option Pat
  | .bits p => some p
  | .int k => if s.contains k then some (toBinary (k % 2 ^ s.width).toNat s.width) else none

def normUPats (s : Shape) (ps : List UPat) : List Pat := ps.filterMap (normUPat s)

mutual
def lower (ctx : Ctx) : Prog → Stmt
  | .assign l r => .assign l r
  | .ifs branches els =>
    lowerIf ctx (catList (ifTests ctx branches)) branches.length 0 branches (lowerList ctx els)
  | .switch test cases => lowerCases ctx test cases
def lowerList (ctx : Ctx) : List Prog → Stmt
  | [] => .skip
  | p :: ps => .seq (lower ctx p) (lowerList ctx ps)
/-- the `i`-th branch onwards of an If-chain whose concatenated tests are `t` (`n` tests) -/
def lowerIf (ctx : Ctx) (t : Expr) (n : Nat) : Nat → List (Expr × List Prog) → Stmt → Stmt
  | _, [], els => .ite t [Pat.dontCare n] els .skip
  | i, (_, body) :: rest, els => .ite t [ifPattern n i] (lowerList ctx body) (lowerIf ctx t n (i + 1) rest els)
def lowerCases (ctx : Ctx) (test : Expr) : List (Option (List UPat) × List Prog) → Stmt
  | [] => .skip
  | (none, body) :: rest =>
    .ite test [Pat.dontCare (widthOf ctx test)] (lowerList ctx body) (lowerCases ctx test rest)
  | (some pats, body) :: rest =>
    .ite test (normUPats (shapeOf ctx test) pats) (lowerList ctx body) (lowerCases ctx test rest)
def ifTests (ctx : Ctx) : List (Expr × List Prog) → List Expr
  | [] => []
  | (c, _) :: rest => boolify ctx c :: ifTests ctx rest
end

end Amaranth
