import AmaranthVerif.Model.Shape
import AmaranthVerif.Model.Expr

/-!
# Shape casting, constant normalisation, constant casting, initial values (C10)

Executable model, mechanism by mechanism, of

* `Shape.cast` on a `range` (`amaranth/hdl/_ast.py`): `len(obj)`, `obj[0]`, `obj[-1]`, the two
  `bits_for` calls and the `[0]` special case;
* `Shape._cast_plain_enum`: the three-armed fold over the members' constant shapes;
* `Const.__init__`: the `value >> (width - 1) & 1` test with its `|= -(1 << width)` and
  `&= (1 << width) - 1` arms, written with Python's integer operators;
* `Const.cast` on `Const` / `Concat` / `Slice`;
* `_get_init_value` (signals and memory rows), including its two warnings and the range check;
* `MemoryData.Init.__init__`.

Core Lean only: this file is compiled into the native driver `amodel_c10`.
`ceilLog2` / `bitsFor` (`amaranth/utils.py`) live in `Model/Shape.lean`.
-/

namespace Amaranth

/-! ## `range` objects -/

/-- CPython `compute_range_length(lo, hi, step)` for a positive step: the number of `lo + i*step`
below `hi`. -/
def rangeLenPos (d step : Int) : Nat :=
  if d ≤ 0 then 0 else ((d - 1) / step + 1).toNat

/-- Python `len(range(start, stop, step))` (`step ≠ 0`; Python refuses to build `step = 0`).
For a negative step CPython swaps the bounds and negates the step. -/
def rangeLen (start stop step : Int) : Nat :=
  if step > 0 then rangeLenPos (stop - start) step
  else if step < 0 then rangeLenPos (start - stop) (-step)
  else 0

/-- Python `range(start, stop, step)[i]` for `0 ≤ i < len`. -/
def rangeItem (start step : Int) (i : Nat) : Int := start + (i : Int) * step

/-- Python `v in range(start, stop, step)` for an integer `v` (CPython `range_contains_long`). -/
def rangeContains (start stop step v : Int) : Bool :=
  if step > 0 then decide (start ≤ v) && decide (v < stop) && decide ((v - start) % step = 0)
  else if step < 0 then decide (stop < v) && decide (v ≤ start) && decide ((start - v) % (-step) = 0)
  else false

/-- `Shape.cast(range(start, stop, step))`, with `if not obj` for `if len(obj) == 0`
(the repaired form, F15: `len()` overflows for ranges of 2^63 or more elements; both agree on
every range whose length Python can compute). -/
def castRange (start stop step : Int) : Shape :=
  let n := rangeLen start stop step
  if n = 0 then ⟨0, false⟩
  else
    let first := rangeItem start step 0          -- obj[0]
    let last  := rangeItem start step (n - 1)    -- obj[-1]
    let signed := decide (first < 0) || decide (last < 0)
    let width := max (bitsFor first signed) (bitsFor last signed)
    let width := if first = 0 ∧ last = 0 then 0 else width
    ⟨width, signed⟩

/-- what the unrepaired code does on a range: `len(obj)` raises `OverflowError` when the length
does not fit a C `ssize_t` (F15). `none` stands for that exception. -/
def castRangeOld (start stop step : Int) : Option Shape :=
  if rangeLen start stop step ≥ 2 ^ 63 then none else some (castRange start stop step)

/-! ## Enumerations -/

/-- the shape `Const(v)` gets: `Shape(bits_for(value), signed=value < 0)` -/
def constShape (v : Int) : Shape := ⟨bitsFor v false, decide (v < 0)⟩

/-- one iteration of the loop of `Shape._cast_plain_enum` -/
def castEnumStep (acc : Shape) (m : Shape) : Shape :=
  if !acc.signed && m.signed then ⟨max (acc.width + 1) m.width, true⟩
  else if acc.signed && !m.signed then ⟨max acc.width (m.width + 1), acc.signed⟩
  else ⟨max acc.width m.width, acc.signed⟩

/-- `Shape._cast_plain_enum` given the members' constant shapes in definition order -/
def castEnumShapes (ms : List Shape) : Shape := ms.foldl castEnumStep ⟨0, false⟩

/-- `Shape.cast(E)` for an enumeration whose member values are the integers `vals` -/
def castEnum (vals : List Int) : Shape := castEnumShapes (vals.map constShape)

/-! ## `Const.__init__` -/

/-- the body of `Const.__init__` after the shape has been determined:
```
if shape.signed and value >> (shape.width - 1) & 1:
    value |= -(1 << shape.width)
else:
    value &= (1 << shape.width) - 1
```
(`shape.width - 1` is never evaluated for width 0 because signed shapes have positive width.) -/
def constNorm (v : Int) (s : Shape) : Int :=
  if s.signed && (pyAnd (pyShr v (s.width - 1)) 1 != 0) then
    pyOr v (-(pyShl 1 s.width))
  else
    pyAnd v (pyShl 1 s.width - 1)

/-- `Const(value, width)` with an integer shape: `Shape(width, signed=value < 0)`.
`none` is the `TypeError` of `Shape.__init__` (signed, width 0). -/
def constInt (v : Int) (width : Nat) : Option (Int × Shape) :=
  let s : Shape := ⟨width, decide (v < 0)⟩
  if s.signed && width == 0 then none else some (constNorm v s, s)

/-- `Const(value)`: minimal shape -/
def constAuto (v : Int) : Int × Shape := (constNorm v (constShape v), constShape v)

/-- `Const(value, range(start, stop, step))`: value and whether the off-by-one `SyntaxWarning`
(`value == shape.stop`) is issued -/
def constRange (v start stop step : Int) : Int × Shape × Bool :=
  let s := castRange start stop step
  (constNorm v s, s, decide (v = stop))

/-! ## `Const.cast` -/

/-- `Const.cast(obj)`: `(value, shape)` of the resulting constant; `none` is `TypeError`.
`Concat` is the right-nested binary encoding of `Model/Expr.lean`, so the loop
```
value = 0; width = 0
for part in obj.parts:
    const = Const.cast(part)
    part_value = Const(const.value, unsigned(len(const))).value
    value |= part_value << width
    width += len(const)
return Const(value, width)
```
runs over exactly two parts. -/
def constCast : Expr → Option (Int × Shape)
  | .const v s => some (v, s)
  | .cat lo hi =>
    match constCast lo, constCast hi with
    | some (lv, ls), some (hv, hs) =>
      let value : Int := 0
      let width : Nat := 0
      let value := pyOr value (pyShl (constNorm lv ⟨ls.width, false⟩) width)
      let width := width + ls.width
      let value := pyOr value (pyShl (constNorm hv ⟨hs.width, false⟩) width)
      let width := width + hs.width
      constInt value width
    | _, _ => none
  | .slice a start stop =>
    match constCast a with
    | some (v, _) => some (constNorm (pyShr v start) ⟨stop - start, false⟩, ⟨stop - start, false⟩)
    | none => none
  | _ => none

/-- the expressions `Const.cast` accepts -/
def Expr.isConstTree : Expr → Bool
  | .const _ _ => true
  | .cat lo hi => lo.isConstTree && hi.isConstTree
  | .slice a _ _ => a.isConstTree
  | _ => false

/-! ## Initial values -/

/-- the `init=` argument as `_get_init_value` sees it -/
inductive InitArg
  | none                 -- `init=None` / not given
  | int (v : Int)        -- a Python integer (or an `IntEnum` member)
  | expr (e : Expr)      -- any other value-castable object
deriving Repr, Inhabited

/-- the `shape=` argument: a plain shape, or a `range` -/
inductive ShapeArg
  | shape (s : Shape)
  | range (start stop step : Int)
deriving Repr, Inhabited

/-- `Shape.cast(orig_shape)` -/
def ShapeArg.cast : ShapeArg → Shape
  | .shape s => s
  | .range a b k => castRange a b k

inductive InitWarn
  | none
  | signedToUnsigned     -- "Initial value … is signed, but the signal shape is …"
  | truncated            -- "Initial value … will be truncated to the signal shape …"
deriving DecidableEq, Repr, Inhabited

inductive InitResult
  | ok (v : Int) (w : InitWarn)
  | typeError            -- not constant-castable
  | syntaxError          -- range-shaped, initial value not in the range
deriving DecidableEq, Repr, Inhabited

/-- `Const.cast(init)` after `if init is None: init = 0` -/
def initConst : InitArg → Option (Int × Shape)
  | .none => some (constAuto 0)
  | .int v => some (constAuto v)
  | .expr e => constCast e

/-- "Avoid false positives for all-zeroes and all-ones":
`orig_init is not None and not (isinstance(orig_init, int) and orig_init in (0, -1))` -/
def initWarnApplies : InitArg → Bool
  | .none => false
  | .int v => !(v == 0 || v == -1)
  | .expr _ => true

/-- the two warnings of `_get_init_value` -/
def initWarn (arg : InitArg) (ishape shape : Shape) : InitWarn :=
  if initWarnApplies arg then
    if ishape.signed && !shape.signed then .signedToUnsigned
    else if decide (ishape.width > shape.width) ||
            (decide (ishape.width = shape.width) && shape.signed && !ishape.signed) then .truncated
    else .none
  else .none

/-- `isinstance(orig_shape, range) and orig_init is not None and init.value not in orig_shape`: the value of the
constant the initializer was cast to is tested (after the F35 repair; the code as found tested the object itself,
which raised TypeError for a `Const` and refused in-range plain `Enum` members) -/
def initOutOfRange : ShapeArg → InitArg → Bool
  | .range a b k, .int v => !rangeContains a b k v
  | .range a b k, .expr e =>
    match constCast e with
    | some (v, _) => !rangeContains a b k v
    | none => false
  | _, _ => false

/-- `_get_init_value(init, shape)` for shapes that are not `ShapeCastable` objects -/
def initValue (arg : InitArg) (sh : ShapeArg) : InitResult :=
  let shape := sh.cast
  match initConst arg with
  | none => .typeError
  | some (iv, ishape) =>
    let w := initWarn arg ishape shape
    if initOutOfRange sh arg then .syntaxError
    else .ok (constNorm iv shape) w

/-- `MemoryData.Init.__init__` for plain shapes: `[0] * depth`, then `self[index] = item` for each
given element in order. `none` is the `ValueError` "value count exceeds memory depth"; the first
element that fails aborts the construction with its error. -/
def memInit (elems : List InitArg) (sh : ShapeArg) (depth : Nat) : Option (List InitResult) :=
  if elems.length > depth then none
  else some (elems.map (fun e => initValue e sh) ++ List.replicate (depth - elems.length) (.ok 0 .none))

end Amaranth
