/-!
# S-expressions for the harness ⇄ driver line protocol (unverified I/O glue)
-/

namespace Amaranth

inductive Sexp
  | atom (s : String)
  | list (xs : List Sexp)
deriving Repr, Inhabited

namespace Sexp

private def isDelim (c : Char) : Bool := c == '(' || c == ')' || c == ' ' || c == '\t' || c == '\n' || c == '\r'

/-- read one atom; a double-quoted atom may contain any character, with `\\`, `\"`, `\n` escapes -/
private partial def readQuoted (cs : List Char) (acc : List Char) : Option (String × List Char) :=
  match cs with
  | [] => none
  | '"' :: rest => some (String.ofList acc.reverse, rest)
  | '\\' :: 'n' :: rest => readQuoted rest ('\n' :: acc)
  | '\\' :: c :: rest => readQuoted rest (c :: acc)
  | c :: rest => readQuoted rest (c :: acc)

private partial def readAtom (cs : List Char) (acc : List Char) : String × List Char :=
  match cs with
  | [] => (String.ofList acc.reverse, [])
  | c :: rest => if isDelim c then (String.ofList acc.reverse, cs) else readAtom rest (c :: acc)

mutual
partial def parseOne (cs : List Char) : Option (Sexp × List Char) :=
  match cs with
  | [] => none
  | c :: rest =>
    if c == ' ' || c == '\t' || c == '\n' || c == '\r' then parseOne rest
    else if c == '(' then parseList rest []
    else if c == ')' then none
    else if c == '"' then
      match readQuoted rest [] with
      | some (s, rest') => some (.atom s, rest')
      | none => none
    else
      let (a, rest') := readAtom cs []
      some (.atom a, rest')
partial def parseList (cs : List Char) (acc : List Sexp) : Option (Sexp × List Char) :=
  match cs with
  | [] => none
  | c :: rest =>
    if c == ' ' || c == '\t' || c == '\n' || c == '\r' then parseList rest acc
    else if c == ')' then some (.list acc.reverse, rest)
    else
      match parseOne cs with
      | some (x, rest') => parseList rest' (x :: acc)
      | none => none
end

def parse (s : String) : Option Sexp :=
  match parseOne s.toList with
  | some (x, _) => some x
  | none => none

def toInt? : Sexp → Option Int
  | .atom s => s.toInt?
  | _ => none

def toNat? : Sexp → Option Nat
  | .atom s => s.toNat?
  | _ => none

def ints? (xs : List Sexp) : Option (List Int) := xs.mapM toInt?
def nats? (xs : List Sexp) : Option (List Nat) := xs.mapM toNat?

end Sexp

def showInts (xs : List Int) : String := " ".intercalate (xs.map toString)

end Amaranth
