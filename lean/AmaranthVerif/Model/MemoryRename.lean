import AmaranthVerif.Model.Memory

/-!
# `DomainRenamer` around a memory

`hdl/_xfrm.py`, `DomainRenamer.map_memory_ports`: for every read port and every write port of the `MemoryInstance`,
`if port._domain in self.domain_map: port._domain = self.domain_map[port._domain]` — **one lookup per port**. An entry
whose source is the target of another entry does not act on a port that other entry has just moved: with
`{"a": "b", "b": "a"}` the ports of `a` and `b` change places, with `{"a": "b", "b": "c"}` a port of `a` ends in `b`.
Asynchronous (`"comb"`) ports are never renamed (`DomainRenamer.__init__` refuses `"comb"` as a source or a target).
Nothing else of the memory changes.

Domains are numbers here: `0 … doms.length - 1` are the clock domains of the design (`Cfg.doms`), larger numbers are
names that exist only before the renaming (a port may be declared in a domain `x` that the renamer maps to a real one).
-/

namespace Amaranth.Mem

/-- `domain_map.get(d, d)` on the entries of the dictionary in their order (a dictionary lists every source once) -/
def renameDom : List (Nat × Nat) → Nat → Nat
  | [], d => d
  | (s, t) :: rest, d => if s == d then t else renameDom rest d

/-- the memory as `DomainRenamer(map)` leaves it -/
def Cfg.rename (c : Cfg) (m : List (Nat × Nat)) : Cfg :=
  { c with rds := c.rds.map fun r => { r with dom := r.dom.map (renameDom m) },
           wrs := c.wrs.map fun w => { w with dom := renameDom m w.dom } }

end Amaranth.Mem
