import AmaranthVerif.Model.Expr

/-!
# Assignment: the testbench path and the compiled-circuit path

* `assignTb` follows `amaranth.sim._pyeval._eval_assign_inner(sim, lhs, lhs_start, rhs, rhs_len)`:
  `(start, len)` windows pushed down the target. `clip = true` is the code after the F2 repair
  (the window is clipped to the target's width on entry), `clip = false` the code as found.
* `assignRtl` follows `amaranth.sim._pyrtl._LHSValueCompiler`: whole-value read-modify-write
  through `next_<signal>` variables; `evalLrhs` is the `mode="next"` right-hand-side compiler used
  for the read half (signals read their pending value, offsets and selectors read the current one).

`cur` is the current state (what offsets, selectors and right-hand sides read), `nxt` the pending
state being built.
-/

namespace Amaranth

def Env.put (env : Env) (i : Nat) (v : Int) : Env := List.set env i v

/-- `value & ~mask | (rhs << start) & mask`, then masked and re-signed to the signal's shape -/
def writeWindow (s : Shape) (old : Int) (start stop : Nat) (rhs : Int) : Int :=
  let m : Int := pyShl 1 stop - pyShl 1 start
  let v := pyOr (pyAnd old (pyNot m)) (pyAnd (pyShl rhs start) m)
  norm s v

def assignTbG (clip : Bool) (ctx : Ctx) (cur : Env) : Expr → Nat → Int → Nat → Env → Env
  | e, start, rhs, len0, nxt =>
    let w := widthOf ctx e
    if clip && decide (start ≥ w) then nxt else
    let len := if clip then min len0 (w - start) else len0
    match e with
    | .op1 .u a => assignTbG clip ctx cur a start rhs len nxt
    | .op1 .s a => assignTbG clip ctx cur a start rhs len nxt
    | .sig i =>
      let sw := (ctx.shape i).width
      if start ≥ sw then nxt
      else
        let stop := min (start + len) sw
        nxt.put i (writeWindow (ctx.shape i) (nxt.val i) start stop rhs)
    | .slice a s _ => assignTbG clip ctx cur a (start + s) rhs len nxt
    | .cat lo hi =>
      -- two parts: `lo` at [0, wlo), `hi` at [wlo, wlo + whi)
      let step := fun (part : Expr) (pstart : Nat) (nxt : Env) (rec : Nat → Int → Nat → Env → Env) =>
        let plen := widthOf ctx part
        let pstop := pstart + plen
        if start ≥ pstop then nxt
        else if start + len ≤ pstart then nxt
        else
          let plstart := if start < pstart then 0 else start - pstart
          let prstart := if start < pstart then pstart - start else 0
          let prlen := if start + len ≥ pstop then pstop - start - prstart else len - prstart
          let prhs := mask prlen (pyShr rhs prstart)
          rec plstart prhs prlen nxt
      let n1 := step lo 0 nxt (fun a b c d => assignTbG clip ctx cur lo a b c d)
      step hi (widthOf ctx lo) n1 (fun a b c d => assignTbG clip ctx cur hi a b c d)
    | .part a off _ stride =>
      assignTbG clip ctx cur a (start + (evalTb ctx cur off).toNat * stride) rhs len nxt
    | .ite test pats thn els =>
      if matchesAny pats (evalTb ctx cur test) then assignTbG clip ctx cur thn start rhs len nxt
      else assignTbG clip ctx cur els start rhs len nxt
    | _ => nxt

/-- `eval_assign(sim, lhs, value)` after the F2 repair -/
def assignTb (ctx : Ctx) (env : Env) (target : Expr) (v : Int) : Env :=
  assignTbG true ctx env target 0 v (widthOf ctx target) env

/-- `eval_assign` as found (F2) -/
def assignTbUnfixed (ctx : Ctx) (env : Env) (target : Expr) (v : Int) : Env :=
  assignTbG false ctx env target 0 v (widthOf ctx target) env

/-- the `mode="next"` right-hand-side compiler, on assignable expressions -/
def evalLrhs (ctx : Ctx) (cur nxt : Env) : Expr → Int
  | .sig i => nxt.val i
  | .op1 .u a => evalLrhs ctx cur nxt a
  | .op1 .s a => evalLrhs ctx cur nxt a
  | .slice a start stop => mask (stop - start) (pyShr (evalLrhs ctx cur nxt a) start)
  | .part a off width stride =>
    let o := stride * (mask (widthOf ctx off) (evalRtl ctx cur off)).toNat
    mask width (pyShr (norm (shapeOf ctx a) (evalLrhs ctx cur nxt a)) o)
  | .cat lo hi =>
    pyOr (pyShl (mask (widthOf ctx lo) (evalLrhs ctx cur nxt lo)) 0)
         (pyShl (mask (widthOf ctx hi) (evalLrhs ctx cur nxt hi)) (widthOf ctx lo))
  | .ite test pats thn els =>
    let t := mask (widthOf ctx test) (evalRtl ctx cur test)
    if matchesAny pats t then norm (shapeOf ctx thn) (evalLrhs ctx cur nxt thn)
    else evalLrhs ctx cur nxt els
  | .const v _ => v
  | _ => 0

/-- `_LHSValueCompiler`: `self(lhs)(arg)` -/
def assignRtlG (ctx : Ctx) (cur : Env) : Expr → Int → Env → Env
  | .sig i, arg, nxt => nxt.put i (norm (ctx.shape i) arg)
  | .op1 .u a, arg, nxt => assignRtlG ctx cur a arg nxt
  | .op1 .s a, arg, nxt => assignRtlG ctx cur a arg nxt
  | .slice a start stop, arg, nxt =>
    let wm : Int := pyShl 1 (stop - start) - 1
    assignRtlG ctx cur a
      (pyOr (pyAnd (evalLrhs ctx cur nxt a) (pyNot (pyShl wm start))) (pyShl (pyAnd wm arg) start)) nxt
  | .part a off width stride, arg, nxt =>
    let wm : Int := pyShl 1 width - 1
    let o := stride * (mask (widthOf ctx off) (evalRtl ctx cur off)).toNat
    assignRtlG ctx cur a
      (pyOr (pyAnd (evalLrhs ctx cur nxt a) (pyNot (pyShl wm o))) (pyShl (pyAnd wm arg) o)) nxt
  | .cat lo hi, arg, nxt =>
    let n1 := assignRtlG ctx cur lo (mask (widthOf ctx lo) (pyShr arg 0)) nxt
    assignRtlG ctx cur hi (mask (widthOf ctx hi) (pyShr arg (widthOf ctx lo))) n1
  | .ite test pats thn els, arg, nxt =>
    let t := mask (widthOf ctx test) (evalRtl ctx cur test)
    if matchesAny pats t then assignRtlG ctx cur thn arg nxt else assignRtlG ctx cur els arg nxt
  | _, _, nxt => nxt

/-- the statement `target.eq(rhs)` executed in state `env`, `v = sign(rhs)` -/
def assignRtl (ctx : Ctx) (env : Env) (target : Expr) (v : Int) : Env :=
  assignRtlG ctx env target v env

end Amaranth
