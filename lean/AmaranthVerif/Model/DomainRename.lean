import AmaranthVerif.Model.Domain

/-!
# `DomainRenamer` with a map of several entries (C03, C11)

`hdl/_xfrm.py`, `DomainRenamer`: the constructor keeps `domain_map` (a dictionary, so every source is listed once);
`map_statements` files the statements of domain `d` under `self.domain_map.get(d, d)`, `on_ClockSignal` /
`on_ResetSignal` and `map_memory_ports` do `if d in self.domain_map: d = self.domain_map[d]`. Every one of them is
**one lookup per domain name**: an entry whose source happens to be the target of another entry does not act on what
that other entry has just moved (`{"a": "b", "b": "a"}` swaps the two domains).
-/

namespace Amaranth

/-- `domain_map.get(d, d)` on the entries of the dictionary in their order -/
def dictGet : List (Nat × Nat) → Nat → Nat
  | [], d => d
  | (s, t) :: rest, d => if s == d then t else dictGet rest d

/-- `DomainRenamer(map)` on one process: its domain key is looked up once -/
def domainRenamerMap (m : List (Nat × Nat)) (p : Proc) : Proc :=
  match p.dom with
  | some d => { p with dom := some (dictGet m d) }
  | none => p

end Amaranth
