import AmaranthVerif.Model.Shape

/-!
# `amaranth.lib.data` layouts and `amaranth.lib.enum` shaped enumerations

Core Lean only (this file is compiled into the native driver `amodel_c15`).

The model follows the code mechanism by mechanism:

* `Layout.size`, `Layout.fields`, `Layout.get?` follow `StructLayout.__init__` (running offset),
  `StructLayout.size` (max of field ends), `UnionLayout` (offset 0, max of widths),
  `ArrayLayout.__iter__` (running offset) / `ArrayLayout.__getitem__` (`key * width`) and
  `FlexibleLayout` (declared offsets, declared size);
* `setField` / `pack` / `valueOf` follow `Layout.const` (per field: build mask, clear, shift, or),
  recursing into nested layouts and enumerations through `Const(value, field.shape)`;
* `slice` + `lift` follow `Const.__getitem__` (shift, mask, `Const(value, shape).value` /
  `shape.from_bits`) and `View.__getitem__` (`Slice`, `as_signed`, `shape(value)`), with the field
  re-signed by its shape before it is lifted (the repaired behaviour; F12); `liftConstOld` and
  `liftViewOld` keep what the code did before; `Layout.constOld` keeps `UnionLayout.const` (F11);
* `assignBits` follows the `Signal` branch of `_eval_assign_inner` / the read-modify-write of
  `_LHSValueCompiler` for a `Slice` (possibly under `as_signed`) of a signal;
* `EnumTy.const`, `EnumTy.fromBits` follow `EnumType.const` / `EnumType.from_bits`; `flagAnd`,
  `flagOr`, `flagXor`, `flagInvert` follow `FlagView.__and__/__or__/__xor__/__invert__` evaluated
  by the simulator in the enumeration's shape (`flagInvert` keeps the recorded finding F16: under
  `EJECT`/`KEEP` it complements the whole shape).
-/

namespace Amaranth.Data

/-! ## Keys, enumerations, layout trees -/

/-- a field key: a name (struct, union, flexible) or an index (array, flexible) -/
inductive Key
  | name (s : String)
  | idx (i : Nat)
deriving DecidableEq, Repr, Inhabited

/-- Python `enum.FlagBoundary` -/
inductive Boundary
  | strict | conform | eject | keep
deriving DecidableEq, Repr, Inhabited

/-- a shaped enumeration class: its shape, the values of its members in declaration order, and
whether it is a `Flag` (with which boundary) or a plain `Enum` -/
structure EnumTy where
  shape   : Shape
  members : List Int
  flag    : Option Boundary
deriving DecidableEq, Repr, Inhabited

mutual
/-- what a field's `shape` can be -/
inductive FieldShape
  | plain (s : Shape)
  | enum (e : EnumTy)
  | layout (l : Layout)
deriving DecidableEq
/-- `StructLayout(members)`, `UnionLayout(members)`, `ArrayLayout(elem, length)`,
`FlexibleLayout(size, fields)` -/
inductive Layout
  | struct (ms : Members)
  | union (ms : Members)
  | array (elem : FieldShape) (len : Nat)
  | flex (size : Nat) (fs : Members)
deriving DecidableEq
/-- an ordered mapping from keys to shapes; `off` is the declared offset of a `Field` and is read by
flexible layouts only -/
inductive Members
  | nil
  | cons (k : Key) (sh : FieldShape) (off : Nat) (rest : Members)
deriving DecidableEq
end

instance : Inhabited FieldShape := ⟨.plain default⟩
instance : Inhabited Layout := ⟨.struct .nil⟩
instance : Inhabited Members := ⟨.nil⟩

mutual
/-- `Shape.cast(shape).width` (`Field.width`) -/
def FieldShape.width : FieldShape → Nat
  | .plain s => s.width
  | .enum e => e.shape.width
  | .layout l => l.size
/-- `Layout.size` -/
def Layout.size : Layout → Nat
  | .struct ms => ms.structEnd 0
  | .union ms => ms.unionSize
  | .array e n => e.width * n
  | .flex sz _ => sz
/-- `StructLayout`: `offset += width` in `__init__`, `max(offset + width, default=0)` in `size` -/
def Members.structEnd : Members → Nat → Nat
  | .nil, _ => 0
  | .cons _ sh _ rest, off => max (off + sh.width) (rest.structEnd (off + sh.width))
/-- `UnionLayout.size`: `max(width, default=0)` -/
def Members.unionSize : Members → Nat
  | .nil => 0
  | .cons _ sh _ rest => max sh.width rest.unionSize
end

/-- `Shape.cast(shape)` -/
def FieldShape.shape : FieldShape → Shape
  | .plain s => s
  | .enum e => e.shape
  | .layout l => ⟨l.size, false⟩

/-- the members as a list -/
def Members.toList : Members → List (Key × FieldShape × Nat)
  | .nil => []
  | .cons k sh off rest => (k, sh, off) :: rest.toList

/-- `data.Field(shape, offset)` -/
structure Field where
  shape  : FieldShape
  offset : Nat
deriving Inhabited, DecidableEq

def Field.width (f : Field) : Nat := f.shape.width

/-- `StructLayout.__init__`: fields in declaration order at a running offset -/
def structFields : List (Key × FieldShape × Nat) → Nat → List (Key × Field)
  | [], _ => []
  | (k, sh, _) :: rest, off => (k, ⟨sh, off⟩) :: structFields rest (off + sh.width)

/-- `ArrayLayout.__iter__`: `index` counts up, `offset += width` -/
def arrayFields (elem : FieldShape) : Nat → Nat → Nat → List (Key × Field)
  | 0, _, _ => []
  | n + 1, index, off => (.idx index, ⟨elem, off⟩) :: arrayFields elem n (index + 1) (off + elem.width)

/-- `Layout.__iter__` -/
def Layout.fields : Layout → List (Key × Field)
  | .struct ms => structFields ms.toList 0
  | .union ms => ms.toList.map fun (k, sh, _) => (k, ⟨sh, 0⟩)
  | .array e n => arrayFields e n 0 0
  | .flex _ fs => fs.toList.map fun (k, sh, off) => (k, ⟨sh, off⟩)

/-- dictionary lookup in an association list -/
def lookup (k : Key) : List (Key × Field) → Option Field
  | [] => none
  | (k', f) :: rest => if k' = k then some f else lookup k rest

/-- `Layout.__getitem__` (non-negative keys): dictionary lookup, except that an array layout
computes `Field(elem_shape, key * width)` -/
def Layout.get? : Layout → Key → Option Field
  | .array e n, .idx i => if i < n then some ⟨e, i * e.width⟩ else none
  | .array _ _, .name _ => none
  | l, k => lookup k l.fields

/-- what the constructors check beyond types: `FlexibleLayout` rejects a field that ends beyond
the declared size (`ValueError`) -/
def Layout.Ok : Layout → Prop
  | .flex sz fs => ∀ e ∈ fs.toList, e.2.2 + e.2.1.width ≤ sz
  | _ => True

instance : (l : Layout) → Decidable l.Ok
  | .flex _ _ => by unfold Layout.Ok; exact inferInstance
  | .struct _ => by unfold Layout.Ok; exact inferInstance
  | .union _ => by unfold Layout.Ok; exact inferInstance
  | .array _ _ => by unfold Layout.Ok; exact inferInstance

/-- `Layout.Ok` for the layout and every layout nested in it -/
def Members.inBounds : Members → Nat → Bool
  | .nil, _ => true
  | .cons _ sh off rest, sz => decide (off + sh.width ≤ sz) && rest.inBounds sz

mutual
def FieldShape.deepOk : FieldShape → Bool
  | .plain _ => true
  | .enum _ => true
  | .layout l => l.deepOk
def Layout.deepOk : Layout → Bool
  | .struct ms => ms.deepOk
  | .union ms => ms.deepOk
  | .array e _ => e.deepOk
  | .flex sz fs => fs.deepOk && fs.inBounds sz
def Members.deepOk : Members → Bool
  | .nil => true
  | .cons _ sh _ rest => sh.deepOk && rest.deepOk
end

/-! ## Bit arithmetic of `Layout.const`, `Const.__getitem__`, `View.__getitem__`, assignment -/

/-- `(raw >> off) & ((1 << w) - 1)` (`Const.__getitem__`; also what the simulator computes for
`Slice(target, off, off + w)`) -/
def slice (raw off w : Nat) : Nat := (raw >>> off) &&& (2 ^ w - 1)

/-- the low `w` bits of a Python integer as a non-negative integer: `v & ((1 << w) - 1)` -/
def pattern (w : Nat) (v : Int) : Nat := (mask w v).toNat

/-- `((1 << w) - 1) << off` -/
def fieldMask (off w : Nat) : Nat := (2 ^ w - 1) <<< off

/-- `x & ~m` for non-negative `x`, `m` -/
def clearMask (x m : Nat) : Nat := x ^^^ (x &&& m)

/-- one iteration of the loop of `Layout.const`:
`mask = ((1 << w) - 1) << off; acc &= ~mask; acc |= (v << off) & mask` -/
def setField (acc off w : Nat) (v : Int) : Nat :=
  clearMask acc (fieldMask off w) ||| ((pattern w v <<< off) &&& fieldMask off w)

/-- a resolved initialiser entry: offset, width, value -/
structure Entry where
  off : Nat
  w   : Nat
  v   : Int
deriving Repr, Inhabited, DecidableEq

/-- the loop of `Layout.const` over resolved entries, in the order of the initialiser -/
def pack : List Entry → Nat → Nat
  | [], acc => acc
  | e :: rest, acc => pack rest (setField acc e.off e.w e.v)

/-- the `Signal` branch of `_eval_assign_inner` for a target slice `[start, stop)` of a signal of
width `len` holding `raw` (unsigned representation), new value `rhs`:
`mask = (1 << stop) - (1 << start); value &= ~mask; value |= (rhs << start) & mask;
value &= (1 << len) - 1` -/
def assignBits (raw len start stop : Nat) (rhs : Int) : Nat :=
  let stop' := min stop len
  let m := 2 ^ stop' - 2 ^ start
  if start ≥ len then raw
  else (clearMask raw m ||| ((pattern (stop' - start) rhs <<< start) &&& m)) &&& (2 ^ len - 1)

/-- what reading a field gives: an `int`; an enumeration member (by value); `ValueError` from
`from_bits`; a `data.Const` / `View` of a nested layout over the given bits; `TypeError` -/
inductive Lifted
  | int (v : Int)
  | member (v : Int)
  | invalid
  | const (l : Layout) (raw : Nat)
  | typeError
deriving DecidableEq

/-! ## Enumerations -/

/-- Python `_flag_mask_`: or of all member values (members are non-negative for flags) -/
def EnumTy.flagMask (e : EnumTy) : Nat := e.members.foldl (fun acc m => acc ||| m.toNat) 0

/-- Python `_singles_mask_` / the loop of `FlagView.__invert__`: or of the members with
`value & (value - 1) == 0` -/
def EnumTy.singlesMask (e : EnumTy) : Nat :=
  e.members.foldl (fun acc m => if m.toNat &&& (m.toNat - 1) = 0 then acc ||| m.toNat else acc) 0

/-- Python `_all_bits_`: `2 ** flag_mask.bit_length() - 1` -/
def EnumTy.allBits (e : EnumTy) : Nat := 2 ^ bitLength e.flagMask - 1

/-- `cls(v)` succeeds and returns a (pseudo-)member with value `v`: a member value for `Enum`; a
non-negative combination of declared flag bits for `Flag` -/
def EnumTy.valid (e : EnumTy) (v : Int) : Bool :=
  match e.flag with
  | none => e.members.contains v
  | some _ => decide (0 ≤ v) && (v.toNat &&& e.flagMask == v.toNat)

/-- the declaration is accepted without a truncation warning: every member value is representable
in the enumeration's shape; flag classes have an unsigned shape and every multi-bit member is a
combination of single-bit members -/
def EnumTy.WF (e : EnumTy) : Prop :=
  e.shape.WF ∧ (∀ m ∈ e.members, e.shape.contains m) ∧ (e.flag.isSome → e.shape.signed = false) ∧
  (e.flag.isSome → e.flagMask = e.singlesMask)

instance (e : EnumTy) : Decidable e.WF := by unfold EnumTy.WF; exact inferInstance

/-- exceptions of the modelled operations -/
inductive Err
  | typeError | valueError | attributeError
deriving DecidableEq, Repr, Inhabited

instance {ε α : Type} [DecidableEq ε] [DecidableEq α] : DecidableEq (Except ε α)
  | .ok a, .ok b => if h : a = b then isTrue (by rw [h]) else isFalse (by intro h'; cases h'; exact h rfl)
  | .error a, .error b => if h : a = b then isTrue (by rw [h]) else isFalse (by intro h'; cases h'; exact h rfl)
  | .ok _, .error _ => isFalse (by intro h; cases h)
  | .error _, .ok _ => isFalse (by intro h; cases h)

/-- what `cls(v)` returns -/
inductive EnumVal
  | member (v : Int)     -- a member or, for flags, a pseudo-member with this value
  | ejected (v : Int)    -- `EJECT`: the plain integer
  | invalid              -- `ValueError`
deriving DecidableEq, Repr, Inhabited

/-- `cls(v)`: member lookup for `Enum`; `Flag._missing_` for flags with a non-negative value that
has bits outside the declared flags: `STRICT` raises, `CONFORM` drops the bits, `EJECT` returns the
integer, `KEEP` keeps the value -/
def EnumTy.call (e : EnumTy) (v : Int) : EnumVal :=
  if e.valid v then .member v
  else match e.flag with
    | some .conform => if 0 ≤ v then .member ((v.toNat &&& e.flagMask : Nat) : Int) else .invalid
    | some .eject => .ejected v
    | some .keep => if 0 ≤ v then .member v else .invalid
    | _ => .invalid

/-- `Const.cast(E.const(init)).value`: `member = cls(init)` (or `cls(0)` for `None`), then
`Const(member.value, shape)`; an ejected integer has no `.value` (`AttributeError`) -/
def EnumTy.const (e : EnumTy) (init : Option Int) : Except Err Int :=
  match e.call (init.getD 0) with
  | .member m => .ok (norm e.shape m)
  | .ejected _ => .error .attributeError
  | .invalid => .error .valueError

/-- `E.from_bits(bits)`: `cls(bits)` -/
def EnumTy.fromBits (e : EnumTy) (bits : Int) : EnumVal := e.call bits

/-- an enumeration value as a field reading -/
def EnumVal.lifted : EnumVal → Lifted
  | .member v => .member v
  | .ejected v => .int v
  | .invalid => .invalid

/-- `FlagView.__and__` evaluated in the enumeration's shape (`unsigned(w)`) -/
def flagAnd (_e : EnumTy) (a b : Nat) : Nat := a &&& b
def flagOr (_e : EnumTy) (a b : Nat) : Nat := a ||| b
def flagXor (_e : EnumTy) (a b : Nat) : Nat := a ^^^ b

/-- `~x` of an `unsigned(w)` value in the simulator -/
def invW (w a : Nat) : Nat := (2 ^ w - 1) ^^^ (a % 2 ^ w)

/-- `FlagView.__invert__`: `~value` under `EJECT`/`KEEP`, else `~value & singles_mask` -/
def flagInvert (e : EnumTy) (a : Nat) : Nat :=
  match e.flag with
  | some .eject | some .keep => invW e.shape.width a
  | _ => invW e.shape.width a &&& e.singlesMask

/-! ## Lifting a field -/

/-- lift the bits of a field as the code should (F12 repaired): re-sign by the field's shape, then
`int` / `from_bits` / nested constant -/
def lift (sh : FieldShape) (bits : Nat) : Lifted :=
  match sh with
  | .plain s => .int (norm s bits)
  | .enum e => (e.fromBits (norm e.shape bits)).lifted
  | .layout l => .const l bits

/-- `Const.__getitem__` before the repair: the unsigned bit pattern goes to `from_bits` (F12) -/
def liftConstOld (sh : FieldShape) (bits : Nat) : Lifted :=
  match sh with
  | .plain s => .int (norm s bits)
  | .enum e => (e.fromBits bits).lifted
  | .layout l => .const l bits

/-- `View.__getitem__` before the repair: `EnumView(enum, slice)` raises `TypeError` when the
enumeration's shape is signed, because the slice is unsigned (F12) -/
def liftViewOld (sh : FieldShape) (bits : Nat) : Lifted :=
  match sh with
  | .plain s => .int (norm s bits)
  | .enum e => if e.shape.signed then .typeError else (e.fromBits bits).lifted
  | .layout l => .const l bits

/-- `data.Const(layout, target)` -/
structure DConst where
  layout : Layout
  raw    : Nat

/-- `Layout.from_bits(raw)`: `Const(self, raw)` raises `ValueError` unless `raw in range(1 << size)` -/
def Layout.fromBits (l : Layout) (raw : Int) : Except Err DConst :=
  if 0 ≤ raw ∧ raw < 2 ^ l.size then .ok ⟨l, raw.toNat⟩ else .error .valueError

/-- `Const.as_bits()` -/
def DConst.asBits (c : DConst) : Nat := c.raw

/-- `Const.as_value()`: `hdl.Const(target, size)`, an unsigned constant; its `.value` -/
def DConst.asValue (c : DConst) : Int := norm ⟨c.layout.size, false⟩ c.raw

/-- `Const.__getitem__(key)`: integer arithmetic, then lift -/
def DConst.get (c : DConst) (k : Key) : Option Lifted :=
  match c.layout.get? k with
  | none => none
  | some f => some (lift f.shape (slice c.raw f.offset f.width))

def DConst.getOld (c : DConst) (k : Key) : Option Lifted :=
  match c.layout.get? k with
  | none => none
  | some f => some (liftConstOld f.shape (slice c.raw f.offset f.width))

/-- the simulator's value of `Slice(target, start, stop)` for a target holding `raw ≥ 0` -/
def evalSlice (raw start stop : Nat) : Nat := (raw >>> start) &&& (2 ^ (stop - start) - 1)

/-- `ctx.get(view[key])` for a view over a signal holding `raw`:
`target[offset:offset + width]`, `as_signed()` when the field's shape is signed, `shape(value)` -/
def viewGet (l : Layout) (raw : Nat) (k : Key) : Option Lifted :=
  match l.get? k with
  | none => none
  | some f => some (lift f.shape (evalSlice raw f.offset (f.offset + f.width)))

def viewGetOld (l : Layout) (raw : Nat) (k : Key) : Option Lifted :=
  match l.get? k with
  | none => none
  | some f => some (liftViewOld f.shape (evalSlice raw f.offset (f.offset + f.width)))

/-- `view[i]` for a dynamic index: `target.word_select(i, width)` -/
def viewGetDyn (elem : FieldShape) (raw i : Nat) : Lifted :=
  lift elem (evalSlice raw (i * elem.width) (i * elem.width + elem.width))

/-- assignment of `v` to `view[key]` (testbench `ctx.set` or a circuit assignment): the new bits
of the underlying signal -/
def viewSet (l : Layout) (raw : Nat) (k : Key) (v : Int) : Option Nat :=
  match l.get? k with
  | none => none
  | some f => some (assignBits raw l.size f.offset (f.offset + f.width) v)

/-- reading along a path of keys through nested layouts: the field's shape and its offset in the
outermost value (`View.__getitem__` slices a slice: the offsets add up) -/
def resolve : FieldShape → List Key → Nat → Option Field
  | sh, [], off => some ⟨sh, off⟩
  | .layout l, k :: ks, off =>
    match l.get? k with
    | none => none
    | some f => resolve f.shape ks (off + f.offset)
  | _, _ :: _, _ => none

/-! ## Initialisers and `Layout.const` -/

mutual
/-- a constant initialiser: `None`; an `int` / enumeration member (by value); a mapping or
sequence of initialisers; a `data.Const` of the field's own layout (by its bits) -/
inductive Init
  | none
  | int (v : Int)
  | map (kvs : Inits)
  | bits (raw : Nat)
inductive Inits
  | nil
  | cons (k : Key) (v : Init) (rest : Inits)
end

instance : Inhabited Init := ⟨.none⟩

def Inits.length : Inits → Nat
  | .nil => 0
  | .cons _ _ rest => rest.length + 1

def Inits.toList : Inits → List (Key × Init)
  | .nil => []
  | .cons k v rest => (k, v) :: rest.toList

/-- the exception of `Layout.const` for a key without a field: `KeyError` from `self[key]` becomes
`ValueError`; an array layout indexed with a string raises `TypeError` itself -/
def Layout.missing : Layout → Key → Err
  | .array _ _, .name _ => .typeError
  | _, _ => .valueError

def Layout.isUnion : Layout → Bool
  | .union _ => true
  | _ => false

mutual
/-- `Const.cast(Const(init, shape)).value`: the value of the constant that `shape.const(init)`
(for shape-castables) or `hdl.Const(init, shape)` (for plain shapes) builds -/
def valueOf : FieldShape → Init → Except Err Int
  | .plain s, .int v => .ok (norm s v)
  | .plain _, _ => .error .typeError
  | .enum e, .int v => e.const (some v)
  | .enum e, .none => e.const none
  | .enum _, _ => .error .valueError
  | .layout _, .none => .ok 0
  | .layout l, .bits raw => if raw < 2 ^ l.size then .ok raw else .error .valueError
  | .layout l, .map kvs =>
      if l.isUnion && decide (kvs.length > 1) then .error .valueError
      else match entriesOf l kvs with
        | .ok es => .ok (pack es 0)
        | .error e => .error e
  | .layout _, .int _ => .error .typeError
/-- resolve every `(key, value)` of a mapping: `field = self[key]` (`ValueError` on an unknown
key), then the field's constant -/
def entriesOf : Layout → Inits → Except Err (List Entry)
  | _, .nil => .ok []
  | l, .cons k v rest =>
      match l.get? k with
      | none => .error (l.missing k)
      | some f =>
        match valueOf f.shape v with
        | .error e => .error e
        | .ok x =>
          match entriesOf l rest with
          | .error e => .error e
          | .ok es => .ok (⟨f.offset, f.width, x⟩ :: es)
end

/-- `Layout.const(init).as_bits()` -/
def Layout.const (l : Layout) (init : Init) : Except Err Nat :=
  match valueOf (.layout l) init with
  | .ok v => .ok v.toNat
  | .error e => .error e

/-- `UnionLayout.const` before the repair (F11): `len(init)` is taken before the base class can
accept a `data.Const`, which raises `TypeError` -/
def Layout.constOld (l : Layout) (init : Init) : Except Err Nat :=
  match l, init with
  | .union _, .bits _ => .error .typeError
  | _, _ => l.const init

end Amaranth.Data
