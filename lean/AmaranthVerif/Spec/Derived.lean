import AmaranthVerif.Spec.Denote

/-!
# Spec: the derived operators, by their Python integer / bit-sequence meaning

`abs`, constant shifts and rotates, `replicate`, `matches`, `Mux`, in-range `Array` indexing and
Python-style subscripts are not AST nodes: amaranth rewrites them at construction time into the
primitive nodes. Their meaning is given here directly on the exact values of the operands; the
correspondence check compares the simulated rewrite against this.
-/

namespace Amaranth

/-- a `matches` / `Case` pattern as the user writes it -/
inductive MPat
  | bits (p : Pat)
  | int (k : Int)
deriving Repr, Inhabited

inductive DOp
  | abs
  | shiftLeft (n : Int)
  | shiftRight (n : Int)
  | rotateLeft (n : Int)
  | rotateRight (n : Int)
  | replicate (k : Nat)
  | matches (ps : List MPat)
  | mux
  | arrayIndex
  | index (i : Int)
  | sliceStep (start stop : Int) (step : Int)
deriving Repr, Inhabited

/-- `w` low bits of `v` as an unsigned number -/
def ubits (w : Nat) (v : Int) : Int := v % (2 ^ w : Int)

/-- rotate the `w`-bit pattern of `v` left by `k ≤ w` -/
def rotlK (w : Nat) (v : Int) (k : Nat) : Int :=
  ubits w (ubits w v * 2 ^ k) + ubits w v / (2 ^ (w - k) : Int)

/-- rotate the `w`-bit pattern of `v` left by `n` (any integer `n`) -/
def rotl (w : Nat) (v : Int) (n : Int) : Int :=
  if w = 0 then 0 else rotlK w v (n % (w : Int)).toNat

/-- `k` copies of the `w`-bit pattern `u` side by side -/
def repSum (u : Int) (w k : Nat) : Int :=
  (List.range k).foldl (fun acc i => acc + u * 2 ^ (w * i)) 0

/-- the shape and value of a derived operator applied to operands with the given shapes and values -/
def derived (op : DOp) (args : List (Shape × Int)) : Option (Shape × Int) :=
  match op, args with
  | .abs, [(s, v)] =>
    if s.signed then some (⟨s.width, false⟩, if v < 0 then -v else v) else some (s, v)
  | .shiftLeft n, [(s, v)] =>
    if n ≥ 0 then some (⟨s.width + n.toNat, s.signed⟩, v * 2 ^ n.toNat)
    else
      let k := (-n).toNat
      if s.signed then some (⟨max (s.width - k) 1, true⟩, v / 2 ^ k) else some (⟨s.width - k, false⟩, v / 2 ^ k)
  | .shiftRight n, [(s, v)] =>
    if n ≥ 0 then
      let k := n.toNat
      if s.signed then some (⟨max (s.width - k) 1, true⟩, v / 2 ^ k) else some (⟨s.width - k, false⟩, v / 2 ^ k)
    else some (⟨s.width + (-n).toNat, s.signed⟩, v * 2 ^ (-n).toNat)
  | .rotateLeft n, [(s, v)] => some (⟨s.width, false⟩, rotl s.width v n)
  | .rotateRight n, [(s, v)] => some (⟨s.width, false⟩, rotl s.width v (-n))
  | .replicate k, [(s, v)] =>
    some (⟨s.width * k, false⟩, repSum (ubits s.width v) s.width k)
  | .matches ps, [(s, v)] =>
    some (⟨1, false⟩, if ps.any (fun p => match p with
      | .bits b => b.matchesSpec v
      | .int k => decide (s.contains k) && decide (v = k)) then 1 else 0)
  | .mux, [(_, sel), (sa, a), (sb, b)] => some (Shape.unify sa sb, if sel ≠ 0 then a else b)
  | .arrayIndex, (sidx, idx) :: allElems =>
    -- only the elements an index of this width can reach take part (also in the result shape)
    let elems := allElems.take (2 ^ sidx.width)
    if 0 ≤ idx ∧ idx.toNat < elems.length then
      some (elems.foldl (fun acc e => Shape.unify acc e.1) ⟨0, false⟩, (elems.getD idx.toNat default).2)
    else none
  | .index i, [(s, v)] =>
    let w : Int := s.width
    if -w ≤ i ∧ i < w then
      let k := (if i < 0 then i + w else i).toNat
      some (⟨1, false⟩, ubits 1 (v / 2 ^ k))
    else none
  | .sliceStep start stop step, [(s, v)] =>
    -- Python's `range(start, stop, step)` over already-normalised indices (the harness sends
    -- `slice.indices(len)`), bit `j` of the result is bit `start + j*step` of the operand
    if step = 0 then none else
      let n : Nat :=
        if step > 0 then (if stop > start then ((stop - start + step - 1) / step).toNat else 0)
        else (if start > stop then ((start - stop + (-step) - 1) / (-step)).toNat else 0)
      some (⟨n, false⟩, (List.range n).foldl (fun (acc : Int) (j : Nat) =>
        acc + ubits 1 (v / (2 : Int) ^ ((start + (j : Int) * step).toNat)) * (2 : Int) ^ j) 0)
  | _, _ => none

end Amaranth
