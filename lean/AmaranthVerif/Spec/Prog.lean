import AmaranthVerif.Spec.AssignSpec

/-!
# Spec: the Module DSL, read directly

A program is a list of items in program order. An assignment is *active* exactly when every
enclosing block is selected; in an `If/Elif/Else` the first branch whose condition is non-zero is
selected (`Else` if none), in a `Switch` the first case one of whose patterns matches (`Default`
matches everything). Each driven bit equals its starting value (initial value for `comb`, previous
value for `sync`) overridden by the active assignments in program order: the last one wins.
-/

namespace Amaranth

/-- a `Case` pattern as the user writes it: a bit string with don't-cares, or an integer -/
inductive UPat
  | bits (p : Pat)
  | int (k : Int)
deriving Repr, Inhabited

/-- does the pattern match a test of shape `s` holding the exact value `v`? An integer that the
test's shape cannot represent never matches. -/
def UPat.matchesV (s : Shape) (v : Int) : UPat → Bool
  | .bits p => p.matchesSpec v
  | .int k => decide (s.contains k) && decide (v = k)

inductive Prog
  | assign (lhs rhs : Expr)
  /-- `If c₀: b₀  Elif c₁: b₁ … Else: e` (no `Else` = empty `e`) -/
  | ifs (branches : List (Expr × List Prog)) (els : List Prog)
  /-- `Switch(test)`: cases in order; `none` = `Default` -/
  | switch (test : Expr) (cases : List (Option (List UPat) × List Prog))
deriving Inhabited

mutual
/-- the active assignments of one item, in program order, with the value assigned -/
def Prog.writes (ctx : Ctx) (env : Env) : Prog → List (Expr × Int)
  | .assign lhs rhs => [(lhs, denote ctx env rhs)]
  | .ifs branches els =>
    match Prog.ifWrites ctx env branches with
    | some ws => ws
    | none => Prog.listWrites ctx env els
  | .switch test cases => Prog.caseWrites ctx env (shapeOf ctx test) (denote ctx env test) cases
def Prog.listWrites (ctx : Ctx) (env : Env) : List Prog → List (Expr × Int)
  | [] => []
  | p :: ps => Prog.writes ctx env p ++ Prog.listWrites ctx env ps
/-- the writes of the first branch whose condition is non-zero, if any -/
def Prog.ifWrites (ctx : Ctx) (env : Env) : List (Expr × List Prog) → Option (List (Expr × Int))
  | [] => none
  | (c, body) :: rest =>
    if denote ctx env c ≠ 0 then some (Prog.listWrites ctx env body) else Prog.ifWrites ctx env rest
def Prog.caseWrites (ctx : Ctx) (env : Env) (s : Shape) (v : Int) :
    List (Option (List UPat) × List Prog) → List (Expr × Int)
  | [] => []
  | (none, body) :: _ => Prog.listWrites ctx env body
  | (some pats, body) :: rest =>
    if pats.any (fun p => p.matchesV s v) then Prog.listWrites ctx env body
    else Prog.caseWrites ctx env s v rest
end

/-- apply the writes in order on top of `start`; offsets and selectors of targets read `env` -/
def applyWrites (ctx : Ctx) (env : Env) : List (Expr × Int) → Env → Env
  | [], st => st
  | (lhs, v) :: ws, st => applyWrites ctx env ws (applyBits ctx (lbits ctx env lhs) 0 v st)

mutual
/-- all targets of a program, active or not (what the domain *drives*) -/
def Prog.targets : Prog → List Expr
  | .assign lhs _ => [lhs]
  | .ifs branches els => Prog.ifTargets branches ++ Prog.listTargets els
  | .switch _ cases => Prog.caseTargets cases
def Prog.listTargets : List Prog → List Expr
  | [] => []
  | p :: ps => Prog.targets p ++ Prog.listTargets ps
def Prog.ifTargets : List (Expr × List Prog) → List Expr
  | [] => []
  | (_, body) :: rest => Prog.listTargets body ++ Prog.ifTargets rest
def Prog.caseTargets : List (Option (List UPat) × List Prog) → List Expr
  | [] => []
  | (_, body) :: rest => Prog.listTargets body ++ Prog.caseTargets rest
end

/-- can position `b` of signal `i` be addressed by this target for some value of its offsets and
selectors? (a part-select can reach every bit of its operand) -/
def drivenBy : Expr → Nat → Nat → Ctx → Bool
  | .sig j, i, b, ctx => i == j && decide (b < (ctx.shape j).width)
  | .op1 .u a, i, b, ctx => drivenBy a i b ctx
  | .op1 .s a, i, b, ctx => drivenBy a i b ctx
  | .slice a s e, i, b, ctx =>
    -- bit b of signal i is at some position k of `a` with s ≤ k < e
    (List.range (widthOf ctx a)).any fun k => decide (s ≤ k) && decide (k < e) && atPos a k i b ctx
  | .part a _ _ _, i, b, ctx => (List.range (widthOf ctx a)).any fun k => atPos a k i b ctx
  | .cat lo hi, i, b, ctx => drivenBy lo i b ctx || drivenBy hi i b ctx
  | .ite _ _ thn els, i, b, ctx => drivenBy thn i b ctx || drivenBy els i b ctx
  | _, _, _, _ => false
where
  /-- can position `k` of the target be bit `b` of signal `i`? -/
  atPos : Expr → Nat → Nat → Nat → Ctx → Bool
    | .sig j, k, i, b, ctx => i == j && k == b && decide (b < (ctx.shape j).width)
    | .op1 .u a, k, i, b, ctx => atPos a k i b ctx
    | .op1 .s a, k, i, b, ctx => atPos a k i b ctx
    | .slice a s e, k, i, b, ctx => decide (s + k < e) && atPos a (s + k) i b ctx
    | .part a _ w _, k, i, b, ctx => decide (k < w) && (List.range (widthOf ctx a)).any fun k' => atPos a k' i b ctx
    | .cat lo hi, k, i, b, ctx =>
      if k < widthOf ctx lo then atPos lo k i b ctx else atPos hi (k - widthOf ctx lo) i b ctx
    | .ite _ _ thn els, k, i, b, ctx => atPos thn k i b ctx || atPos els k i b ctx
    | _, _, _, _, _ => false

/-- bit `b` of signal `i` lies in the operand of a part-select occurring in the target: the code marks the whole
operand of a `Part` as driven, whatever window an enclosing slice or concatenation later takes of it
(`LHSMaskCollector.visit_value`: `Part → visit_value(value.value, ~0)`) -/
def underPart : Expr → Nat → Nat → Ctx → Bool
  | .op1 .u a, i, b, ctx => underPart a i b ctx
  | .op1 .s a, i, b, ctx => underPart a i b ctx
  | .slice a _ _, i, b, ctx => underPart a i b ctx
  | .part a _ _ _, i, b, ctx => drivenBy a i b ctx || underPart a i b ctx
  | .cat lo hi, i, b, ctx => underPart lo i b ctx || underPart hi i b ctx
  | .ite _ _ thn els, i, b, ctx => underPart thn i b ctx || underPart els i b ctx
  | _, _, _, _ => false

/-- the target drives bit `b` of signal `i`: some position of it can be that bit, or the bit lies in the operand of a
part-select inside it -/
def drivenP (ctx : Ctx) (e : Expr) (i b : Nat) : Bool := drivenBy e i b ctx || underPart e i b ctx

/-- one evaluation of a domain's logic: driven bits start from `start`, the rest keep `env` -/
def progStep (ctx : Ctx) (prog : List Prog) (env start : Env) : Env :=
  let tg := Prog.listTargets prog
  let base : Env := (List.range ctx.length).map fun i =>
    let w := (ctx.shape i).width
    -- per bit: driven ⇒ from `start`, else from `env`
    let bits : Int := (List.range w).foldl (fun acc b =>
      let src := if tg.any (fun t => drivenP ctx t i b) then start.val i else env.val i
      acc + (if ibit src b then 2 ^ b else 0)) 0
    norm (ctx.shape i) bits
  applyWrites ctx env (Prog.listWrites ctx env prog) base

end Amaranth
