import AmaranthVerif.Spec.MemoryRows
import AmaranthVerif.Model.MemoryRename

/-!
# Spec: a memory under `DomainRenamer`

"Renaming moves the logic to the target domain … memory ports included": every port declared in a domain that the
map names as a source is a port of the target named **for that domain**; all entries act at once on the domains as
declared (`target`), every other port stays where it is, and nothing else about the memory — rows, initial contents,
granularity, transparency sets — changes (`Renamed`). The memory then behaves as the array of rows of
`Spec/MemoryRows.lean` with its ports in those domains.
-/

namespace Amaranth.MemRows
open Amaranth.Mem

/-- where the renaming sends domain `d`: the target of the entry whose source it is, or `d` itself -/
def target (m : List (Nat × Nat)) (d : Nat) : Nat :=
  match m.find? (fun p => p.1 == d) with
  | some p => p.2
  | none => d

/-- `c'` is the memory `c` under a renamer with map `m` -/
structure Renamed (m : List (Nat × Nat)) (c c' : Cfg) : Prop where
  shape : c'.shape = c.shape
  depth : c'.depth = c.depth
  init : c'.init = c.init
  doms : c'.doms = c.doms
  rdInit : c'.rdInit = c.rdInit
  nWr : c'.wrs.length = c.wrs.length
  nRd : c'.rds.length = c.rds.length
  wr : ∀ k < c.wrs.length, (c'.wrs.getD k default).dom = target m (c.wrs.getD k default).dom ∧
        (c'.wrs.getD k default).gran = (c.wrs.getD k default).gran ∧ (c'.wrs.getD k default).enw = (c.wrs.getD k default).enw
  rd : ∀ k < c.rds.length, (c'.rds.getD k default).dom = ((c.rds.getD k default).dom).map (target m) ∧
        (c'.rds.getD k default).transp = (c.rds.getD k default).transp

end Amaranth.MemRows
