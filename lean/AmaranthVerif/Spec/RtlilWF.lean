import AmaranthVerif.Model.Rtlil.Syntax

/-!
# Spec: a structurally well-formed RTLIL document

`WellFormed d exp` is the declarative conjunction of the sentences of the property, over a parsed
document `d` and the list `exp` of foreign instances the design is expected to contain (their type,
parameters, attributes and ports, supplied from outside the document):

* names are unique within a module (one namespace for wires, memories, cells and processes) and
  module names are unique;
* every referenced wire, memory and module exists;
* slices stay within wire bounds;
* both sides of every `connect` and every process assignment have the same width; every `case`
  pattern is as wide as the `switch` selector;
* port indices are unique and dense: the k-th declared port has index k (counting from 0, as the
  emitter does; Yosys' frontend renumbers from 1 with `fixup_ports`);
* every cell connects exactly the ports of its type — for internal cells those of the Yosys cell
  library with widths taken from the `*_WIDTH`/`WIDTH`/`ABITS` parameters, for submodule cells the
  ports the module declares, for foreign cells the expected ports — with equal widths and compatible
  directions, and foreign cells carry exactly the expected parameters and attributes;
* every bit of every wire that is not a bidirectional port has exactly one driver among
  {module input, cell output, process, connect}.  "Inputs are never driven from inside" is the
  special case of an input wire (its one driver is the module input), see `inputs_not_driven`.

The interface table of the internal cell library (`cellSig`) is transcribed from the Yosys manual
(chapter "Internal cell library") and is part of the trusted base.
-/

namespace Amaranth.Rtlil

/-! ## Widths -/

def Module.chunkWidth (m : Module) : Chunk → Option Nat
  | .const bs => some bs.length
  | .wire n => (m.wire? n).map (·.width)
  | .slice _ hi lo => some (hi + 1 - lo)
  | .bit _ _ => some 1

def sumWidths : List (Option Nat) → Option Nat
  | [] => some 0
  | none :: _ => none
  | some a :: rest => (sumWidths rest).map (a + ·)

def Module.specWidth (m : Module) (s : SigSpec) : Option Nat := sumWidths (s.chunks.map m.chunkWidth)

/-- both sigspecs have a width and the widths agree -/
def SameWidth (m : Module) (l r : SigSpec) : Prop := ∃ n, m.specWidth l = some n ∧ m.specWidth r = some n

/-! ## Bounds and references -/

def ChunkRefOk (m : Module) (c : Chunk) : Prop :=
  ∀ n, c.wireName = some n → ∃ w ∈ m.wires, w.name = n

def ChunkInBounds (m : Module) : Chunk → Prop
  | .slice n hi lo => lo ≤ hi ∧ ∃ w ∈ m.wires, w.name = n ∧ hi < w.width
  | .bit n i => ∃ w ∈ m.wires, w.name = n ∧ i < w.width
  | _ => True

/-! ## Cell interfaces -/

structure PortSig where
  name : String
  dir : Dir
  width : Nat
deriving DecidableEq, Repr, Inhabited

/-- what is known about a cell type: the parameter names it must carry, its ports, and whether the
remaining parameter constraints hold -/
structure CellSig where
  params : List String
  ports : List PortSig
  extra : Bool
deriving Repr, Inhabited

def unaryTypes : List String := ["$not", "$neg", "$reduce_and", "$reduce_or", "$reduce_xor", "$reduce_bool"]

def binaryTypes : List String :=
  ["$add", "$sub", "$mul", "$divfloor", "$modfloor", "$shl", "$shr", "$sshr", "$shift", "$and", "$or", "$xor",
   "$eq", "$ne", "$lt", "$le", "$gt", "$ge"]

def anyTypes : List String := ["$anyconst", "$anyseq", "$allconst", "$allseq"]

def memTypes : List String := ["$meminit_v2", "$memwr_v2", "$memrd_v2"]

/-- a 0/1 flag parameter -/
def Cell.flagParam? (c : Cell) (n : String) : Option Bool :=
  match c.natParam? n with
  | some 0 => some false
  | some 1 => some true
  | _ => none

/-- a `W'bits` parameter of the given width -/
def Cell.bitsParamOk (c : Cell) (n : String) (w : Nat) : Bool :=
  match c.param? n with
  | some ⟨_, _, .bits bs⟩ => bs.length == w
  | _ => false

def Cell.isFlag (c : Cell) (n : String) : Bool := (c.flagParam? n).isSome

/-- interface of the internal (`$…`) cell types the emitter produces -/
def cellSig (c : Cell) : Option CellSig :=
  let t := c.type
  if unaryTypes.contains t then
    match c.natParam? "\\A_WIDTH", c.natParam? "\\Y_WIDTH" with
    | some a, some y =>
      some ⟨["\\A_SIGNED", "\\A_WIDTH", "\\Y_WIDTH"], [⟨"\\A", .input, a⟩, ⟨"\\Y", .output, y⟩], c.isFlag "\\A_SIGNED"⟩
    | _, _ => none
  else if binaryTypes.contains t then
    match c.natParam? "\\A_WIDTH", c.natParam? "\\B_WIDTH", c.natParam? "\\Y_WIDTH" with
    | some a, some b, some y =>
      some ⟨["\\A_SIGNED", "\\B_SIGNED", "\\A_WIDTH", "\\B_WIDTH", "\\Y_WIDTH"],
            [⟨"\\A", .input, a⟩, ⟨"\\B", .input, b⟩, ⟨"\\Y", .output, y⟩],
            c.isFlag "\\A_SIGNED" && c.isFlag "\\B_SIGNED"⟩
    | _, _, _ => none
  else if t == "$mux" then
    match c.natParam? "\\WIDTH" with
    | some w => some ⟨["\\WIDTH"], [⟨"\\S", .input, 1⟩, ⟨"\\A", .input, w⟩, ⟨"\\B", .input, w⟩, ⟨"\\Y", .output, w⟩], true⟩
    | none => none
  else if t == "$dff" then
    match c.natParam? "\\WIDTH" with
    | some w => some ⟨["\\WIDTH", "\\CLK_POLARITY"], [⟨"\\D", .input, w⟩, ⟨"\\CLK", .input, 1⟩, ⟨"\\Q", .output, w⟩],
                      c.isFlag "\\CLK_POLARITY"⟩
    | none => none
  else if t == "$adff" then
    match c.natParam? "\\WIDTH" with
    | some w => some ⟨["\\WIDTH", "\\CLK_POLARITY", "\\ARST_POLARITY", "\\ARST_VALUE"],
                      [⟨"\\D", .input, w⟩, ⟨"\\CLK", .input, 1⟩, ⟨"\\ARST", .input, 1⟩, ⟨"\\Q", .output, w⟩],
                      c.isFlag "\\CLK_POLARITY" && c.isFlag "\\ARST_POLARITY" && c.bitsParamOk "\\ARST_VALUE" w⟩
    | none => none
  else if t == "$tribuf" then
    match c.natParam? "\\WIDTH" with
    | some w => some ⟨["\\WIDTH"], [⟨"\\A", .input, w⟩, ⟨"\\EN", .input, 1⟩, ⟨"\\Y", .output, w⟩], true⟩
    | none => none
  else if t == "$meminit_v2" then
    match c.natParam? "\\ABITS", c.natParam? "\\WIDTH", c.natParam? "\\WORDS" with
    | some a, some w, some n =>
      some ⟨["\\MEMID", "\\ABITS", "\\WIDTH", "\\WORDS", "\\PRIORITY"],
            [⟨"\\ADDR", .input, a⟩, ⟨"\\DATA", .input, w * n⟩, ⟨"\\EN", .input, w⟩], (c.natParam? "\\PRIORITY").isSome⟩
    | _, _, _ => none
  else if t == "$memwr_v2" then
    match c.natParam? "\\ABITS", c.natParam? "\\WIDTH" with
    | some a, some w =>
      some ⟨["\\MEMID", "\\ABITS", "\\WIDTH", "\\CLK_ENABLE", "\\CLK_POLARITY", "\\PORTID", "\\PRIORITY_MASK"],
            [⟨"\\ADDR", .input, a⟩, ⟨"\\DATA", .input, w⟩, ⟨"\\EN", .input, w⟩, ⟨"\\CLK", .input, 1⟩],
            c.isFlag "\\CLK_ENABLE" && c.isFlag "\\CLK_POLARITY" && (c.natParam? "\\PORTID").isSome⟩
    | _, _ => none
  else if t == "$memrd_v2" then
    match c.natParam? "\\ABITS", c.natParam? "\\WIDTH" with
    | some a, some w =>
      some ⟨["\\MEMID", "\\ABITS", "\\WIDTH", "\\TRANSPARENCY_MASK", "\\COLLISION_X_MASK", "\\ARST_VALUE", "\\SRST_VALUE",
             "\\INIT_VALUE", "\\CE_OVER_SRST", "\\CLK_ENABLE", "\\CLK_POLARITY"],
            [⟨"\\ADDR", .input, a⟩, ⟨"\\DATA", .output, w⟩, ⟨"\\ARST", .input, 1⟩, ⟨"\\SRST", .input, 1⟩,
             ⟨"\\EN", .input, 1⟩, ⟨"\\CLK", .input, 1⟩],
            c.isFlag "\\CLK_ENABLE" && c.isFlag "\\CLK_POLARITY" && c.isFlag "\\CE_OVER_SRST" &&
            c.bitsParamOk "\\ARST_VALUE" w && c.bitsParamOk "\\SRST_VALUE" w && c.bitsParamOk "\\INIT_VALUE" w⟩
    | _, _ => none
  else if t == "$print" then
    match c.natParam? "\\ARGS_WIDTH", c.natParam? "\\TRG_WIDTH" with
    | some a, some g =>
      some ⟨["\\FORMAT", "\\ARGS_WIDTH", "\\PRIORITY", "\\TRG_ENABLE", "\\TRG_WIDTH", "\\TRG_POLARITY"],
            [⟨"\\EN", .input, 1⟩, ⟨"\\ARGS", .input, a⟩, ⟨"\\TRG", .input, g⟩],
            (c.strParam? "\\FORMAT").isSome && c.isFlag "\\TRG_ENABLE"⟩
    | _, _ => none
  else if t == "$check" then
    match c.natParam? "\\ARGS_WIDTH", c.natParam? "\\TRG_WIDTH" with
    | some a, some g =>
      some ⟨["\\FORMAT", "\\ARGS_WIDTH", "\\PRIORITY", "\\TRG_ENABLE", "\\TRG_WIDTH", "\\TRG_POLARITY", "\\FLAVOR"],
            [⟨"\\EN", .input, 1⟩, ⟨"\\ARGS", .input, a⟩, ⟨"\\TRG", .input, g⟩, ⟨"\\A", .input, 1⟩],
            (c.strParam? "\\FORMAT").isSome && c.isFlag "\\TRG_ENABLE" && (c.strParam? "\\FLAVOR").isSome⟩
    | _, _ => none
  else if anyTypes.contains t then
    match c.natParam? "\\WIDTH" with
    | some w => some ⟨["\\WIDTH"], [⟨"\\Y", .output, w⟩], true⟩
    | none => none
  else if t == "$initstate" then some ⟨[], [⟨"\\Y", .output, 1⟩], true⟩
  else none

/-! ## Expected foreign instances (given from outside the document) -/

structure FPort where
  name : String
  dir : Dir
  width : Nat
  /-- when given: the port must be connected to exactly this whole wire -/
  wire : Option String
deriving Repr, Inhabited

structure Foreign where
  type : String
  params : List Param
  attrs : List Attr
  ports : List FPort
deriving Repr, Inhabited

def FPort.sig (p : FPort) : PortSig := ⟨p.name, p.dir, p.width⟩

/-- the sigspec is the whole wire `n` of width `w` -/
def IsWholeWire (n : String) (w : Nat) (s : SigSpec) : Prop :=
  s.chunks = [.wire n] ∨ s.chunks = [.slice n (w - 1) 0] ∨ (w = 1 ∧ s.chunks = [.bit n 0])

def isInternal (t : String) : Bool :=
  match t.toList with
  | '$' :: _ => true
  | _ => false

def Wire.sig (w : Wire) : PortSig := ⟨w.name, (w.port.map (·.1)).getD .input, w.width⟩

def Wire.isInput (w : Wire) : Bool := match w.port with | some (.input, _) => true | _ => false
def Wire.isInout (w : Wire) : Bool := match w.port with | some (.inout, _) => true | _ => false

/-- the attributes that are part of the design (source locations are not) -/
def Cell.designAttrs (c : Cell) : List Attr := c.attrs.filter (·.name != "\\src")

/-- The ports of a cell: of its internal type, of the module it instantiates, or of the expected
foreign instance of that type. `none`: the type is unknown (a reference to nothing). -/
def cellPorts (d : Doc) (exp : List Foreign) (c : Cell) : Option (List PortSig) :=
  if isInternal c.type then (cellSig c).map (·.ports)
  else match d.module? c.type with
    | some m' => some (m'.ports.map (·.sig))
    | none => (exp.find? (·.type == c.type)).map (fun f => f.ports.map (·.sig))

/-- direction compatibility of a connection with the port it is made to -/
def DirOk (m : Module) (dir : Dir) (s : SigSpec) : Prop :=
  match dir with
  | .input => True
  | .output => ∀ c ∈ s.chunks, ∀ bs, c ≠ .const bs
  | .inout => ∀ c ∈ s.chunks, ∃ n, c.wireName = some n ∧ ∃ w ∈ m.wires, w.name = n ∧ w.isInout = true

/-- the cell connects exactly the ports `sig`, with equal widths and compatible directions -/
structure ConnsMatch (m : Module) (c : Cell) (sig : List PortSig) : Prop where
  nodup : (c.conns.map (·.1)).Nodup
  declared : ∀ pn s, (pn, s) ∈ c.conns → ∃ p ∈ sig, p.name = pn ∧ m.specWidth s = some p.width ∧ DirOk m p.dir s
  complete : ∀ p ∈ sig, ∃ s, (p.name, s) ∈ c.conns

/-- memory cells name a memory of the module of the right word width -/
def MemRefOk (m : Module) (c : Cell) : Prop :=
  memTypes.contains c.type = true →
    ∃ id, c.strParam? "\\MEMID" = some id ∧ ∃ mem ∈ m.memories, mem.name = id ∧
      c.natParam? "\\WIDTH" = some mem.width ∧
      (c.type = "$meminit_v2" → ∃ n, c.natParam? "\\WORDS" = some n ∧ n ≤ mem.size)

inductive CellWF (d : Doc) (exp : List Foreign) (m : Module) (c : Cell) : Prop
  /-- an internal cell of a known type with exactly the parameters of that type -/
  | internal (sig : CellSig) (h : isInternal c.type = true) (hs : cellSig c = some sig)
      (pn : (c.params.map (·.name)).Nodup)
      (p1 : ∀ n ∈ c.params.map (·.name), n ∈ sig.params) (p2 : ∀ n ∈ sig.params, n ∈ c.params.map (·.name))
      (he : sig.extra = true) (hm : MemRefOk m c) (conns : ConnsMatch m c sig.ports)
  /-- an instance of a module of the document: exactly the ports the module declares -/
  | submodule (m' : Module) (h : isInternal c.type = false) (hm : m' ∈ d) (hn : m'.name = c.type)
      (np : c.params = []) (conns : ConnsMatch m c (m'.ports.map (·.sig)))
  /-- a foreign instance: exactly the expected parameters, attributes and connections -/
  | foreign (f : Foreign) (h : isInternal c.type = false) (hno : ∀ m' ∈ d, m'.name ≠ c.type)
      (hf : f ∈ exp) (ht : f.type = c.type) (hp : c.params = f.params) (ha : c.designAttrs = f.attrs)
      (conns : ConnsMatch m c (f.ports.map (·.sig)))
      (hw : ∀ p ∈ f.ports, ∀ n, p.wire = some n → ∀ s, (p.name, s) ∈ c.conns → IsWholeWire n p.width s)

/-! ## Drivers -/

/-- the chunk contains bit `i` of wire `n` -/
def Chunk.covers (c : Chunk) (n : String) (i : Nat) : Bool :=
  match c with
  | .const _ => false
  | .wire nm => nm == n
  | .slice nm hi lo => decide (lo ≤ i) && decide (i ≤ hi) && nm == n
  | .bit nm k => k == i && nm == n

/-- the chunks connected to output ports of cells -/
def cellOutChunks (d : Doc) (exp : List Foreign) (m : Module) : List Chunk :=
  m.cells.flatMap fun c =>
    match cellPorts d exp c with
    | none => []
    | some sig =>
      c.conns.flatMap fun ps =>
        if sig.any (fun p => p.name == ps.1 && p.dir == .output) then ps.2.chunks else []

/-- number of drivers of bit `i` of wire `n`: module input, cell outputs, connects, processes
(a process counts once however often it assigns the bit) -/
def driverCount (d : Doc) (exp : List Foreign) (m : Module) (n : String) (i : Nat) : Nat :=
  m.wires.countP (fun w => w.name == n && w.isInput)
  + (cellOutChunks d exp m).countP (·.covers n i)
  + (m.connects.flatMap (·.1.chunks)).countP (·.covers n i)
  + m.procs.countP (fun p => p.lhsChunks.any (·.covers n i))

/-- drivers other than the module input itself -/
def innerDriverCount (d : Doc) (exp : List Foreign) (m : Module) (n : String) (i : Nat) : Nat :=
  (cellOutChunks d exp m).countP (·.covers n i)
  + (m.connects.flatMap (·.1.chunks)).countP (·.covers n i)
  + m.procs.countP (fun p => p.lhsChunks.any (·.covers n i))

/-! ## The property -/

structure ModuleWF (d : Doc) (exp : List Foreign) (m : Module) : Prop where
  names_unique : m.names.Nodup
  wires_exist : ∀ c ∈ m.chunks, ChunkRefOk m c
  in_bounds : ∀ c ∈ m.chunks, ChunkInBounds m c
  connect_widths : ∀ lr ∈ m.connects, SameWidth m lr.1 lr.2
  assign_widths : ∀ p ∈ m.procs, ∀ lr ∈ p.body.assigns, SameWidth m lr.1 lr.2
  case_widths : ∀ p ∈ m.procs, ∀ sw ∈ p.body.switches, ∃ n, m.specWidth sw.1 = some n ∧
      ∀ pats ∈ sw.2, ∀ pat ∈ pats, pat.length = n
  ports_dense : ∀ k (h : k < m.portIds.length), m.portIds[k] = k
  cells : ∀ c ∈ m.cells, CellWF d exp m c
  one_driver : ∀ w ∈ m.wires, w.isInout = false → ∀ i, i < w.width → driverCount d exp m w.name i = 1

structure WellFormed (d : Doc) (exp : List Foreign) : Prop where
  modules_unique : (d.map (·.name)).Nodup
  modules : ∀ m ∈ d, ModuleWF d exp m

end Amaranth.Rtlil
