import AmaranthVerif.Spec.RtlilWF

/-!
# Spec: a given attribute named `src` is kept

`WellFormed` compares the attributes of a foreign cell with the expected ones *without* the
attributes named `\src` (`Cell.designAttrs`): when source locations are emitted, every cell carries a
generated `\src` that is no part of the design.  But a design may itself give an instance an
attribute literally named `src` (`Instance(…, a_src="vendor.v:317")`); "foreign instances appear
with exactly the given … attribute values" then speaks about that one too:

* `Foreign.design f` is `f` without its `\src` attributes — what `WellFormed` is asked about;
* `GivenSrcKept d exp`: every cell of a type for which the design gives `\src` attributes carries
  exactly those as its `\src` attributes (the generated location neither replaces the given value
  nor stands beside it).
-/

namespace Amaranth.Rtlil

def Attr.isSrc (a : Attr) : Bool := a.name == "\\src"

/-- the attributes named `\src` a cell carries -/
def Cell.srcAttrs (c : Cell) : List Attr := c.attrs.filter Attr.isSrc

/-- the attributes named `\src` the design gives to the instance -/
def Foreign.srcAttrs (f : Foreign) : List Attr := f.attrs.filter Attr.isSrc

/-- the expected instance without the attributes named `\src` (what `WellFormed` compares with
`Cell.designAttrs`) -/
def Foreign.design (f : Foreign) : Foreign := { f with attrs := f.attrs.filter (·.name != "\\src") }

/-- every foreign cell for which the design itself gives an attribute named `\src` carries exactly the given one -/
def GivenSrcKept (d : Doc) (exp : List Foreign) : Prop :=
  ∀ m ∈ d, ∀ c ∈ m.cells, ∀ f ∈ exp, f.type = c.type → f.srcAttrs ≠ [] → c.srcAttrs = f.srcAttrs

end Amaranth.Rtlil
