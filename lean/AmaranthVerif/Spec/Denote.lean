import AmaranthVerif.Model.Expr

/-!
# Spec: the exact integer an expression denotes

Python integer and bit-sequence semantics, with the three documented deviations built in:
`~` complements within the operand's shape, `//` and `%` by zero give 0, a part-select reads the
sign bit (signed) or zero (unsigned) above the MSB — the latter is simply the floor shift of the
exact integer. The arithmetic is Lean's `Int`. Shared with the Model (and therefore characterised separately, in
`Properties/C01.lean`, `spec_bitwise` / `spec_norm`, so that `rtl_exact` does not rest on both sides calling one
function): the Python bitwise operators `pyAnd`/`pyOr`/`pyXor` (bit `k` of the result is the Boolean operation on
bit `k` of the two's-complement operands), `norm` (the unique representative in the shape's range congruent modulo
`2^width`) and `popcount`; `shapeOf` is the documented result shape (tied to the code by correspondence).
-/

namespace Amaranth

/-- bit `i` (from the LSB) of the two's-complement integer `v` -/
def ibit (v : Int) (i : Nat) : Bool := (v / (2 ^ i : Int)) % 2 == 1

/-- A pattern (MSB first) matches `v` when every non-don't-care position equals the bit of `v`. -/
def Pat.matchesSpec (p : Pat) (v : Int) : Bool :=
  (List.range p.length).all fun i =>
    match p.reverse.getD i .any with
    | .any => true
    | .one => ibit v i
    | .zero => !ibit v i

def denote (ctx : Ctx) (env : Env) : Expr → Int
  | .const v _ => v
  | .sig i => env.val i
  | .op1 o a =>
    let va := denote ctx env a
    let sa := shapeOf ctx a
    match o with
    | .inv => if sa.signed then -va - 1 else (2 ^ sa.width - 1 : Int) - va
    | .neg => -va
    | .bool | .rany => if va = 0 then 0 else 1
    | .rall => if (if sa.signed then va = -1 else va = (2 ^ sa.width - 1 : Int)) then 1 else 0
    | .rxor => ((popcount sa.width (va % (2 ^ sa.width : Int)).toNat % 2 : Nat) : Int)
    | .u => va % (2 ^ sa.width : Int)
    | .s => norm ⟨sa.width, true⟩ va
  | .op2 o a b =>
    let x := denote ctx env a
    let y := denote ctx env b
    match o with
    | .add => x + y
    | .sub => x - y
    | .mul => x * y
    | .fdiv => if y = 0 then 0 else Int.fdiv x y
    | .mod => if y = 0 then 0 else Int.fmod x y
    | .eq => if x = y then 1 else 0
    | .ne => if x = y then 0 else 1
    | .lt => if x < y then 1 else 0
    | .le => if x ≤ y then 1 else 0
    | .gt => if y < x then 1 else 0
    | .ge => if y ≤ x then 1 else 0
    | .and => pyAnd x y
    | .or => pyOr x y
    | .xor => pyXor x y
    | .shl => x * (2 ^ y.toNat : Int)
    | .shr => x / (2 ^ y.toNat : Int)
  | .slice a start stop => (denote ctx env a / (2 ^ start : Int)) % (2 ^ (stop - start) : Int)
  | .part a off width stride =>
    (denote ctx env a / (2 ^ ((denote ctx env off).toNat * stride) : Int)) % (2 ^ width : Int)
  | .cat lo hi =>
    denote ctx env lo % (2 ^ widthOf ctx lo : Int)
      + (2 ^ widthOf ctx lo : Int) * (denote ctx env hi % (2 ^ widthOf ctx hi : Int))
  | .ite test pats thn els =>
    if pats.any (fun p => p.matchesSpec (denote ctx env test)) then denote ctx env thn
    else denote ctx env els

end Amaranth
