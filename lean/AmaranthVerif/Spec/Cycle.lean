import AmaranthVerif.Model.CombCycle

/-!
# Spec: "some signal bit combinationally depends on itself"

The plain bit-dependency graph of a netlist: an output bit of a bit-precise cell depends on the
bits listed for that very bit; an output bit of a word-level cell depends on *all* the cell's input
bits. A design has a combinational cycle when some bit reaches itself in one or more steps.
Only the data type `Graph` is shared with the model; nothing of the traversal occurs here.
-/

namespace Amaranth.CombCycle

/-- `b` is a direct combinational dependency of `a` -/
def Edge (g : Graph) (a b : Net) : Prop :=
  ∃ c, g.cells[a.1]? = some c ∧ a.2 < c.width ∧
    ((c.fused = true ∧ b ∈ c.ins) ∨ (c.fused = false ∧ ∃ l, c.bitIns[a.2]? = some l ∧ b ∈ l))

/-- reachability in one or more steps -/
inductive Reach (g : Graph) : Net → Net → Prop
  | step {a b} : Edge g a b → Reach g a b
  | trans {a b c} : Edge g a b → Reach g b c → Reach g a c

def HasCycle (g : Graph) : Prop := ∃ n, Reach g n n

/-- two different output bits of one word-level cell (they have the same dependencies) -/
def SameWord (g : Graph) (a b : Net) : Prop :=
  ∃ c, g.cells[a.1]? = some c ∧ c.fused = true ∧ a.1 = b.1 ∧ a.2 < c.width ∧ b.2 < c.width

/-- `Walk g a p s`: `p` lists the nets of a walk that starts at `a` and arrives at `s`
(`s` itself not listed): `p = [a, n₁, …, nₖ]`, `a → n₁ → … → nₖ → s`; `p = []` means `a = s`. -/
def Walk (g : Graph) : Net → List Net → Net → Prop
  | a, [], s => a = s
  | a, m :: p, s => m = a ∧ ∃ k, Edge g a k ∧ Walk g k p s

/-- what a reported cycle path must be: a non-empty walk from its first net back to that net, or
to another output bit of the same word-level cell (from which the same walk starts again) -/
def IsCycle (g : Graph) (p : List Net) : Prop :=
  ∃ n rest s, p = n :: rest ∧ Walk g n p s ∧ (s = n ∨ SameWord g s n)

/-! ### certificate checkers (what the driver prints as `spec=`)

The harness hands the driver a certificate with every graph: a closed walk if it built the graph
cyclic, a topological order of all nets otherwise. `C06.cycle_cert_sound` and `C06.topo_cert_sound`
show that an accepted certificate settles `HasCycle g` one way or the other. -/

def walkB (g : Graph) : Net → List Net → Net → Bool
  | a, [], s => a == s
  | a, m :: p, s => m == a && (g.succ a).any fun k => walkB g k p s

/-- `p` is a closed walk (up to the word-level sibling at its head) -/
def cycleCertB (g : Graph) (p : List Net) : Bool :=
  match p with
  | [] => false
  | n :: _ => (n :: g.extra n).any fun s => walkB g n p s

def topoB (g : Graph) : List Net → Bool
  | [] => true
  | v :: c => (g.succ v).all (fun s => c.contains s) && !c.contains v && topoB g c

/-- `order` lists every net of the graph, each after all of its dependencies (newest first) -/
def topoCertB (g : Graph) (order : List Net) : Bool :=
  topoB g order && g.nets.all fun n => order.contains n

end Amaranth.CombCycle
