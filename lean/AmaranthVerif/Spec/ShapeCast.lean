import AmaranthVerif.Model.Shape

/-!
# Spec: what "the narrowest shape" and "the constant a shape holds" mean (C10)

Nothing here mentions how the library computes anything: ranges are enumerated the way a
`for` loop would, "narrowest" is a least-element statement over representable sets, and a
constant is characterised by range membership and congruence.
-/

namespace Amaranth.Spec

open Amaranth

/-! ## Ranges -/

/-- `x = start; while x is before stop: yield x; x += step` with a bound on the iterations. -/
def rangeElemsAux : Nat → Int → Int → Int → List Int
  | 0, _, _, _ => []
  | fuel + 1, x, stop, step =>
    if (0 < step ∧ x < stop) ∨ (step < 0 ∧ stop < x) then
      x :: rangeElemsAux fuel (x + step) stop step
    else []

/-- the elements of Python's `range(start, stop, step)`, in order (`|stop - start|` iterations
always suffice because `|step| ≥ 1`) -/
def rangeElems (start stop step : Int) : List Int :=
  rangeElemsAux (stop - start).natAbs start stop step

/-! ## Narrowest shapes -/

/-- the shape can hold every value of the list -/
def Holds (s : Shape) (xs : List Int) : Prop := ∀ x ∈ xs, s.contains x

instance (s : Shape) (xs : List Int) : Decidable (Holds s xs) := by unfold Holds; exact inferInstance

/-- `s` is a narrowest shape for `xs`: it is constructible, holds every element, is signed exactly
when some element is negative, and no constructible shape of that signedness holding every
element is narrower. -/
structure Narrowest (s : Shape) (xs : List Int) : Prop where
  wf : s.WF
  holds : Holds s xs
  signed_iff : s.signed = true ↔ ∃ x ∈ xs, x < 0
  least : ∀ t : Shape, t.WF → t.signed = s.signed → Holds t xs → s.width ≤ t.width

/-- executable search for the narrowest width: the first `w ≥ w0` at which everything fits -/
def searchWidth (signed : Bool) (xs : List Int) : Nat → Nat → Nat
  | 0, w => w
  | fuel + 1, w => if xs.all (fun x => decide ((Shape.mk w signed).contains x)) then w
                   else searchWidth signed xs fuel (w + 1)

/-- executable narrowest shape of a list of integers (used by the driver as the Spec value) -/
def narrowest (xs : List Int) : Shape :=
  let signed := xs.any (· < 0)
  let bound := xs.foldl (fun acc x => max acc (x.natAbs + 2)) 2
  ⟨searchWidth signed xs bound (if signed then 1 else 0), signed⟩

/-- the values an enumeration member stands for when shapes are inferred: the member itself, and,
because the constant 0 is one unsigned bit wide, also 1 when the member is 0 -/
def enumFootprint (vals : List Int) : List Int :=
  vals ++ (if 0 ∈ vals then [1] else [])

/-! ## Constants -/

/-- `r` is the value a constant of shape `s` holds when it is built from the integer `v` -/
def IsConstOf (s : Shape) (v r : Int) : Prop :=
  s.contains r ∧ (r - v) % (2 ^ s.width : Int) = 0

/-- executable form: the representative of `v` in `[lo, lo + 2^w)` -/
def constOf (s : Shape) (v : Int) : Int := s.lo + (v - s.lo) % (2 ^ s.width : Int)

/-- least `k` with `2^k ≥ n` (search; `n` iterations always suffice) -/
def ceilLog2Search (n : Nat) : Nat → Nat → Nat
  | 0, k => k
  | fuel + 1, k => if 2 ^ k ≥ n then k else ceilLog2Search n fuel (k + 1)

end Amaranth.Spec
