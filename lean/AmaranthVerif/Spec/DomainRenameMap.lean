import AmaranthVerif.Spec.DomainSpec

/-!
# Spec: renaming several domains at once

"Renaming moves the logic to the target domain": with a map of several entries every domain named as a source moves
to the target named *for it* — all entries act at once on the names as they were before the wrapper
(`simulRename`). A swap exchanges two domains; in a chain `a ↦ b, b ↦ c` the logic of `a` ends in `b`, not in `c`.

The wrapper stack of `Spec/DomainSpec.lean` has one-entry renamings only. `renameMapWrappers` writes a map with them,
the way one swaps two variables: every source first moves to a name of its own that nothing in the design uses
(`fresh`, `fresh + 1`, …), and only when all sources have moved away do these names move to the entries' targets. `Properties/C03.lean`
(`rename_map_is_simultaneous`) proves that this stack moves every domain `d` to `simulRename m d`.
-/

namespace Amaranth

/-- where domain `d` ends up: the target of the entry whose source it is, or `d` itself -/
def simulRename (m : List (Nat × Nat)) (d : Nat) : Nat :=
  match m.find? (fun p => p.1 == d) with
  | some p => p.2
  | none => d

/-- a renaming map as a stack of one-entry renamings; `k` and everything above it names no domain of the design:
the first source moves to the private name `k`, the remaining entries act (with private names from `k + 1`), then `k`
moves to the first entry's target -/
def renameMapWrappers : Nat → List (Nat × Nat) → List Wrapper
  | _, [] => []
  | k, (s, t) :: rest => Wrapper.rename s k :: (renameMapWrappers (k + 1) rest ++ [Wrapper.rename k t])

end Amaranth
