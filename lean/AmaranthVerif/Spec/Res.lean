/-!
# What C19 means: a one-to-one allocation of physical pins, and constraints that name the right pin

No implementation identifier occurs here.  A *request* asks, under a key, for a list of physical pins
(`none`: the request is not acceptable on its own — unknown key, bad options, a name that does not
resolve).  The allocation is the list of keys granted so far and the list of pins they own.
-/

namespace Amaranth.Res.Spec

/-! ## Resolving a pin name through a chain of connectors -/

/-- `Resolves link relative x z`: following the wiring `link` from the (possibly connector-relative) name
`x`, hop by hop while the name is connector-relative, ends at the physical pin `z`. -/
inductive Resolves (link : String → String → Prop) (relative : String → Prop) : String → String → Prop
  | here {x : String} : ¬ relative x → Resolves link relative x x
  | hop {x y z : String} : relative x → link x y → Resolves link relative y z → Resolves link relative x z

/-! ## Allocation -/

structure Alloc (κ : Type) where
  granted : List κ
  owned : List String

def Alloc.empty {κ : Type} : Alloc κ := ⟨[], []⟩

/-- one-to-one: no key is granted twice and no physical pin is owned twice -/
def Alloc.OneToOne {κ : Type} (a : Alloc κ) : Prop := a.granted.Nodup ∧ a.owned.Nodup

inductive Verdict
  | granted (pins : List String)
  | refused
deriving DecidableEq, Repr, Inhabited

/-- a request may be granted exactly when it is acceptable, its key has not been granted before, and the
pins it asks for are pairwise distinct and all free -/
def grantable {κ : Type} [DecidableEq κ] (a : Alloc κ) (key : κ) (pins : List String) : Prop :=
  key ∉ a.granted ∧ pins.Nodup ∧ ∀ p ∈ pins, p ∉ a.owned

instance {κ : Type} [DecidableEq κ] (a : Alloc κ) (key : κ) (pins : List String) :
    Decidable (grantable a key pins) := by unfold grantable; infer_instance

/-- granted: the key and its pins are added; refused: **the allocation is unchanged** -/
def step {κ : Type} [DecidableEq κ] (a : Alloc κ) (key : κ) (want : Option (List String)) : Alloc κ × Verdict :=
  match want with
  | none => (a, .refused)
  | some pins =>
    if grantable a key pins then (⟨a.granted ++ [key], a.owned ++ pins⟩, .granted pins)
    else (a, .refused)

def run {κ : Type} [DecidableEq κ] : Alloc κ → List (κ × Option (List String)) → Alloc κ × List Verdict
  | a, [] => (a, [])
  | a, (k, w) :: rs =>
    let (a1, v) := step a k w
    let (a2, vs) := run a1 rs
    (a2, v :: vs)

/-! ## Port bits and constraint lines -/

/-- a port has one bit per declared pin, in declared order, each the resolution of the declared name -/
def BitsInOrder (resolves : String → String → Prop) : (declared bits : List String) → Prop
  | [], [] => True
  | d :: ds, b :: bs => resolves d b ∧ BitsInOrder resolves ds bs
  | _, _ => False

/-- the name a constraint file uses for bit `i` of a top-level port `name` of width `w` -/
def bitName (name : String) (w i : Nat) : String :=
  if w = 1 then name else name ++ "[" ++ toString i ++ "]"

/-- the constraint lines `(bit name, pin)` a port with pins `pins` must get: bit `i` ↦ the `i`-th pin -/
def linesFor (name : String) (pins : List String) : List (String × String) :=
  pins.zipIdx.map fun (p, i) => (bitName name pins.length i, p)

/-- `lines` constrains every pin of `pins` exactly once -/
def ExactlyOnce (lines : List (String × String)) (pins : List String) : Prop :=
  ∀ p ∈ pins, (lines.filter fun l => l.2 == p).length = 1

end Amaranth.Res.Spec
