import AmaranthVerif.Spec.Prog
import AmaranthVerif.Model.Domain

/-!
# Spec: clock domains, resets and control inserters, read directly from the property

A design is a list of *leaves*: the logic of one module in one domain as written (`Prog`), and the
stack of wrappers applied around it, innermost first. At an event (simultaneous changes of clocks,
resets and inputs):

* a leaf's bits change only if the event contains the active edge of the leaf's (renamed) domain
  clock, or the domain has an asynchronous reset that rises;
* at an active edge the driven bits take the assigned values, then every wrapper acts from the
  inside out: an inserted reset whose control is 1 loads the initial value into the driven bits of
  non-reset-less signals; an inserted enable whose control is not 1 freezes everything inside it;
  finally the domain's own reset, if asserted, loads initial values (reset-less signals excepted);
* when an asynchronous reset rises without an active edge, the driven bits of non-reset-less
  signals take their initial values and nothing else changes;
* combinational leaves then settle.

`DomCfg` (clock signal, edge, reset signal, async flag) is shared with the model: it is data.
-/

namespace Amaranth

inductive Wrapper
  | reset (dom : Nat) (ctl : Expr)
  | enable (dom : Nat) (ctl : Expr)
  | rename (src dst : Nat)
deriving Inhabited

structure Leaf where
  dom : Option Nat
  prog : List Prog
  wrappers : List Wrapper
deriving Inhabited

structure SpecDesign where
  ctx : Ctx
  inits : Env
  resetLess : List Bool
  doms : List DomCfg
  leaves : List Leaf
deriving Inhabited

/-- is bit `b` of signal `i` driven by this program? -/
def progDrives (ctx : Ctx) (prog : List Prog) (i b : Nat) : Bool :=
  (Prog.listTargets prog).any fun t => drivenP ctx t i b

/-- per bit: take `new` where `sel`, else `old`; re-read in the signal's shape -/
def selectBits (s : Shape) (sel : Nat → Bool) (new old : Int) : Int :=
  norm s ((List.range s.width).foldl (fun acc b =>
    acc + (if ibit (if sel b then new else old) b then 2 ^ b else 0)) 0)

def mergeDriven (ctx : Ctx) (prog : List Prog) (keep : Nat → Bool) (new old : Env) : Env :=
  (List.range ctx.length).map fun i =>
    selectBits (ctx.shape i) (fun b => progDrives ctx prog i b && keep i) (new.val i) (old.val i)

/-- the domain a leaf's logic ends up in after the renames of its wrapper stack -/
def Leaf.finalDom (l : Leaf) : Option Nat :=
  l.wrappers.foldl (fun d w => match w with
    | .rename s t => if d == some s then some t else d
    | _ => d) l.dom

/-- value of the driven bits of a synchronous leaf after an active edge, before the domain reset -/
def Leaf.edgeValue (D : SpecDesign) (l : Leaf) (cur : Env) : Env :=
  let assigned := progStep D.ctx l.prog cur cur
  let notRL := fun i => !(D.resetLess.getD i false)
  let go := l.wrappers.foldl (fun (st : Option Nat × Env) w =>
    let (d, v) := st
    match w with
    | .rename s t => (if d == some s then some t else d, v)
    | .reset dom ctl =>
      if d == some dom && decide (denote D.ctx cur ctl = 1) then
        (d, mergeDriven D.ctx l.prog notRL D.inits v)
      else (d, v)
    | .enable dom ctl =>
      if d == some dom && !decide (denote D.ctx cur ctl = 1) then
        (d, mergeDriven D.ctx l.prog (fun _ => true) cur v)
      else (d, v)) (l.dom, assigned)
  go.2

def specEvent (D : SpecDesign) (cur : Env) (changes : List (Nat × Int)) : Env :=
  let cur' := applyChanges cur changes
  let notRL := fun i => !(D.resetLess.getD i false)
  let afterSync := D.leaves.foldl (fun acc l =>
    match l.finalDom with
    | none => acc
    | some d =>
      let cfg := D.doms.getD d default
      let clkEdge := edgeFired cur cur' cfg.clk (if cfg.posedge then 1 else 0)
      let rstVal : Int := match cfg.rst with | some r => cur'.val r | none => 0
      let rstRise := cfg.async && (match cfg.rst with | some r => edgeFired cur cur' r 1 | none => false)
      if clkEdge then
        let v := l.edgeValue D cur'
        let v := if rstVal % 2 = 1 then mergeDriven D.ctx l.prog notRL D.inits v else v
        mergeDriven D.ctx l.prog (fun _ => true) v acc
      else if rstRise then
        mergeDriven D.ctx l.prog notRL D.inits acc
      else acc) cur'
  -- combinational leaves settle (they read no combinationally driven signal in generated designs,
  -- so the iteration below reaches its fixpoint quickly; fuel = number of leaves + 2)
  let combOnce := fun (snap : Env) =>
    D.leaves.foldl (fun acc l => match l.finalDom with
      | none => mergeDriven D.ctx l.prog (fun _ => true) (progStep D.ctx l.prog snap D.inits) acc
      | some _ => acc) snap
  let rec settle (fuel : Nat) (e : Env) : Env :=
    match fuel with
    | 0 => e
    | fuel + 1 => let e' := combOnce e; if e' == e then e else settle fuel e'
  settle (D.leaves.length + 2) (combOnce afterSync)

end Amaranth
