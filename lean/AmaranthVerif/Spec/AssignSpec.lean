import AmaranthVerif.Spec.Denote

/-!
# Spec: what an assignment to a target changes

A target denotes a sequence of *bit locations* (LSB first); position `k` of the target is either
bit `b` of signal `i`, or nothing (it falls outside the addressed object: silently dropped).
Assigning `v` writes bit `k` of the two's-complement integer `v` to location `k`, for every `k`
below the target's width, in ascending order of `k`; every other bit of every signal is untouched.
-/

namespace Amaranth

abbrev Loc := Option (Nat × Nat)

def padTo (n : Nat) (l : List Loc) : List Loc := l.take n ++ List.replicate (n - l.length) none

/-- the bit locations a target addresses, given the current values (offsets and selectors) -/
def lbits (ctx : Ctx) (env : Env) : Expr → List Loc
  | .sig i => (List.range (ctx.shape i).width).map (fun b => some (i, b))
  | .op1 .u a => lbits ctx env a
  | .op1 .s a => lbits ctx env a
  | .slice a s e => ((lbits ctx env a).drop s).take (e - s)
  | .part a off w stride => padTo w ((lbits ctx env a).drop ((denote ctx env off).toNat * stride))
  | .cat lo hi => lbits ctx env lo ++ lbits ctx env hi
  | .ite test pats thn els =>
    padTo (widthOf ctx (.ite test pats thn els))
      (if pats.any (fun p => p.matchesSpec (denote ctx env test)) then lbits ctx env thn else lbits ctx env els)
  | _ => []

/-- `v` with bit `b` replaced by `x`: clear the bit, then set it to `x` (two's complement, so this
also works on negative values) -/
def setBit (v : Int) (b : Nat) (x : Bool) : Int :=
  pyOr (pyAnd v (pyNot (2 ^ b))) (if x then 2 ^ b else 0)

def Env.set (env : Env) (i : Nat) (v : Int) : Env := List.set env i v

/-- write the bits of `v` to the locations, position by position -/
def applyBits (ctx : Ctx) : List Loc → (k : Nat) → Int → Env → Env
  | [], _, _, env => env
  | none :: ls, k, v, env => applyBits ctx ls (k + 1) v env
  | some (i, b) :: ls, k, v, env =>
    applyBits ctx ls (k + 1) v (env.set i (norm (ctx.shape i) (setBit (env.val i) b (ibit v k))))

/-- the state after `target.eq(v)` (or `ctx.set(target, v)`) in state `env` -/
def assignSpec (ctx : Ctx) (env : Env) (target : Expr) (v : Int) : Env :=
  applyBits ctx (lbits ctx env target) 0 v env

def Expr.isNilConst : Expr → Bool
  | .const 0 ⟨0, false⟩ => true
  | _ => false

/-- a target is assignable: signals, slices, part-selects, concatenations, choices (array elements)
and sign reinterpretations of assignable targets -/
def Expr.assignable : Expr → Bool
  | .sig _ => true
  | .op1 .u a => a.assignable
  | .op1 .s a => a.assignable
  | .slice a _ _ => a.assignable
  | .part a _ _ _ => a.assignable
  | .cat lo hi => (lo.assignable || lo.isNilConst) && (hi.assignable || hi.isNilConst)
  | .ite _ _ thn els => thn.assignable && (els.assignable || els.isNilConst)
  | _ => false

end Amaranth
