import AmaranthVerif.Spec.Prog

/-!
# Spec: which bits a target drives — the part-select clause

`drivenBy` (Spec/Prog.lean) is positional: bit `b` of signal `i` is driven by a target when some position of the
target can be that bit. The code is coarser in one respect: a part-select (`bit_select` / `word_select` with a
run-time offset) that occurs *anywhere* in a target makes every bit of its operand driven, also when an enclosing
slice or concatenation window can never reach the part (`LHSMaskCollector.visit_value`: `Part → visit_value(value.value, ~0)`,
"could be more accurate"; the same rule decides drivers at elaboration and in the netlist). Example: in
`Cat(a.bit_select(off, 2), x)[2:3].eq(1)` only `x` can be written, but all of `a` is driven by the domain — it is
reset with the domain, it starts from its initial value in `comb`, and no other domain may drive it.

`drivenP` adds that clause to `drivenBy`; `progDrivesP` is the notion lifted to programs. (To be folded into
`drivenBy` / `progDrives`; kept apart while other properties build against Spec/Prog.lean.)
-/

namespace Amaranth

/-- is bit `b` of signal `i` driven by this program? -/
def progDrivesP (ctx : Ctx) (prog : List Prog) (i b : Nat) : Bool :=
  (Prog.listTargets prog).any fun t => drivenP ctx t i b

end Amaranth
