import AmaranthVerif.Model.IoBuf

/-!
# Spec: what C18 says, bit by bit

Imported from the model file: only the vocabulary (`Dir`, `Err`, `Key`) and the Python builtins
`slice.indices` / `range` (`Py.sliceIndices`, `Py.range`), which are part of the language the
property is written in ("`p[a:b:c]`"), not of the library under verification.

* A **port** is a direction and a list of wires; each wire has an identity and a polarity.
  Subscripting selects wires by position (identity and polarity travel together), `+` puts the
  wires of the right operand after those of the left one, `~` flips every polarity and nothing else.
* A **buffer** drives wire `k` of the port with `o[k] XOR inverted[k]`, every enable bit with
  `oe`, and shows on `i[k]` the wire's input `XOR inverted[k]` (a bidirectional buffer shows its own
  `o[k]` while it is enabled).
* A **registered buffer** shows after a clock edge what the combinational one showed just before it.
* On real pads a buffer needs one cell on the pads it drives or listens on: the pads of a single-ended port,
  the true half of a differential pair, and the complementary half when it *drives* the pair (the
  complement goes there); a differential **input** listens on the true half alone, so its complementary
  pads carry no cell (`padClaims`). The polarity is applied between the buffer's signals and the cell.
* Every pad bit may be claimed by at most one buffer cell.
-/

namespace Amaranth.IoBuf.Spec

/-! ## ports -/

structure Port (ω : Type) where
  dir : Dir
  wires : List (ω × Bool)
deriving DecidableEq, Repr

/-- combining directions: equal directions stay, a bidirectional port adapts, input and output clash -/
def dirMeet : Dir → Dir → R Dir
  | .i, .i => pure .i
  | .o, .o => pure .o
  | .io, d => pure d
  | d, .io => pure d
  | .i, .o => throw .valueError
  | .o, .i => throw .valueError

/-- the positions a subscript selects from a sequence of `n` elements. Python semantics, except
that a unit-step slice whose start lies beyond its stop is rejected (as for every Amaranth value)
instead of yielding an empty result. -/
def positions (n : Nat) : Key → R (List Nat)
  | .idx k => if -(n : Int) ≤ k ∧ k < n then pure [(k % (n : Int)).toNat] else throw .indexError
  | .slc s e st => do
    let (a, b, c) ← Py.sliceIndices n s e st
    if c = 1 ∧ a > b then throw .indexError
    else pure ((Py.range a b c).map Int.toNat)
  | .bad => throw .typeError

/-- the elements of `xs` at the given positions, in that order -/
def select (ps : List Nat) (xs : List α) : List α := ps.filterMap fun i => xs[i]?

def getItem (p : Port ω) (key : Key) : R (Port ω) := do
  let ps ← positions p.wires.length key
  pure ⟨p.dir, select ps p.wires⟩

/-- `restrict d w`: what remains of wire `w` in a port of direction `d` (identity for real ports;
a simulation wire loses the signals the direction does not have) -/
def add (restrict : Dir → ω → ω) (p q : Port ω) : R (Port ω) := do
  let d ← dirMeet p.dir q.dir
  pure ⟨d, (p.wires ++ q.wires).map (Prod.map (restrict d) id)⟩

def invert (p : Port ω) : R (Port ω) :=
  pure ⟨p.dir, p.wires.map (Prod.map id not)⟩

def ops (restrict : Dir → ω → ω) : Ops (Port ω) := ⟨getItem, add restrict, invert⟩

/-! ## values as bit sequences (index `k` = bit `k`, LSB first) -/

def toBits (w v : Nat) : List Bool := (List.range w).map v.testBit

def ofBits : List Bool → Nat
  | [] => 0
  | b :: bs => b.toNat + 2 * ofBits bs

/-! ## combinational buffer -/

/-- `port.o[k] = o[k] XOR inverted[k]` -/
def portO (inv o : List Bool) : List Bool := List.zipWith xor o inv

/-- `port.oe[k] = oe` for every `k` -/
def portOe (w : Nat) (oe : Bool) : List Bool := List.replicate w oe

/-- `i[k] = port.i[k] XOR inverted[k]` -/
def bufI (inv pi : List Bool) : List Bool := List.zipWith xor pi inv

/-- bidirectional buffer: the driven value is looped back while enabled -/
def bufIBidir (inv o : List Bool) (oe : Bool) (pi : List Bool) : List Bool :=
  if oe then o else bufI inv pi

structure Obs where
  portO : Option (List Bool)
  portOe : Option (List Bool)
  i : Option (List Bool)
deriving DecidableEq, Repr

/-- which observables exist for a buffer direction, and their values -/
def buffer (bdir : Dir) (inv : List Bool) (o : List Bool) (oe : Bool) (pi : List Bool) : Obs :=
  { portO := if bdir = .i then none else some (portO inv o)
    portOe := if bdir = .i then none else some (portOe inv.length oe)
    i := match bdir with
      | .i => some (bufI inv pi)
      | .o => none
      | .io => some (bufIBidir inv o oe pi) }

/-! ## registered buffer -/

/-- single clock: the observation after edge `t` is the combinational buffer's answer to the inputs
applied before edge `t` — `o`/`oe` of cycle `t` on the port, and on `i` the port input of cycle `t`
as seen through the buffer driven by `o`/`oe` of cycle `t-1` (`prevO`, `prevOe`) -/
def ffTrace (bdir : Dir) (inv : List Bool) (prevO : List Bool) (prevOe : Bool) :
    List (List Bool × Bool × List Bool) → List Obs
  | [] => []
  | (o, oe, pi) :: rest =>
    { portO := (buffer bdir inv o oe pi).portO
      portOe := (buffer bdir inv o oe pi).portOe
      i := (buffer bdir inv prevO prevOe pi).i } :: ffTrace bdir inv o oe rest

/-- an event of the two-clock reading: the values applied, and which of the two named clocks has
an active edge -/
structure Ev where
  o : List Bool
  oe : Bool
  pi : List Bool
  tickI : Bool
  tickO : Bool
deriving DecidableEq, Repr

/-- two named clocks: `ro`/`roe` hold `o`/`oe` of the most recent output-clock edge, `ri` holds what
the combinational buffer showed on `i` just before the most recent input-clock edge; the
observation is taken after the event, inputs still applied -/
def ffRun (bdir : Dir) (inv : List Bool) (ro : List Bool) (roe : Bool) (ri : List Bool) : List Ev → List Obs
  | [] => []
  | e :: rest =>
    let ri' := if e.tickI then (buffer bdir inv ro roe e.pi).i.getD ri else ri
    let ro' := if e.tickO then e.o else ro
    let roe' := if e.tickO then e.oe else roe
    { portO := (buffer bdir inv ro' roe' e.pi).portO
      portOe := (buffer bdir inv ro' roe' e.pi).portOe
      i := if bdir = .o then none else some ri' } :: ffRun bdir inv ro' roe' ri' rest

/-! ## which buffer may sit on which port -/

/-- a buffer needs a port of its own direction or a bidirectional one -/
def legal (bdir pdir : Dir) : Bool := pdir = bdir || pdir = .io

/-- an output buffer has no input clock, an input buffer no output clock -/
def domainsOk (bdir : Dir) (iDom oDom : Bool) : Bool := !(bdir = .o && iDom) && !(bdir = .i && oDom)

/-! ## single use of pad bits -/

/-- a list of buffer cells is acceptable iff no pad bit is claimed twice -/
def accepts [DecidableEq β] (cells : List (List β)) : Bool := decide cells.flatten.Nodup

/-- what a buffer cell on pads with polarity flags `inv` puts on the pads / shows on `i` -/
def padO (inv o : List Bool) : List Bool := List.zipWith xor o inv
def padI (inv pad : List Bool) : List Bool := List.zipWith xor pad inv
/-- the complementary half of a differential pair carries the complement -/
def padON (inv o : List Bool) : List Bool := (padO inv o).map not

/-- the cells a generic buffer needs: (pads, cell direction). `n`: the complementary half, if the port is
differential -/
def padClaims (bdir : Dir) (p : List β) (n : Option (List β)) : List (List β × Dir) :=
  (p, bdir) :: (match n with
    | some n => if bdir = .i then [] else [(n, Dir.o)]
    | none => [])

/-- what one buffer puts on its pads and shows on `i` -/
structure PadObs where
  /-- the pads (of a differential pair: the true half), if driven -/
  padO : Option (List Bool)
  /-- the complementary half of a differential pair, if driven -/
  padN : Option (List Bool)
  oe : Option Bool
  i : Option (List Bool)
deriving DecidableEq, Repr

/-- a combinational buffer on pads; unlike on a simulation port there is no loop-back: `i` is what is on the pads -/
def padBuffer (diff : Bool) (bdir : Dir) (inv : List Bool) (o : List Bool) (oe : Bool) (pad : List Bool) : PadObs :=
  { padO := if bdir = .i then none else some (padO inv o)
    padN := if bdir = .i ∨ diff = false then none else some (padON inv o)
    oe := if bdir = .i then none else some oe
    i := if bdir = .o then none else some (padI inv pad) }

/-- a registered buffer on pads, two named clocks (as `ffRun`; `e.pi` is the value on the pads) -/
def ffRunPads (diff : Bool) (bdir : Dir) (inv : List Bool) (ro : List Bool) (roe : Bool) (ri : List Bool) :
    List Ev → List PadObs
  | [] => []
  | e :: rest =>
    let ri' := if e.tickI then (padBuffer diff bdir inv ro roe e.pi).i.getD ri else ri
    let ro' := if e.tickO then e.o else ro
    let roe' := if e.tickO then e.oe else roe
    { padBuffer diff bdir inv ro' roe' e.pi with i := if bdir = .o then none else some ri' }
      :: ffRunPads diff bdir inv ro' roe' ri' rest

end Amaranth.IoBuf.Spec
