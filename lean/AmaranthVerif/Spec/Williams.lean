/-!
# The Rocksoft / Williams parameter model of a CRC, bit-serial (Spec of C16)

"A Painless Guide to CRC Error Detection Algorithms", §§ 8–16: a register of `Width` bits is loaded
with `Init`; message bits enter one at a time; the register is shifted left and `Poly` is xor-ed in
whenever the bit shifted out differs from the message bit; `RefIn` says that each message word is
fed least significant bit first, `RefOut` that the final register is bit-reversed, `XorOut` is
xor-ed onto the result.  Nothing here is word-parallel.
-/

namespace Amaranth.Williams

/-- the six parameters of the model (Width, Poly, Init, RefIn, RefOut, XorOut) -/
structure Params where
  width  : Nat
  poly   : Nat
  init   : Nat
  refin  : Bool
  refout : Bool
  xorout : Nat
deriving Repr, DecidableEq, Inhabited

/-- parameter sets of the model: a non-empty register, and `Poly`, `Init`, `XorOut` fit in it -/
def Params.Valid (p : Params) : Prop :=
  0 < p.width ∧ p.poly < 2 ^ p.width ∧ p.init < 2 ^ p.width ∧ p.xorout < 2 ^ p.width

instance (p : Params) : Decidable p.Valid := by unfold Params.Valid; infer_instance

/-- bits `n-1, …, 0` of `x`: most significant first -/
def msbFirst : Nat → Nat → List Bool
  | 0, _ => []
  | n + 1, x => x.testBit n :: msbFirst n x

/-- bits `0, …, n-1` of `x`: least significant first -/
def lsbFirst (n x : Nat) : List Bool := (msbFirst n x).reverse

/-- the number whose binary digits, *least* significant first, are `bs` -/
def ofLsbFirst : List Bool → Nat
  | [] => 0
  | b :: bs => b.toNat + 2 * ofLsbFirst bs

/-- bit-reversal of an `n`-bit word: write it most significant bit first, read it back least
    significant bit first -/
def reflect (x n : Nat) : Nat := ofLsbFirst (msbFirst n x)

/-- one message bit enters the `w`-bit register -/
def stepBit (w poly : Nat) (reg : Nat) (b : Bool) : Nat :=
  let shifted := (2 * reg) % 2 ^ w
  if reg.testBit (w - 1) != b then shifted ^^^ poly else shifted

/-- the message as a bit stream, in the order in which the bits enter the register -/
def stream (p : Params) (dataWidth : Nat) (words : List Nat) : List Bool :=
  words.flatMap fun x => if p.refin then lsbFirst dataWidth x else msbFirst dataWidth x

/-- the register after the whole message -/
def register (p : Params) (dataWidth : Nat) (words : List Nat) : Nat :=
  (stream p dataWidth words).foldl (stepBit p.width p.poly) p.init

/-- the CRC of a message given as words of `dataWidth` bits -/
def crc (p : Params) (dataWidth : Nat) (words : List Nat) : Nat :=
  let reg := register p dataWidth words
  (if p.refout then reflect reg p.width else reg) ^^^ p.xorout

/-- The CRC as it is appended to a message ("transmission order"): its bits follow the message in
    the order in which the receiver's register consumes them — most significant bit of the register
    first, i.e. the CRC value most significant bit first without `RefOut` and least significant bit
    first with it — cut into words of `dataWidth` bits, each word laid out (RefIn) so that the
    receiver feeds its bits in exactly that order.  `k` is the number of words
    (`width = k * dataWidth`). -/
def trailerChunks (dataWidth : Nat) : Nat → Nat → List Nat
  | 0, _ => []
  | k + 1, v => (v >>> (k * dataWidth)) % 2 ^ dataWidth :: trailerChunks dataWidth k v

def trailer (p : Params) (dataWidth : Nat) (crcValue : Nat) : List Nat :=
  let v := if p.refout then reflect crcValue p.width else crcValue
  (trailerChunks dataWidth (p.width / dataWidth) v).map fun c =>
    if p.refin then reflect c dataWidth else c

/-- `words` is a message followed by its own CRC in transmission order -/
def IsCodeword (p : Params) (dataWidth : Nat) (words : List Nat) : Prop :=
  ∃ msg, words = msg ++ trailer p dataWidth (crc p dataWidth msg)

/-- executable form of `IsCodeword` when `width = k * dataWidth` (the trailer has `k` words) -/
def isCodeword (p : Params) (dataWidth : Nat) (words : List Nat) : Bool :=
  let k := p.width / dataWidth
  k ≤ words.length &&
    words.drop (words.length - k) ==
      trailer p dataWidth (crc p dataWidth (words.take (words.length - k)))

/-- the inputs of a streaming CRC unit in one clock cycle -/
structure Cycle where
  start : Bool
  valid : Bool
  data : Nat
deriving Repr, DecidableEq

/-- the message so far: the words presented with `valid` since the last cycle with `start`
    (a word presented together with `start` is the first word of the new message) -/
def wordsSince (cycles : List Cycle) : List Nat :=
  cycles.foldl (fun ws c =>
    let ws := if c.start then [] else ws
    if c.valid then ws ++ [c.data] else ws) []

end Amaranth.Williams
