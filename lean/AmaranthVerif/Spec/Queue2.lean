/-!
# A bounded queue observed from two sides that run on unrelated clocks

The writer sees `wRdy`/`wLevel` and presents `wEn, wData`; the reader sees `rRdy, rData, rLevel`
and presents `rEn`.  Time advances by *clock events*: an edge of the writer's clock, of the
reader's clock, or of both at once.  A word is accepted at a writer edge with `wRdy ∧ wEn` and
handed over at a reader edge with `rRdy ∧ rEn`.

The specification is a monitor: it keeps the words accepted and not yet handed over (`held`,
oldest first) and says which observations are admissible while the queue holds them:

* `rRdy` only if `held` is non-empty, and then `rData` is its oldest word;
* `wRdy` only if fewer than `depth` words are held;
* both levels within `0..depth`;
* bounded drain: once `bound` reader edges have passed since the last accepted write, a non-empty
  queue must show `rRdy`.

Order / no loss / no duplication is what "`held` is a FIFO" means: the words handed over, followed
by `held`, are exactly the words accepted (`Mon.log_eq`).
-/

namespace Amaranth.Queue2

/-- what the two sides can see between two clock events -/
structure Obs where
  wRdy : Bool
  rRdy : Bool
  rData : Nat
  wLevel : Nat
  rLevel : Nat
deriving Repr, DecidableEq

inductive Clock | w | r | both
deriving Repr, DecidableEq

def Clock.isW : Clock → Bool
  | .w | .both => true
  | .r => false
def Clock.isR : Clock → Bool
  | .r | .both => true
  | .w => false

/-- what the two sides present at a clock event -/
structure Strobes where
  wEn : Bool
  wData : Nat
  rEn : Bool
deriving Repr, DecidableEq

structure Mon where
  /-- accepted and not yet handed over, oldest first -/
  held : List Nat
  /-- reader-clock edges since the last accepted write -/
  quiet : Nat
  /-- every word accepted so far, oldest first -/
  pushed : List Nat
  /-- every word handed over so far, oldest first -/
  popped : List Nat
deriving Repr, DecidableEq

def Mon.init : Mon := ⟨[], 0, [], []⟩

/-- the clauses an observation must satisfy; names of the violated ones are returned -/
def Mon.violated (depth bound : Nat) (m : Mon) (o : Obs) : List String :=
  (if o.rRdy && m.held.head? != some o.rData then ["r_data"] else []) ++
  (if o.wRdy && !(m.held.length < depth) then ["w_rdy_overrun"] else []) ++
  (if !(o.wLevel ≤ depth) then ["w_level_range"] else []) ++
  (if !(o.rLevel ≤ depth) then ["r_level_range"] else []) ++
  (if decide (bound ≤ m.quiet) && !m.held.isEmpty && !o.rRdy then ["drain"] else [])

def Mon.admits (depth bound : Nat) (m : Mon) (o : Obs) : Bool := (m.violated depth bound o).isEmpty

/-- the queue's reaction to a clock event, given what was observable just before it -/
def Mon.step (m : Mon) (o : Obs) (c : Clock) (i : Strobes) : Mon :=
  let push := c.isW && o.wRdy && i.wEn
  let pop := c.isR && o.rRdy && i.rEn
  { held := (if pop then m.held.tail else m.held) ++ (if push then [i.wData] else [])
    quiet := if push then 0 else if c.isR then m.quiet + 1 else m.quiet
    pushed := m.pushed ++ (if push then [i.wData] else [])
    popped := m.popped ++ (if pop then m.held.head?.toList else []) }

/-- A run: the observation before each event, the event, and finally the last observation.
Returns the index of the first inadmissible observation and the violated clauses. -/
def firstViolation (depth bound : Nat) : Mon → Nat → Obs → List (Clock × Strobes × Obs) → Option (Nat × List String)
  | m, k, o, [] => if m.admits depth bound o then none else some (k, m.violated depth bound o)
  | m, k, o, (c, i, o') :: rest =>
    if m.admits depth bound o then firstViolation depth bound (m.step o c i) (k + 1) o' rest
    else some (k, m.violated depth bound o)

def accepts (depth bound : Nat) (o : Obs) (tr : List (Clock × Strobes × Obs)) : Bool :=
  (firstViolation depth bound Mon.init 0 o tr).isNone

/-! ## Constructor rounding, as a search -/

/-- the least `k` in `k0 .. k0 + fuel` with `p k`, if any -/
def leastFrom (p : Nat → Bool) : Nat → Nat → Option Nat
  | 0, k0 => if p k0 then some k0 else none
  | fuel + 1, k0 => if p k0 then some k0 else leastFrom p fuel (k0 + 1)

/-- the least `k ≤ fuel` with `p k`, if any -/
def least (p : Nat → Bool) (fuel : Nat) : Option Nat := leastFrom p fuel 0

/-- the smallest power of two that is ≥ `d` -/
def roundPow2 (d : Nat) : Nat := match least (fun k => decide (d ≤ 2 ^ k)) d with
  | some k => 2 ^ k
  | none => 0
/-- the smallest number of the form `2^k + 1` that is ≥ `d` -/
def roundPow2Plus1 (d : Nat) : Nat := match least (fun k => decide (d ≤ 2 ^ k + 1)) d with
  | some k => 2 ^ k + 1
  | none => 0

end Amaranth.Queue2
