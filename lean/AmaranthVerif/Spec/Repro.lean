/-!
# What C09 means: results do not depend on the order in which an unordered collection is enumerated,
# and a reset brings back the initial state

Determinism is a statement about *functions*.  A computation that consumes a finite set can only see it
through some enumeration; it is reproducible when every enumeration of the same set gives the same
result.  A reset is complete when the state after it is the state of a freshly built simulation of the same
design, so that whatever is run afterwards behaves as on a fresh one.  A build plan is identified by its
script name and its *set* of files; its digest and its archive depend on nothing else, the archive lists the
files in ascending name order with one fixed time stamp, and extracting it creates exactly its files.
-/

namespace Amaranth.Repro.Spec

/-! ## Order-freeness -/

/-- every enumeration of the same collection gives the same result -/
def OrderFree {α : Type} {β : Sort _} (f : List α → β) : Prop :=
  ∀ o₁ o₂ : List α, o₁.Perm o₂ → f o₁ = f o₂

/-- `l` is *the* ascending enumeration of the collection enumerated by `o` -/
def IsAscendingEnumOf (l o : List String) : Prop := l.Perm o ∧ l.Pairwise (· ≤ ·)

/-- put `a` in front of the first element that is strictly greater -/
def place (a : String) : List String → List String
  | [] => [a]
  | b :: bs => if a < b then a :: b :: bs else b :: place a bs

/-- the ascending enumeration, computed -/
def ascending : List String → List String
  | [] => []
  | a :: as => place a (ascending as)

/-- the inputs that a design with implicitly created clock domains gets: for every such domain, in
ascending order of the domain names, a clock and — unless the domain has no reset — a reset -/
def expectedPorts (names : List String) (hasRst : String → Bool) : List (String × Bool) :=
  (ascending names).flatMap (fun n => (n, false) :: (if hasRst n then [(n, true)] else []))

/-! ## Reset -/

/-- `reset` brings every state back to the initial state of what the state is a simulation of -/
def RestoresInitial {σ δ : Type} (describe : σ → δ) (initial : δ → σ) (reset : σ → σ) : Prop :=
  ∀ s, reset s = initial (describe s)

/-- whatever is run after a reset is observed exactly as on a fresh simulation -/
def SameRerun {σ δ ι ω : Type} (describe : σ → δ) (initial : δ → σ) (reset : σ → σ) (observe : σ → ι → ω) : Prop :=
  ∀ s script, observe (reset s) script = observe (initial (describe s)) script

/-! ## Build plans -/

/-- the content stored under a name in a finite map given as an association list -/
def contentOf {β : Type} [Inhabited β] (files : List (String × β)) (name : String) : β :=
  match files.find? (·.1 == name) with
  | some e => e.2
  | none => default

/-- a function of an association list that depends only on the finite map it denotes -/
def FilesOnly {β : Type} {γ : Sort _} (f : List (String × β) → γ) : Prop :=
  ∀ a b : List (String × β), a.Perm b → (a.map (·.1)).Nodup → f a = f b

/-- the files in ascending order of their names -/
def ascendingFiles {β : Type} [Inhabited β] (files : List (String × β)) : List (String × β) :=
  (ascending (files.map (·.1))).map (fun n => (n, contentOf files n))

/-- what identifies a plan: names and contents in ascending name order, then the script name -/
def identity {β : Type} [Inhabited β] (enc : String → List β) (script : String) (files : List (String × List β)) :
    List β :=
  (ascendingFiles files).flatMap (fun e => enc e.1 ++ e.2) ++ enc script

end Amaranth.Repro.Spec
