import AmaranthVerif.Spec.Prog
import AmaranthVerif.Spec.DomainSpec

/-!
# Spec: the Module DSL with clock domains and finite state machines, read directly

The program as written: assignments carry their domain, `FSM` blocks consist of `State` blocks whose
bodies are again programs (nested FSMs included), `m.next = S` and calls of `fsm.ongoing(S)`.

What the property says about an FSM:

* it is, at every moment, *in* one of its states (by name); an assignment inside a `State` block is
  active exactly when that state is the current one (and every enclosing block is selected);
* `m.next = S` in an active position makes `S` the state after the next active edge of the FSM's
  domain; the last active one wins; without an active `m.next` the FSM stays where it is;
* `fsm.ongoing(S)` is 1 exactly while the current state is `S`;
* it starts, and restarts when its domain is reset, in the state named by `init=`, or else in the
  first state defined.

Nothing here knows how states are numbered: a configuration maps an FSM to the *name* of its
current state (`none`: the FSM is in none of its states).
-/

namespace Amaranth

structure FsmHdr where
  /-- the signal `fsm.state`; it also identifies the FSM -/
  reg : Nat
  /-- `m.FSM(domain=…)` -/
  dom : String
  /-- `m.FSM(init=…)` -/
  init : Option String
  /-- the signal that `fsm.ongoing(name)` returns, per state name -/
  og : List (String × Nat)
deriving Repr, Inhabited, DecidableEq

inductive FProg
  | assign (dom : String) (lhs rhs : Expr)
  /-- `If c₀: b₀  Elif c₁: b₁ … Else: e` (no `Else` = empty `e`) -/
  | ifs (branches : List (Expr × List FProg)) (els : List FProg)
  /-- `Switch(test)`: cases in order; `none` = `Default` -/
  | switch (test : Expr) (cases : List (Option (List UPat) × List FProg))
  /-- `with m.FSM(...) as fsm:` — in order: `(S, some body)` is `with m.State(S): body`, `(S, none)` is a call
  of `fsm.ongoing(S)` between two State blocks -/
  | fsm (h : FsmHdr) (entries : List (String × Option (List FProg)))
  /-- `m.next = S` (binds to the innermost enclosing FSM) -/
  | next (name : String)
  /-- a call of `fsm.ongoing(S)` on the innermost enclosing FSM, inside one of its states -/
  | watch (name : String)
deriving Inhabited

abbrev FsmEntries := List (String × Option (List FProg))

/-- the current state (by name) of every FSM, identified by `FsmHdr.reg` -/
abbrev Conf := Nat → Option String

/-- what an evaluation of the program does: assign a value to a target, or choose the next state of an FSM -/
inductive Ev
  | write (lhs : Expr) (v : Int)
  | goto (h : FsmHdr) (entries : FsmEntries) (name : String)

mutual
/-- the active items of domain `d`, in program order; `inner` is the innermost enclosing FSM -/
def FProg.events (ctx : Ctx) (env : Env) (σ : Conf) (d : String) (inner : Option (FsmHdr × FsmEntries)) :
    FProg → List Ev
  | .assign dom lhs rhs => if dom = d then [.write lhs (denote ctx env rhs)] else []
  | .ifs branches els =>
    match FProg.ifEvents ctx env σ d inner branches with
    | some evs => evs
    | none => FProg.listEvents ctx env σ d inner els
  | .switch test cases => FProg.caseEvents ctx env σ d inner (shapeOf ctx test) (denote ctx env test) cases
  | .fsm h entries =>
    match σ h.reg with
    | some s => FProg.stateEvents ctx env σ d (some (h, entries)) s entries
    | none => []
  | .next name =>
    match inner with
    | some (h, entries) => if h.dom = d then [.goto h entries name] else []
    | none => []
  | .watch _ => []
def FProg.listEvents (ctx : Ctx) (env : Env) (σ : Conf) (d : String) (inner : Option (FsmHdr × FsmEntries)) :
    List FProg → List Ev
  | [] => []
  | p :: ps => FProg.events ctx env σ d inner p ++ FProg.listEvents ctx env σ d inner ps
def FProg.ifEvents (ctx : Ctx) (env : Env) (σ : Conf) (d : String) (inner : Option (FsmHdr × FsmEntries)) :
    List (Expr × List FProg) → Option (List Ev)
  | [] => none
  | (c, body) :: rest =>
    if denote ctx env c ≠ 0 then some (FProg.listEvents ctx env σ d inner body)
    else FProg.ifEvents ctx env σ d inner rest
def FProg.caseEvents (ctx : Ctx) (env : Env) (σ : Conf) (d : String) (inner : Option (FsmHdr × FsmEntries))
    (s : Shape) (v : Int) : List (Option (List UPat) × List FProg) → List Ev
  | [] => []
  | (none, body) :: _ => FProg.listEvents ctx env σ d inner body
  | (some pats, body) :: rest =>
    if pats.any (fun p => p.matchesV s v) then FProg.listEvents ctx env σ d inner body
    else FProg.caseEvents ctx env σ d inner s v rest
/-- the body of the State block named `cur` -/
def FProg.stateEvents (ctx : Ctx) (env : Env) (σ : Conf) (d : String) (inner : Option (FsmHdr × FsmEntries))
    (cur : String) : FsmEntries → List Ev
  | [] => []
  | (_, none) :: rest => FProg.stateEvents ctx env σ d inner cur rest
  | (name, some body) :: rest =>
    if name = cur then FProg.listEvents ctx env σ d inner body
    else FProg.stateEvents ctx env σ d inner cur rest
end

/-- the assignments among the events -/
def Ev.writes : List Ev → List (Expr × Int)
  | [] => []
  | .write l v :: rest => (l, v) :: Ev.writes rest
  | .goto .. :: rest => Ev.writes rest

/-- the configuration after the edge: the last active `m.next` of an FSM wins, no `m.next` = stay -/
def Conf.after (σ : Conf) : List Ev → Conf
  | [] => σ
  | .write .. :: rest => Conf.after σ rest
  | .goto h _ name :: rest => Conf.after (fun r => if r = h.reg then some name else σ r) rest

/-- the names of the State blocks, in definition order -/
def definedStates : FsmEntries → List String
  | [] => []
  | (_, none) :: rest => definedStates rest
  | (name, some _) :: rest => name :: definedStates rest

/-- the state an FSM starts in: `init=` if given, else the first one defined -/
def specInit (h : FsmHdr) (entries : FsmEntries) : Option String :=
  match h.init with
  | some s => some s
  | none => (definedStates entries).head?

/-- `fsm.ongoing(S)` -/
def ongoingSpec (σ : Conf) (reg : Nat) (name : String) : Int := if σ reg = some name then 1 else 0

mutual
/-- every FSM of the program (nested ones after the FSM they are nested in) -/
def FProg.fsms : FProg → List (FsmHdr × FsmEntries)
  | .assign .. => []
  | .ifs branches els => FProg.ifFsms branches ++ FProg.listFsms els
  | .switch _ cases => FProg.caseFsms cases
  | .fsm h entries => (h, entries) :: FProg.entryFsms entries
  | .next _ => []
  | .watch _ => []
def FProg.listFsms : List FProg → List (FsmHdr × FsmEntries)
  | [] => []
  | p :: ps => FProg.fsms p ++ FProg.listFsms ps
def FProg.ifFsms : List (Expr × List FProg) → List (FsmHdr × FsmEntries)
  | [] => []
  | (_, body) :: rest => FProg.listFsms body ++ FProg.ifFsms rest
def FProg.caseFsms : List (Option (List UPat) × List FProg) → List (FsmHdr × FsmEntries)
  | [] => []
  | (_, body) :: rest => FProg.listFsms body ++ FProg.caseFsms rest
def FProg.entryFsms : FsmEntries → List (FsmHdr × FsmEntries)
  | [] => []
  | (_, none) :: rest => FProg.entryFsms rest
  | (_, some body) :: rest => FProg.listFsms body ++ FProg.entryFsms rest
end

mutual
/-- all targets of domain `d`, active or not (what the domain *drives*) -/
def FProg.targets (d : String) : FProg → List Expr
  | .assign dom lhs _ => if dom = d then [lhs] else []
  | .ifs branches els => FProg.ifTargets d branches ++ FProg.listTargets d els
  | .switch _ cases => FProg.caseTargets d cases
  | .fsm _ entries => FProg.entryTargets d entries
  | .next _ => []
  | .watch _ => []
def FProg.listTargets (d : String) : List FProg → List Expr
  | [] => []
  | p :: ps => FProg.targets d p ++ FProg.listTargets d ps
def FProg.ifTargets (d : String) : List (Expr × List FProg) → List Expr
  | [] => []
  | (_, body) :: rest => FProg.listTargets d body ++ FProg.ifTargets d rest
def FProg.caseTargets (d : String) : List (Option (List UPat) × List FProg) → List Expr
  | [] => []
  | (_, body) :: rest => FProg.listTargets d body ++ FProg.caseTargets d rest
def FProg.entryTargets (d : String) : FsmEntries → List Expr
  | [] => []
  | (_, none) :: rest => FProg.entryTargets d rest
  | (_, some body) :: rest => FProg.listTargets d body ++ FProg.entryTargets d rest
end

/-- `progStep` with the driven targets and the active writes given: driven bits start from `start`, the rest keep
`env`; then the writes apply in order (the last one wins, per bit) -/
def stepWith (ctx : Ctx) (tg : List Expr) (ws : List (Expr × Int)) (env start : Env) : Env :=
  let base : Env := (List.range ctx.length).map fun i =>
    let w := (ctx.shape i).width
    let bits : Int := (List.range w).foldl (fun acc b =>
      let src := if tg.any (fun t => drivenP ctx t i b) then start.val i else env.val i
      acc + (if ibit src b then 2 ^ b else 0)) 0
    norm (ctx.shape i) bits
  applyWrites ctx env ws base

/-- the `ongoing()` signals of the given FSMs: each reads 1 iff its state is the current one -/
def ongoingWrites (σ : Conf) : List (FsmHdr × FsmEntries) → List (Expr × Int)
  | [] => []
  | (h, _) :: rest => h.og.map (fun (x : String × Nat) => (Expr.sig x.2, ongoingSpec σ h.reg x.1)) ++ ongoingWrites σ rest

/-- the configuration after a reset of domain `d`: its FSMs are back in their initial states -/
def Conf.reset (σ : Conf) (d : String) : List (FsmHdr × FsmEntries) → Conf
  | [] => σ
  | (h, entries) :: rest =>
    fun r => if r = h.reg ∧ h.dom = d then specInit h entries else Conf.reset σ d rest r

/-- **One evaluation of domain `d`** (`start` = initial values for `comb`, = `env` for a synchronous domain at its
active edge): the new signal values and the new configuration. -/
def fsmSpecStep (ctx : Ctx) (items : List FProg) (d : String) (env start : Env) (σ : Conf) : Env × Conf :=
  let evs := FProg.listEvents ctx env σ d none items
  let ogw := if d = "comb" then ongoingWrites σ (FProg.listFsms items) else []
  (stepWith ctx (FProg.listTargets d items ++ ogw.map (·.1)) (Ev.writes evs ++ ogw) env start, σ.after evs)

/-- per bit: where a target of `tg` drives the bit and `keep` holds for the signal take `new`, else `old` -/
def mergeDrivenT (ctx : Ctx) (tg : List Expr) (keep : Nat → Bool) (new old : Env) : Env :=
  (List.range ctx.length).map fun i =>
    selectBits (ctx.shape i) (fun b => tg.any (fun t => drivenP ctx t i b) && keep i) (new.val i) (old.val i)

/-- **The active edge of the synchronous domain `d`**, with the domain's reset asserted or not: with reset, the driven
bits of the signals that are not reset-less take their initial values and the FSMs of the domain are back in their
initial states. -/
def fsmSpecEdge (ctx : Ctx) (inits : Env) (resetLess : List Bool) (items : List FProg) (d : String) (rst : Bool)
    (env : Env) (σ : Conf) : Env × Conf :=
  let r := fsmSpecStep ctx items d env env σ
  if rst then
    (mergeDrivenT ctx (FProg.listTargets d items) (fun i => !(resetLess.getD i false)) inits r.1,
     r.2.reset d (FProg.listFsms items))
  else r

end Amaranth
