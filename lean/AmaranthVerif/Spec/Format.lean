import AmaranthVerif.Model.Format
import AmaranthVerif.Spec.Denote
import AmaranthVerif.Spec.Prog

/-!
# Spec: format specifications, the text of a Print / a failing Assert, and when they happen

* `Documented`: the grammar the property names — `[[fill]align][sign][#][0][width][_][type]` with
  align `< > =`, sign `+ - space`, width a positive decimal number, type one of `b o d x X c s`;
  `c` and `s` only for unsigned values and without `=`, sign, `#`, `0`, `_`; `s` only for whole bytes.
* `pythonText v spec`: what Python produces for the integer `v` under `spec` — `format(v, spec)` for
  the integer presentation types and `c`; for `s` the value read as a byte string (least significant
  byte first, NUL bytes skipped, UTF-8) formatted as a Python `str` with the same fill/align/width.
  (`pyFormatInt`/`pyFormatStr` are the model of CPython, not of amaranth.)
* `specText`: a message is its literal text and the Python text of each value **interpreted in its
  own shape** (`denote`), concatenated.
* a Print / Assert / Assume is *active* when every enclosing case is selected (`selected`), at a
  statement level (`occurrences`) and at the level of the program as written (`PProg.active`:
  first true `If`/`Elif` test, first matching `Case`).
* `activeEdge`: the clock of the domain moves to its active level.
* `specSimulate`: at every active edge the active Prints write their text in program order, up to
  the first active Assert / Assume whose condition is zero, which stops the simulation.
-/

namespace Amaranth
namespace Fmt

/-! ## The documented grammar -/

structure Parts where
  fill  : Option Char := none
  align : Option Char := none
  sign  : Option Char := none
  alt   : Bool := false
  zero  : Bool := false
  width : List Char := []
  group : Bool := false
  ty    : Option Char := none

def Parts.text (p : Parts) : List Char :=
  p.fill.toList ++ p.align.toList ++ p.sign.toList ++ (if p.alt then ['#'] else []) ++
  (if p.zero then ['0'] else []) ++ p.width ++ (if p.group then ['_'] else []) ++ p.ty.toList

structure Parts.WF (p : Parts) : Prop where
  fill_needs_align : p.fill.isSome → p.align.isSome
  fill_not_newline : p.fill ≠ some '\n'
  align_ok : ∀ a, p.align = some a → a = '<' ∨ a = '>' ∨ a = '='
  sign_ok : ∀ s, p.sign = some s → s = '-' ∨ s = '+' ∨ s = ' '
  width_ok : p.width = [] ∨ ∃ d ds, p.width = d :: ds ∧ isDigit19 d = true ∧ ds.all isDigit = true
  ty_ok : ∀ t, p.ty = some t → t = 'b' ∨ t = 'o' ∨ t = 'd' ∨ t = 'x' ∨ t = 'X' ∨ t = 'c' ∨ t = 's'

/-- the restrictions of the character and string presentation types -/
structure Parts.OkFor (p : Parts) (sh : Shape) : Prop where
  cs_unsigned : p.ty = some 'c' ∨ p.ty = some 's' → sh.signed = false
  cs_plain : p.ty = some 'c' ∨ p.ty = some 's' →
    p.align ≠ some '=' ∧ p.sign = none ∧ p.alt = false ∧ p.zero = false ∧ p.group = false
  s_bytes : p.ty = some 's' → sh.width % 8 = 0

def Documented (s : List Char) (sh : Shape) : Prop :=
  ∃ p : Parts, p.WF ∧ p.OkFor sh ∧ p.text = s

/-! ## The text -/

/-- what Python produces for the integer `v` under the specification `spec` -/
def pythonText (v : Int) (spec : List Char) : Except PyErr PyStr :=
  match parseSpecL spec with
  | none => .error .valueError
  | some sp =>
    if sp.ty = some .s then
      match valueToString v with
      | .ok s => pyFormatStr sp s
      | .error e => .error e
    else pyFormatInt sp v

/-- literal text and the Python text of every value interpreted in its own shape -/
def specText (ctx : Ctx) (env : Env) : List Chunk → Except PyErr PyStr
  | [] => .ok []
  | .lit s :: rest => prependE s (specText ctx env rest)
  | .val e spec :: rest =>
    match pythonText (denote ctx env e) spec with
    | .ok t => prependE t (specText ctx env rest)
    | .error e => .error e

/-- what the constructors accept: well-formed values, and specifications `Format` accepts for the
value's shape -/
def Chunk.ok (ctx : Ctx) : Chunk → Bool
  | .lit _ => true
  | .val e spec => e.wf ctx && acceptsL spec (shapeOf ctx e)

def chunksOk (ctx : Ctx) (cs : List Chunk) : Bool := cs.all (Chunk.ok ctx)

def Leaf.ok (ctx : Ctx) : Leaf → Bool
  | .print _ msg => chunksOk ctx msg
  | .prop _ _ test msg => test.wf ctx && (match msg with | none => true | some m => chunksOk ctx m)

/-- what `Switch.__init__` guarantees: well-formed tests, patterns as wide as the test -/
def PStmt.ok (ctx : Ctx) : PStmt → Bool
  | .skip => true
  | .seq a b => a.ok ctx && b.ok ctx
  | .assign _ _ => true
  | .ite t pats a b => t.wf ctx && pats.all (fun p => p.length == widthOf ctx t) && a.ok ctx && b.ok ctx
  | .fx l => l.ok ctx

/-! ## Which statements are active -/

/-- an enclosing `Switch` case: its test, its patterns, and whether the statement sits in the case
(`true`) or behind it, i.e. in a later case of the same `Switch` (`false`) -/
abbrev Guard := Expr × List Pat × Bool
abbrev Path := List Guard

/-- every Print / Property of a statement, in program order, with its enclosing cases -/
def occurrences : PStmt → List (Path × Leaf)
  | .skip => []
  | .seq a b => occurrences a ++ occurrences b
  | .assign _ _ => []
  | .ite t p a b =>
    (occurrences a).map (fun x => ((t, p, true) :: x.1, x.2)) ++
    (occurrences b).map (fun x => ((t, p, false) :: x.1, x.2))
  | .fx l => [([], l)]

def Guard.holds (ctx : Ctx) (env : Env) (g : Guard) : Bool :=
  (g.2.1.any fun p => p.matchesSpec (denote ctx env g.1)) == g.2.2

/-- every enclosing case is selected (and no earlier case of the same `Switch` is) -/
def selected (ctx : Ctx) (env : Env) (p : Path) : Bool := p.all (Guard.holds ctx env)

def activeLeaves (ctx : Ctx) (env : Env) (s : PStmt) : List Leaf :=
  ((occurrences s).filter fun x => selected ctx env x.1).map (·.2)

/-- the active Prints write their text in order; the first active Assert / Assume whose condition is
zero stops the run with its message -/
def specRun (ctx : Ctx) (env : Env) : List Leaf → RunRes
  | [] => ⟨[], none⟩
  | .print _ msg :: rest =>
    match specText ctx env msg with
    | .ok t => let r := specRun ctx env rest; ⟨t ++ r.out, r.stop⟩
    | .error e => ⟨[], some (.pyError e)⟩
  | .prop id k test msg :: rest =>
    if denote ctx env test = 0 then
      match msg with
      | none => ⟨[], some (.assertion id k.text)⟩
      | some m =>
        match specText ctx env m with
        | .ok t => ⟨[], some (.assertion id (k.text ++ [':', ' '] ++ t))⟩
        | .error e => ⟨[], some (.pyError e)⟩
    else specRun ctx env rest

/-! ## When -/

/-- the clock moves to the active level of the domain -/
def activeEdge (d : Domain) (e : Event) : Bool := (e.clk0 != e.clk1) && (e.clk1 == d.posedge)

/-- one event: at an active edge the active statements `act env` run -/
def specSimulateWith (d : Domain) (ctx : Ctx) (act : Env → List Leaf) : List Event → Nat → Trace
  | [], _ => ⟨[], none⟩
  | ev :: rest, i =>
    if activeEdge d ev then
      let r := specRun ctx ev.env (act ev.env)
      match r.stop with
      | some s => ⟨[r.out], some (i, s)⟩
      | none =>
        let t := specSimulateWith d ctx act rest (i + 1)
        ⟨r.out :: t.outs, t.stop⟩
    else
      let t := specSimulateWith d ctx act rest (i + 1)
      ⟨[] :: t.outs, t.stop⟩

def specSimulate (d : Domain) (ctx : Ctx) (body : PStmt) : List Event → Nat → Trace :=
  specSimulateWith d ctx (fun env => activeLeaves ctx env body)

/-- something stops the simulation at this event -/
def failsAt (d : Domain) (ctx : Ctx) (body : PStmt) (e : Event) : Bool :=
  activeEdge d e && (specRun ctx e.env (activeLeaves ctx e.env body)).stop.isSome

/-! ## The program as written -/

inductive PProg
  | assign (lhs rhs : Expr)
  | fx (l : Leaf)
  /-- `If c₀: b₀  Elif c₁: b₁ … Else: e` -/
  | ifs (branches : List (Expr × List PProg)) (els : List PProg)
  /-- `Switch(test)`: cases in order; `none` = `Default` -/
  | switch (test : Expr) (cases : List (Option (List UPat) × List PProg))
deriving Inhabited

mutual
/-- the active Print / Property statements of one item, in program order -/
def PProg.active (ctx : Ctx) (env : Env) : PProg → List Leaf
  | .assign _ _ => []
  | .fx l => [l]
  | .ifs branches els =>
    match PProg.ifActive ctx env branches with
    | some ls => ls
    | none => PProg.listActive ctx env els
  | .switch test cases => PProg.caseActive ctx env (shapeOf ctx test) (denote ctx env test) cases
def PProg.listActive (ctx : Ctx) (env : Env) : List PProg → List Leaf
  | [] => []
  | p :: ps => PProg.active ctx env p ++ PProg.listActive ctx env ps
/-- the first branch whose condition is non-zero, if any -/
def PProg.ifActive (ctx : Ctx) (env : Env) : List (Expr × List PProg) → Option (List Leaf)
  | [] => none
  | (c, body) :: rest =>
    if denote ctx env c ≠ 0 then some (PProg.listActive ctx env body) else PProg.ifActive ctx env rest
/-- the first case one of whose patterns matches (`Default` matches everything) -/
def PProg.caseActive (ctx : Ctx) (env : Env) (s : Shape) (v : Int) :
    List (Option (List UPat) × List PProg) → List Leaf
  | [] => []
  | (none, body) :: _ => PProg.listActive ctx env body
  | (some pats, body) :: rest =>
    if pats.any (fun p => p.matchesV s v) then PProg.listActive ctx env body
    else PProg.caseActive ctx env s v rest
end

end Fmt
end Amaranth
