import AmaranthVerif.Spec.DomainSpec
import AmaranthVerif.Model.Engine

/-!
# Spec: what a simulation shows, read directly from the property

No delta cycles, no process set, no wakers, no timeline dictionary. Time is a natural number of
femtoseconds.

* The `k`-th toggle of an added clock happens at `phase + k * (period / 2)` (`/` is floor division).
* A delay of `n` awaited at time `t` resumes at `t + n`.
* An **event** is a set of simultaneous changes of signals that no logic drives (clocks, resets,
  inputs): all clock toggles that fall on one instant, or one testbench write. The design reacts to
  an event as C03 says (`specEvent`: registers whose domain sees its active edge take the values
  computed from the state *at the edge*, then combinational logic settles). A process added with
  `add_process` in one of the two documented forms is, for the observer, the circuit it replaces: a
  combinational assignment, or a register of its domain.
* A testbench waiting for a tick / an edge / a change resumes after the event that contains it; the
  values it sampled are those at the event (the changed signals already new, everything the design
  computes from them still old); what it reads afterwards are the settled values after the event.
  A delay that expires at the instant of an event samples the values before the event.
* Whenever testbenches can run, they run in the order in which they were added, again and again
  until none can; a write returns after the design has settled.

The scripts (`TbOp`, `TrigElem`) and the description of the added processes (`ProcKind`) are data
shared with the model. The Spec covers scripts that wait only on signals nothing drives and write
only whole such signals (or concatenations of them); for other scripts `specRun` answers `none`
(an edge of a *computed* signal happens in the middle of a settle; what is sampled there is a
matter of delta cycles, on which the property says nothing beyond "independent of the order").
-/

namespace Amaranth.EngineSpec
open Amaranth Amaranth.Engine

/-- instant of the `k`-th toggle (k = 0, 1, …) of a clock added with the given phase and period -/
def toggleTime (phase period k : Nat) : Nat := phase + k * (period / 2)

/-- instant at which a delay of `n` fs awaited at `now` resumes -/
def delayResume (now n : Nat) : Nat := now + n

/-- `Period(fs = p) / 2`, rounded to the nearest femtosecond, ties to even: the default phase -/
def halfRounded (p : Nat) : Nat := if p % 2 = 0 then p / 2 else if (p / 2) % 2 = 0 then p / 2 else p / 2 + 1

inductive Status
  | ready
  | waitEvent
  | waitDelay (deadline : Nat)
  | done
deriving Repr, Inhabited, DecidableEq

structure TbSt where
  pc : Nat := 0
  status : Status := .ready
  /-- set when a wait completes; recorded when the testbench runs next -/
  result : Option (List Int) := none
deriving Inhabited

structure SSt where
  env : Env
  now : Nat := 0
  /-- toggles performed so far, per added clock -/
  ks : List Nat
  tbs : List TbSt
  obs : List Obs := []
deriving Inhabited

structure World where
  D : SpecDesign
  /-- `(signal, phase, period)` of every added clock -/
  clocks : List (Nat × Nat × Nat)
  scripts : List (List TbOp)

/-- the leaf a documented process form stands for -/
def userLeaf : ProcKind → List Leaf
  | .userComb _ out e => [{ dom := none, prog := [.assign (.sig out) e], wrappers := [] }]
  | .userSync d _ out e => [{ dom := some d, prog := [.assign (.sig out) e], wrappers := [] }]
  | .userSyncPart d _ out lo hi e => [{ dom := some d, prog := [.assign (.slice (.sig out) lo hi) e], wrappers := [] }]
  | _ => []

/-- nothing drives any bit of signal `i` -/
def isFree (D : SpecDesign) (i : Nat) : Bool :=
  D.leaves.all fun l => (List.range (D.ctx.shape i).width).all fun b => !progDrives D.ctx l.prog i b

/-- the changes a write of `v` to `target` makes, for targets that are whole free signals or
concatenations of them -/
def targetChanges (D : SpecDesign) : Expr → Int → Option (List (Nat × Int))
  | .sig i, v => if isFree D i then some [(i, norm (D.ctx.shape i) v)] else none
  | .cat lo hi, v => do
      let a ← targetChanges D lo v
      let b ← targetChanges D hi (v / 2 ^ widthOf D.ctx lo)
      some (a ++ b)
  | .const 0 ⟨0, false⟩, _ => some []
  | _, _ => none

def elemCovered (D : SpecDesign) : TrigElem → Bool
  | .edge sig _ _ => isFree D sig
  | .changed sig => isFree D sig
  | _ => true

def hasDelay (t : Trigger) : Bool := t.any (·.isDelay)

/-- the triggers the Spec talks about: a delay with samples, or edges/changes of free signals with samples -/
def triggerCovered (D : SpecDesign) (t : Trigger) : Bool :=
  t.all (elemCovered D) &&
  (!hasDelay t || t.all fun el => match el with | .delay _ => true | .sample _ => true | _ => false)

def opCovered (W : World) : TbOp → Bool
  | .set tgt _ => (targetChanges W.D tgt 0).isSome
  | .setFrom tgt _ => (targetChanges W.D tgt 0).isSome
  | .get _ => true
  | op => triggerCovered W.D ((op.trigger W.D.doms).getD [])

def covered (W : World) : Bool := W.scripts.all fun sc => sc.all (opCovered W)

/-- does this element happen in the event `cur → cur'`? -/
def elemHappens (cur cur' : Env) : TrigElem → Bool
  | .edge sig bit pol =>
    ibit (cur.val sig) bit != ibit (cur'.val sig) bit && ibit (cur'.val sig) bit == pol
  | .changed sig => cur.val sig != cur'.val sig
  | _ => false

/-- what a completed wait returns -/
def waitResult (ctx : Ctx) (t : Trigger) (cur cur' : Env) : List Int :=
  t.map fun el => match el with
    | .sample e => denote ctx cur' e
    | .changed sig => cur'.val sig
    | .delay _ => 0
    | el => b2i (elemHappens cur cur' el)

def opTrigger (W : World) (t : Nat) (st : TbSt) : Option (TbOp × Trigger) :=
  match (W.scripts.getD t [])[st.pc]? with
  | some op => (op.trigger W.D.doms).map fun tr => (op, tr)
  | none => none

/-- an event happens: the design reacts, waiting testbenches whose trigger is in the event resume -/
def event (W : World) (changes : List (Nat × Int)) (s : SSt) : SSt :=
  let cur := s.env
  let cur' := applyChanges cur changes
  let tbs := (List.range s.tbs.length).map fun t =>
    let st := s.tbs.getD t default
    match st.status, opTrigger W t st with
    | .waitEvent, some (_, tr) =>
      if tr.any (elemHappens cur cur') then
        { st with status := .ready, result := some (waitResult W.D.ctx tr cur cur') }
      else st
    | _, _ => st
  { s with env := specEvent W.D cur changes, tbs }

def record (s : SSt) (t : Nat) (vals : List Int) : SSt := { s with obs := (t, s.now, vals) :: s.obs }

def setTb (s : SSt) (t : Nat) (st : TbSt) : SSt := { s with tbs := s.tbs.set t st }

/-- testbench `t` runs until it has to wait -/
def tbRun (W : World) (t : Nat) : Nat → SSt → SSt
  | 0, s => s
  | fuel + 1, s =>
    let st := s.tbs.getD t default
    match (W.scripts.getD t [])[st.pc]? with
    | none => setTb s t { st with status := .done }
    | some op =>
      match st.result with
      | some r =>
        tbRun W t fuel (setTb (record s t (op.shown r)) t { st with result := none, pc := st.pc + 1 })
      | none =>
        match op with
        | .set tgt v =>
          let s' := event W ((targetChanges W.D tgt v).getD []) s
          tbRun W t fuel (setTb s' t { st with pc := st.pc + 1 })
        | .setFrom tgt e =>
          let s' := event W ((targetChanges W.D tgt (denote W.D.ctx s.env e)).getD []) s
          tbRun W t fuel (setTb s' t { st with pc := st.pc + 1 })
        | .get e => tbRun W t fuel (setTb (record s t [denote W.D.ctx s.env e]) t { st with pc := st.pc + 1 })
        | op =>
          let tr := (op.trigger W.D.doms).getD []
          match tr.delay? with
          | some n => setTb s t { st with status := .waitDelay (delayResume s.now n) }
          | none => setTb s t { st with status := .waitEvent }

/-- all testbenches that can run, in the order in which they were added; `true` if one ran -/
def tbPass (W : World) (s : SSt) : SSt × Bool :=
  (List.range W.scripts.length).foldl (fun (acc : SSt × Bool) t =>
    let st := acc.1.tbs.getD t default
    if st.status == .ready then
      (tbRun W t (2 * (W.scripts.getD t []).length + 2) acc.1, true)
    else acc) (s, false)

def tbLoop (W : World) : Nat → SSt → SSt
  | 0, s => s
  | fuel + 1, s => let r := tbPass W s; if r.2 then tbLoop W fuel r.1 else r.1

def optMin : Option Nat → Nat → Option Nat
  | none, b => some b
  | some a, b => some (min a b)

/-- the next instant at which something is scheduled -/
def nextInstant (W : World) (s : SSt) : Option Nat :=
  let a := (List.range W.clocks.length).foldl (fun acc c =>
    let ck := W.clocks.getD c default
    optMin acc (toggleTime ck.2.1 ck.2.2 (s.ks.getD c 0))) none
  s.tbs.foldl (fun acc st => match st.status with | .waitDelay d => optMin acc d | _ => acc) a

/-- move to instant `T`: expiring delays resume (sampling the values before the event) -/
def arrive (W : World) (T : Nat) (s : SSt) : SSt :=
  let tbs := (List.range s.tbs.length).map fun t =>
    let st := s.tbs.getD t default
    match st.status, opTrigger W t st with
    | .waitDelay d, some (_, tr) =>
      if d == T then
        { st with status := .ready, result := some (tr.map fun el => match el with
            | .sample e => denote W.D.ctx s.env e
            | _ => 1) }
      else st
    | _, _ => st
  { s with now := T, tbs }

/-- all clock toggles of instant `s.now` as one event -/
def clockEvent (W : World) (s : SSt) : SSt :=
  let due := (List.range W.clocks.length).filter fun c =>
    let ck := W.clocks.getD c default
    toggleTime ck.2.1 ck.2.2 (s.ks.getD c 0) == s.now
  if due.isEmpty then s else
  let changes := due.map fun c => let sig := (W.clocks.getD c default).1; (sig, b2i (s.env.val sig == 0))
  let s' := event W changes s
  { s' with ks := (List.range s.ks.length).map fun c => s.ks.getD c 0 + (if due.contains c then 1 else 0) }

def allDone (s : SSt) : Bool := s.tbs.all fun st => st.status == .done

/-- `deadline = none`: until every testbench has finished -/
def specLoop (W : World) (deadline : Option Nat) : Nat → SSt → SSt
  | 0, s => s
  | fuel + 1, s =>
    let s1 := tbLoop W (fuel + 1) s
    match nextInstant W s1 with
    | none => s1
    | some T =>
      let s2 := arrive W T s1
      let stop := match deadline with | some d => decide (d ≤ T) | none => allDone s2
      if stop then s2 else specLoop W deadline fuel (clockEvent W s2)

def specRun (D : SpecDesign) (users clocks : List ProcKind) (scripts : List (List TbOp))
    (deadline : Option Nat) (fuel : Nat) : Option (List Obs × Env) :=
  let D' : SpecDesign := { D with leaves := D.leaves ++ users.flatMap userLeaf }
  let cl := clocks.filterMap fun k => match k with | .clock s ph pe => some (s, ph, pe) | _ => none
  let W : World := { D := D', clocks := cl, scripts }
  -- a process that enters its `changed()` loop late is not a circuit: no event-level meaning is given to it
  let usersCovered := users.all fun k => match k with | .userLateComb .. => false | _ => true
  if covered W && usersCovered then
    let s0 : SSt := { env := specEvent D' D'.inits [], ks := cl.map fun _ => 0, tbs := scripts.map fun _ => {} }
    let s := specLoop W deadline fuel s0
    some (s.obs.reverse, s.env)
  else none

end Amaranth.EngineSpec
