import AmaranthVerif.Model.Wiring

/-!
# Spec: the direction algebra of interface signatures

Only the *data types* of `Model/Wiring.lean` are used here (signature trees, paths, leaves, the
member table of a participant); none of its algorithms.

* A leaf port is reached from the root by member names and array indices.  Its direction is the
  declared one, reversed once for every enclosing level that is seen reversed: a level is seen
  reversed when it is a reversed view (`flip`) or its member is declared `In` — `leafAt`.
* Flipping reverses the direction of every leaf and keeps every path — `flipLeaves`.
* Connecting participants: every participant must have the same members; at a port member all
  widths and initial values agree and at most one participant has an output; every input leaf
  that is not a constant follows *the* output leaf with the same path; a constant input leaf
  needs an equal constant output; with two or more participants, "inputs only" is an error.
  Nothing in these statements depends on the order of the participants.
-/

namespace Amaranth.WiringSpec
open Amaranth.Wiring

/-! ## Leaves -/

def dirSeen (reversed : Bool) (f : Flow) : Flow := if reversed then f.flip else f

/-- is the interface nested under a member declared `f` (whose description is itself a reversed
view when `proxy`) seen reversed, when the enclosing level is seen reversed or not -/
def innerReversed (outerReversed : Bool) (f : Flow) (proxy : Bool) : Bool :=
  proxy != (dirSeen outerReversed f == .in)

/-- consume one index per dimension, each within its bound -/
def takeIdx : List Nat → Path → Option Path
  | [], p => some p
  | d :: ds, .idx i :: p => if i < d then takeIdx ds p else none
  | _ :: _, _ => none

mutual
/-- the leaf reached by `path`, if any -/
def sigLeafAt (reversed : Bool) : Sig → Path → Option Leaf
  | .nil, _ => none
  | .cons n m r, p =>
    match p with
    | .name x :: rest => if n = x then memberLeafAt reversed m rest else sigLeafAt reversed r p
    | _ => none
def memberLeafAt (reversed : Bool) : Member → Path → Option Leaf
  | .port f pd d, p => if takeIdx d p = some [] then some ⟨dirSeen reversed f, pd⟩ else none
  | .iface f proxy s d, p =>
    match takeIdx d p with
    | some rest => sigLeafAt (innerReversed reversed f proxy) s rest
    | none => none
end

def leafAt (sv : SigV) (p : Path) : Option Leaf := sigLeafAt sv.1 sv.2 p

/-- flipping reverses every leaf and keeps every path -/
def flipLeaves (ls : List (Path × Leaf)) : List (Path × Leaf) := ls.map fun x => (x.1, x.2.flip)

/-! ## Connecting -/

/-- the members all participants have at the member path `np` -/
def rowAt (parts : List Part) (np : List String) : List RowItem :=
  parts.flatMap fun p => (p.members.filter (fun e => e.path = np)).map fun e => (p, e)

def SameMembers (parts : List Part) : Prop :=
  ∀ a ∈ parts, ∀ b ∈ parts, ∀ e ∈ a.members, ∃ e' ∈ b.members, e'.path = e.path

def KindsAgree (row : List RowItem) : Prop :=
  (∀ x ∈ row, isIfaceE x = true) ∨ (∀ x ∈ row, isIfaceE x = false)
def WidthsAgree (row : List RowItem) : Prop := ∀ x ∈ row, ∀ y ∈ row, widthE x = widthE y
def InitsAgree (row : List RowItem) : Prop := ∀ x ∈ row, ∀ y ∈ row, initE x = initE y
def OneOutput (row : List RowItem) : Prop := (row.filter isOutE).length ≤ 1
/-- array dimensions (of the member and of every enclosing member) agree where a connection is made -/
def DimsAgree (row : List RowItem) : Prop :=
  ∀ i ∈ row, ∀ o ∈ row, isInE i = true → isOutE o = true → i.2.segs = o.2.segs
def ConstsAgree (row : List RowItem) : Prop :=
  ∀ i ∈ row, ∀ o ∈ row, isInE i = true → isOutE o = true →
    ∀ p ∈ expand o.2.segs, i.1.constAt p = none ∨ o.1.constAt p = i.1.constAt p

def allPaths (parts : List Part) : List (List String) := parts.flatMap fun p => p.members.map Entry.path

/-- `(input leaf, output leaf)`: same path, the input is not a constant -/
def IsConn (parts : List Part) (c : Conn) : Prop :=
  ∃ i ∈ parts, ∃ o ∈ parts, ∃ ei ∈ i.members, ∃ eo ∈ o.members,
    ei.path = eo.path ∧ isInE (i, ei) = true ∧ isOutE (o, eo) = true ∧
    ∃ p ∈ expand eo.segs, i.constAt p = none ∧ c = ((i.handle, p), (o.handle, p))

/-- the same, by exhaustive enumeration -/
def conns (parts : List Part) : List Conn :=
  parts.flatMap fun i => parts.flatMap fun o => i.members.flatMap fun ei => o.members.flatMap fun eo =>
    if ei.path = eo.path ∧ isInE (i, ei) = true ∧ isOutE (o, eo) = true then
      (expand eo.segs).filterMap fun p =>
        if i.constAt p = none then some ((i.handle, p), (o.handle, p)) else none
    else []

def AnyIn (parts : List Part) : Prop := ∃ p ∈ parts, ∃ e ∈ p.members, isInE (p, e) = true
def AnyOut (parts : List Part) : Prop := ∃ p ∈ parts, ∃ e ∈ p.members, isOutE (p, e) = true

/-- the causes of refusal, for two or more participants -/
def Refused (parts : List Part) : Prop :=
    ¬ SameMembers parts ∨                                           -- a member is missing somewhere
    (∃ np ∈ allPaths parts, ¬ KindsAgree (rowAt parts np)) ∨        -- port against interface
    (∃ np ∈ allPaths parts, ¬ WidthsAgree (rowAt parts np)) ∨       -- width mismatch
    (∃ np ∈ allPaths parts, ¬ InitsAgree (rowAt parts np)) ∨        -- initial value mismatch
    (∃ np ∈ allPaths parts, ¬ OneOutput (rowAt parts np)) ∨         -- several outputs
    (∃ np ∈ allPaths parts, ¬ ConstsAgree (rowAt parts np)) ∨       -- constant mismatch
    (conns parts = [] ∧ AnyIn parts ∧ ¬ AnyOut parts)               -- inputs only

/-- members with the same path have the same array dimensions (at every level) in all participants -/
def SameDims (a b : Part) : Prop :=
  ∀ ea ∈ a.members, ∀ eb ∈ b.members, ea.path = eb.path → ea.segs = eb.segs
def EqualDims (parts : List Part) : Prop := ∀ a ∈ parts, ∀ b ∈ parts, SameDims a b

def RowOk (row : List RowItem) : Prop :=
  KindsAgree row ∧ WidthsAgree row ∧ InitsAgree row ∧ OneOutput row ∧ DimsAgree row ∧ ConstsAgree row

def Accepts (parts : List Part) : Prop :=
  parts.length ≤ 1 ∨
  (SameMembers parts ∧ (∀ np ∈ allPaths parts, RowOk (rowAt parts np)) ∧
    ¬ (conns parts = [] ∧ AnyIn parts ∧ ¬ AnyOut parts))

instance (parts : List Part) : Decidable (SameMembers parts) := by unfold SameMembers; infer_instance
instance (row : List RowItem) : Decidable (KindsAgree row) := by unfold KindsAgree; infer_instance
instance (row : List RowItem) : Decidable (WidthsAgree row) := by unfold WidthsAgree; infer_instance
instance (row : List RowItem) : Decidable (InitsAgree row) := by unfold InitsAgree; infer_instance
instance (row : List RowItem) : Decidable (OneOutput row) := by unfold OneOutput; infer_instance
instance (row : List RowItem) : Decidable (DimsAgree row) := by unfold DimsAgree; infer_instance
instance (row : List RowItem) : Decidable (ConstsAgree row) := by unfold ConstsAgree; infer_instance
instance (row : List RowItem) : Decidable (RowOk row) := by unfold RowOk; infer_instance
instance (a b : Part) : Decidable (SameDims a b) := by unfold SameDims; infer_instance
instance (parts : List Part) : Decidable (EqualDims parts) := by unfold EqualDims; infer_instance
instance (parts : List Part) : Decidable (AnyIn parts) := by unfold AnyIn; infer_instance
instance (parts : List Part) : Decidable (AnyOut parts) := by unfold AnyOut; infer_instance
instance (parts : List Part) : Decidable (Accepts parts) := by unfold Accepts; infer_instance

/-- executable form: `none` = refused -/
def connect (parts : List Part) : Option (List Conn) :=
  if Accepts parts then some (if parts.length ≤ 1 then [] else conns parts) else none

end Amaranth.WiringSpec
