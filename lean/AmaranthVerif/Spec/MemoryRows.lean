import AmaranthVerif.Model.Memory

/-!
# Spec: a memory is an array of rows

Imported from the model file: only the vocabulary in which a memory and its stimulus are described
(`Cfg`: row shape, depth, ports with their domain / transparency set / granularity; `Inputs`, `Event`:
the values of the port signals and the clock levels) and `ibit`, the bits of a Python integer.

* A **row** is a list of bits (bit 0 first); a **memory** is a list of rows, initially the declared ones.
* At an **active edge** of its clock, a write port **hits** bit `i` of row `a` when its address is `a` and the
  enable bit of the granule containing `i` (`i / granularity`) is set. Bit `i` of row `a` after the edge is
  the data bit of the port that hits it, and is unchanged when no port hits it. Rows that do not exist
  (addresses beyond the depth) are not there to be changed.
* An **asynchronous** read port shows the addressed row.
* A **synchronous** read port that is enabled at an active edge of its clock shows afterwards the addressed
  row *as it was before the edge*, except for the bits hit at this edge by a port of its transparency set,
  which show the data being written; otherwise it keeps what it showed.
* A testbench reading row `i` sees row `i`; a testbench writing bits `[start, stop)` of row `i` replaces them
  (rows that do not exist cannot be named: `rowRead` / `rowWrite` are only used for `i` below the depth).

Two cases are left open here. Reads beyond the depth: the property says they are unspecified. Two ports hitting
the same bit of one row at one edge: the property text does not exclude this, but "the bit becomes the data bit
of the port that hits it" has no single reading when two ports hit it with different data — there is no "the"
new data. `newBit` takes the *first* port of the list there (the simulator takes the last), so that nothing can
be proved about these cases by accident: every theorem relating the model to this file needs the hypothesis
that excludes them (`NoCollision`, `ReadsInRange`), and says so.
-/

namespace Amaranth.MemRows
open Amaranth

abbrev Row := List Bool

/-- the row denoted by a Python integer -/
def toBits (w : Nat) (v : Int) : Row := (List.range w).map (Mem.ibit v)

def toNat : Row → Nat
  | [] => 0
  | b :: bs => (if b then 1 else 0) + 2 * toNat bs

/-- the integer a testbench sees for a row -/
def toInt (signed : Bool) (r : Row) : Int :=
  if signed && r.getLastD false then (toNat r : Int) - 2 ^ r.length else toNat r

/-- a write port at an active edge of its clock -/
structure Write where
  addr : Nat
  gran : Nat
  en : Nat
  data : Row
deriving Repr, DecidableEq

def Write.hits (w : Write) (a i : Nat) : Bool := w.addr == a && w.en.testBit (i / w.gran)

/-- bit `i` of row `a` after the edge, given the bit before it -/
def newBit : List Write → Nat → Nat → Bool → Bool
  | [], _, _, old => old
  | w :: ws, a, i, old => if w.hits a i then w.data.getD i false else newBit ws a i old

def newRow (ws : List Write) (a : Nat) (old : Row) : Row := old.mapIdx fun i b => newBit ws a i b

structure State where
  mem : List Row
  /-- what every synchronous read port shows (entries of asynchronous ports are not used) -/
  rdata : List Row
deriving Repr, DecidableEq

/-- what a read port does at an event -/
inductive RdAct
  | hold
  | capture (addr : Nat) (transparent : List Write)
deriving Repr

structure Edge where
  /-- the write ports whose clock has an active edge at this event -/
  writes : List Write
  /-- per read port: `capture` iff it is synchronous, its clock has an active edge and it is enabled -/
  reads : List RdAct
deriving Repr

def step (s : State) (e : Edge) : State :=
  ⟨s.mem.mapIdx fun a row => newRow e.writes a row,
   s.rdata.mapIdx fun k old =>
     match e.reads.getD k .hold with
     | .hold => old
     | .capture a tw => newRow tw a (s.mem.getD a [])⟩

def asyncRead (s : State) (addr : Nat) : Row := s.mem.getD addr []

def rowRead (s : State) (i : Nat) : Row := s.mem.getD i []

/-- bits `[start, stop)` of row `i` become bits `0 …` of `v` -/
def rowWrite (s : State) (i start stop : Nat) (v : Row) : State :=
  { s with mem := s.mem.mapIdx fun a row =>
      if a = i then row.mapIdx fun j b => if start ≤ j ∧ j < stop then v.getD (j - start) false else b
      else row }

/-! ## Where the property speaks: no two ports hit one bit, reads are in range -/

def hitCount (ws : List Write) (a i : Nat) : Nat := (ws.filter fun w => w.hits a i).length

/-- at most one port of `ws` hits any bit of row `a` -/
def rowSpecified (ws : List Write) (width a : Nat) : Bool :=
  (List.range width).all fun i => hitCount ws a i ≤ 1

def readSpecified (depth width : Nat) : RdAct → Bool
  | .hold => true
  | .capture a tw => decide (a < depth) && rowSpecified tw width a

/-! ## Reading a configuration and a stimulus as an `Edge` -/

/-- the clock of domain `d` changes to its active level -/
def activeEdge (c : Mem.Cfg) (clkBefore : List Bool) (e : Mem.Event) (d : Nat) : Bool :=
  let before := clkBefore.getD d false
  let after := e.clk.getD d false
  after != before && after == (c.doms.getD d default).posedge

def writeOf (c : Mem.Cfg) (k : Nat) (inp : Mem.Inputs) : Write :=
  let i := inp.wr.getD k default
  ⟨i.addr, (c.wrs.getD k default).gran, i.en, toBits c.shape.width i.data⟩

/-- write port `k`, if its clock has an active edge -/
def activeWrite (c : Mem.Cfg) (clkBefore : List Bool) (inp : Mem.Inputs) (e : Mem.Event) (k : Nat) : Option Write :=
  if k < c.wrs.length ∧ activeEdge c clkBefore e (c.wrs.getD k default).dom then some (writeOf c k inp) else none

def edgeOf (c : Mem.Cfg) (clkBefore : List Bool) (inp : Mem.Inputs) (e : Mem.Event) : Edge :=
  ⟨(List.range c.wrs.length).filterMap (activeWrite c clkBefore inp e),
   c.rds.mapIdx fun k r =>
     match r.dom with
     | none => .hold
     | some d =>
       let i := inp.rd.getD k default
       if activeEdge c clkBefore e d ∧ i.en then
         .capture i.addr (r.transp.filterMap (activeWrite c clkBefore inp e))
       else .hold⟩

/-- the rows and register contents denoted by the integers a testbench sees -/
def absState (c : Mem.Cfg) (s : Mem.State) : State :=
  ⟨s.rows.map (toBits c.shape.width), s.rdata.map (toBits c.shape.width)⟩

def initial (c : Mem.Cfg) : State := absState c (Mem.init c)

end Amaranth.MemRows
