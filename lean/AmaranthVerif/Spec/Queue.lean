/-!
# Spec for C12: a bounded first-in first-out queue and what may be seen at its ports

The queue is a list, oldest entry first. In one cycle the oldest entry may leave (`pop`) and one entry
may join at the back (`push`). A hardware queue of capacity `cap` is *accepted* when, cycle after
cycle, its port signals are consistent with this list:

* `r_rdy` only when an entry is available, and then `r_data` is the oldest entry;
* `w_rdy` never when `cap` entries are held;
* `level`, `r_level`, `w_level` equal the number of entries held;
* liveness: `w_rdy` whenever `slack` free slots remain (1 for the plain, 2 for the buffered queue), and
  a non-empty queue is never unreadable for two cycles in a row (the oldest entry is readable within
  two cycles of becoming the oldest).

A transfer happens exactly when strobe and ready are both asserted.
-/

namespace Amaranth.Queue

abbrev Queue := List Nat

/-- one cycle of the abstract queue -/
def step (q : Queue) (push : Option Nat) (pop : Bool) : Queue :=
  (if pop then q.tail else q) ++ push.toList

/-- the port signals in one cycle -/
structure Obs where
  w_en    : Bool
  w_data  : Nat
  r_en    : Bool
  w_rdy   : Bool
  w_level : Nat
  r_rdy   : Bool
  r_data  : Nat
  r_level : Nat
  level   : Nat
deriving DecidableEq, Repr

/-- the entry written in this cycle, if any -/
def Obs.push (o : Obs) : Option Nat := if o.w_rdy && o.w_en then some o.w_data else none
/-- whether an entry is taken in this cycle -/
def Obs.pop (o : Obs) : Bool := o.r_rdy && o.r_en
/-- the entry taken in this cycle, if any (as seen at the port) -/
def Obs.popped (o : Obs) : Option Nat := if o.pop then some o.r_data else none

/-- the monitor: the queue the environment believes in, and for how many cycles in a row (up to now,
excluding the current one) it has been non-empty without being readable -/
structure Mon where
  q     : Queue
  stall : Nat
deriving DecidableEq, Repr

def Mon.init : Mon := ⟨[], 0⟩

def Mon.step (m : Mon) (o : Obs) : Mon :=
  ⟨Queue.step m.q o.push o.pop, if !m.q.isEmpty && !o.r_rdy then m.stall + 1 else 0⟩

/-- the clauses of the property in one cycle, by name -/
def clauses (cap slack : Nat) (m : Mon) (o : Obs) : List (String × Bool) :=
  [ ("r_rdy_only_when_available", !o.r_rdy || !m.q.isEmpty),
    ("r_data_is_oldest",          !o.r_rdy || m.q.head? == some o.r_data),
    ("w_rdy_never_when_full",     !o.w_rdy || decide (m.q.length < cap)),
    ("level_is_count",            o.level == m.q.length),
    ("r_level_is_count",          o.r_level == m.q.length),
    ("w_level_is_count",          o.w_level == m.q.length),
    ("w_rdy_when_free_slots",     !decide (m.q.length + slack ≤ cap) || o.w_rdy),
    ("readable_within_two_cycles", o.r_rdy || m.q.isEmpty || m.stall == 0) ]

def ok (cap slack : Nat) (m : Mon) (o : Obs) : Bool := (clauses cap slack m o).all (·.2)

/-- every cycle of the trace satisfies every clause -/
def accepts (cap slack : Nat) (m : Mon) : List Obs → Bool
  | [] => true
  | o :: os => ok cap slack m o && accepts cap slack (m.step o) os

/-- the monitor after the whole trace -/
def Mon.run (m : Mon) : List Obs → Mon
  | [] => m
  | o :: os => (m.step o).run os

/-- first failing cycle and the names of the clauses that fail there -/
def firstFail (cap slack : Nat) (m : Mon) (t : Nat) : List Obs → Option (Nat × List String)
  | [] => none
  | o :: os =>
    if ok cap slack m o then firstFail cap slack (m.step o) (t + 1) os
    else some (t, ((clauses cap slack m o).filter (fun c => !c.2)).map (·.1))

/-- entries written, in order -/
def pushedOf (tr : List Obs) : List Nat := tr.filterMap Obs.push
/-- entries taken, in order, as seen on `r_data` -/
def poppedOf (tr : List Obs) : List Nat := tr.filterMap Obs.popped

end Amaranth.Queue
