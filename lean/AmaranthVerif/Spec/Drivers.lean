import AmaranthVerif.Model.Drivers

/-!
# Spec: "some signal bit is multiply driven"

Two drives of one bit are legal only when both are logic of the *same module and the same domain*
(several assignments of one always-block). Every other pair — different modules, different domains,
logic together with an instance / memory / buffer / input-port output, two such outputs — is a
conflict. Only the data type `Drive` is shared with the model.
-/

namespace Amaranth.Drivers

/-- drive `d` drives bit `b` of signal `s` -/
def Drive.drives (d : Drive) (s b : Nat) : Prop := d.sig = s ∧ d.lo ≤ b ∧ b < d.hi

/-- may two drivers *not* share a bit? -/
def Clash : Src → Src → Prop
  | .logic m d, .logic m' d' => m ≠ m' ∨ d ≠ d'
  | _, _ => True

/-- the design has a driver conflict -/
def Conflict (ds : List Drive) : Prop :=
  ∃ (i j : Nat) (a b : Drive) (s bit : Nat), i < j ∧ ds[i]? = some a ∧ ds[j]? = some b ∧
    a.drives s bit ∧ b.drives s bit ∧ Clash a.src b.src

/-- … of the kind a single module can see: one module, two domains -/
def SameModuleConflict (ds : List Drive) : Prop :=
  ∃ (i j : Nat) (a b : Drive) (s bit m d d' : Nat), i < j ∧ ds[i]? = some a ∧ ds[j]? = some b ∧
    a.drives s bit ∧ b.drives s bit ∧ a.src = .logic m d ∧ b.src = .logic m d' ∧ d ≠ d'

/-! ### the same, as a brute-force decision procedure (what the driver prints as `spec=`;
equivalent to `Conflict` / `SameModuleConflict` by `C06.conflictB_iff`, `C06.sameModuleB_iff`) -/

def clashB : Src → Src → Bool
  | .logic m d, .logic m' d' => m != m' || d != d'
  | _, _ => true

def shareB (a b : Drive) : Bool :=
  a.sig == b.sig && (List.range a.hi).any fun bit => decide (a.lo ≤ bit) && decide (b.lo ≤ bit) && decide (bit < b.hi)

def conflictB : List Drive → Bool
  | [] => false
  | a :: rest => rest.any (fun b => clashB a.src b.src && shareB a b) || conflictB rest

def twoDomainsB : Src → Src → Bool
  | .logic m d, .logic m' d' => m == m' && d != d'
  | _, _ => false

def sameModuleB : List Drive → Bool
  | [] => false
  | a :: rest => rest.any (fun b => twoDomainsB a.src b.src && shareB a b) || sameModuleB rest

end Amaranth.Drivers
