import AmaranthVerif.Model.Shape

/-!
# Spec: placement of fields, bit slices, round trips, flag algebra

Written at the level of the property's sentences: lists of widths, bits of numbers. No layout
class, no mask/shift arithmetic. Everything executable here is evaluated by the driver next to the
model (`spec=` values of the line protocol).
-/

namespace Amaranth.Data.Spec

/-! ## Placement -/

/-- *struct*: fields are contiguous in declaration order — field `i` starts where the fields before
it end -/
def structOffsets (ws : List Nat) : List Nat := (List.range ws.length).map fun i => (ws.take i).sum

/-- *struct*: the size is the sum of the sizes of the members -/
def structSize (ws : List Nat) : Nat := ws.sum

/-- *union*: every field starts at bit 0 -/
def unionOffsets (ws : List Nat) : List Nat := ws.map fun _ => 0

/-- *union*: the size is the size of the largest member (0 without members) -/
def IsLargest (ws : List Nat) (m : Nat) : Prop := (∀ w ∈ ws, w ≤ m) ∧ (m ∈ ws ∨ (ws = [] ∧ m = 0))

/-- executable form of `IsLargest` for the driver -/
def unionSize (ws : List Nat) : Nat := ws.foldr max 0

/-- *array*: element `i` starts at `i` times the element width -/
def arrayOffsets (w n : Nat) : List Nat := (List.range n).map fun i => i * w

/-- *array*: the size is the element width times the length -/
def arraySize (w n : Nat) : Nat := n * w

/-- two fields do not share a bit -/
def Disjoint (o₁ w₁ o₂ w₂ : Nat) : Prop := o₁ + w₁ ≤ o₂ ∨ o₂ + w₂ ≤ o₁

instance (o₁ w₁ o₂ w₂ : Nat) : Decidable (Disjoint o₁ w₁ o₂ w₂) := by unfold Disjoint; exact inferInstance

/-! ## Bits -/

/-- the number whose bit `i` is `f i` for `i < n` and 0 above -/
def ofBits : Nat → (Nat → Bool) → Nat
  | 0, _ => 0
  | n + 1, f => ofBits n f + (if f n then 2 ^ n else 0)

/-- the bit slice `[off, off + w)` of `raw`: bit `i` of the result is bit `off + i` of `raw` -/
def sliceBits (raw off w : Nat) : Nat := ofBits w fun i => raw.testBit (off + i)

/-- `w` bits reinterpreted in a shape: unsigned, the number itself; signed, two's complement (the
top bit weighs `-2^(w-1)`) -/
def reinterpret (s : Shape) (x : Nat) : Int :=
  if s.signed then
    (ofBits (s.width - 1) x.testBit : Int) - (if x.testBit (s.width - 1) then 2 ^ (s.width - 1) else 0)
  else (ofBits s.width x.testBit : Int)

/-- the low `w` bits of an integer: the representative of `v` modulo `2^w` in `[0, 2^w)` -/
def lowBits (w : Nat) (v : Int) : Nat := (v % 2 ^ w).toNat

/-- a field initialiser / assignment: offset, width, value -/
abbrev Write := Nat × Nat × Int

def Write.covers (e : Write) (i : Nat) : Bool := decide (e.1 ≤ i) && decide (i < e.1 + e.2.1)

/-- bit `i` of an all-zero value after the writes were made in order: the *last* write covering
the bit decides -/
def writtenBit : List Write → Nat → Bool
  | [], _ => false
  | e :: rest, i =>
    if rest.any (fun e' => e'.covers i) then writtenBit rest i
    else if e.covers i then (lowBits e.2.1 e.2.2).testBit (i - e.1)
    else false

/-- the constant built from field values: a view over zeros with every field assigned in order -/
def constBits (size : Nat) (ws : List Write) : Nat := ofBits size (writtenBit ws)

/-- assigning `v` to the field `[off, off + w)` of a `size`-bit value: the field's bits are the
low bits of `v`, every other bit is unchanged -/
def assigned (size raw off w : Nat) (v : Int) : Nat :=
  ofBits size fun i => if off ≤ i ∧ i < off + w then (lowBits w v).testBit (i - off) else raw.testBit i

/-! ## Round trips (sentences) -/

/-- `as_bits(from_bits(raw)) = raw` for every bit pattern of the layout -/
def BitsRoundTrip {C : Type} (size : Nat) (fromBits : Int → Option C) (asBits : C → Nat) : Prop :=
  ∀ raw : Nat, raw < 2 ^ size → (fromBits raw).map asBits = some raw

/-- `Const.cast(s.const(s.from_bits(raw))).value == raw` for every valid `raw` (the law documented
on `ShapeCastable.from_bits`) -/
def ConstFromBitsLaw {H : Type} (valid : Int → Prop) (fromBits : Int → Option H) (const : H → Option Int) : Prop :=
  ∀ raw : Int, valid raw → (fromBits raw).bind const = some raw

/-! ## Flags: the mask algebra of Python's `enum.Flag`

Values are sets of bits among the `n` bits of the shape; `&`, `|`, `^` are intersection, union, symmetric difference; `~x` is the
complement *within the single-bit members* (boundaries `STRICT`, `CONFORM`) or within
`_all_bits_ = 2**flag_mask.bit_length() - 1` (`KEEP`, and `EJECT` when the class has no holes; with
holes `EJECT` returns the plain integer `~x`). -/

def flagAnd (n a b : Nat) : Nat := ofBits n fun i => a.testBit i && b.testBit i
def flagOr (n a b : Nat) : Nat := ofBits n fun i => a.testBit i || b.testBit i
def flagXor (n a b : Nat) : Nat := ofBits n fun i => a.testBit i != b.testBit i

/-- `~x` within a universe of bits -/
def complementIn (univ nbits a : Nat) : Nat := ofBits nbits fun i => univ.testBit i && !a.testBit i

end Amaranth.Data.Spec
