/-!
# Spec: what clock-domain-crossing primitives promise (C17)

The vocabulary is a *schedule*: a finite list of events seen by an observer who watches the two
clocks and the input wire.  The observer keeps a record (what value the input had at each
output-clock edge, how many input pulses fell between consecutive output-clock edges, …) and
every contract sentence is a function of that record:

* delay line: the output shows the `stages`-th most recent sample of the input, or the initial
  value while fewer than `stages` output edges have occurred;
* asynchronous assert / synchronous release: the output is asserted iff the input is asserted or
  fewer than `stages` output edges have occurred since it was last asserted;
* pulse transfer: the output is high during one output cycle — the one that starts at the
  `stages`-th output edge after an input pulse — for every input pulse, provided an output edge
  falls between consecutive input pulses.

No register, flop chain or toggle occurs here.
-/

namespace Amaranth.Cdc

/-- One event of a schedule.  `both` is an input-clock edge and an output-clock edge at the same
instant; `set v` drives the input wire to `v` (it stays there until the next `set`). -/
inductive Ev
  | iedge
  | oedge
  | both
  | set (v : Nat)
deriving Repr, DecidableEq, Inhabited

/-- the event contains an output-clock edge -/
def Ev.isOut : Ev → Bool
  | .oedge | .both => true
  | _ => false

/-- the event contains an input-clock edge -/
def Ev.isIn : Ev → Bool
  | .iedge | .both => true
  | _ => false

/-- number of output-clock edges in a schedule -/
def outEdges (evs : List Ev) : Nat := evs.countP Ev.isOut

/-- logic level of a one-bit wire driven with `v` -/
def level (v : Nat) : Bool := v % 2 == 1

/-! ## Delay line (FFSynchronizer) -/

/-- Record of an observer of a `w`-bit input wire and the output clock. -/
structure FFObs where
  /-- current value of the input wire -/
  inp : Nat
  /-- value of the input wire at every output-clock edge so far, most recent first -/
  samples : List Nat
deriving Repr, DecidableEq

def FFObs.step (w : Nat) (r : FFObs) : Ev → FFObs
  | .set v => { r with inp := v % 2 ^ w }
  | .oedge => { r with samples := r.inp :: r.samples }
  | .both => { r with samples := r.inp :: r.samples }
  | .iedge => r

/-- an observer who has seen nothing yet; `i0` is the value the input wire starts with -/
def FFObs.start (w i0 : Nat) : FFObs := ⟨i0 % 2 ^ w, []⟩

def ffObserve (w i0 : Nat) (evs : List Ev) : FFObs := evs.foldl (FFObs.step w) (FFObs.start w i0)

/-- the `w`-bit pattern of an initial value given as an arbitrary integer -/
def initValue (w : Nat) (init : Int) : Nat := (init % 2 ^ w).toNat

/-- **Delay-line contract.**  After `k` output edges the output is the input sampled at output edge
`k - stages + 1` (counting from 1) — the `stages`-th most recent sample — and the initial value
while `k < stages`. -/
def FFObs.out (stages w : Nat) (init : Int) (r : FFObs) : Nat :=
  r.samples.getD (stages - 1) (initValue w init)

def ffOut (stages w : Nat) (init : Int) (i0 : Nat) (evs : List Ev) : Nat :=
  (ffObserve w i0 evs).out stages w init

/-- no event of the schedule drives the input wire -/
def noSet (evs : List Ev) : Bool := evs.all fun e => match e with | .set _ => false | _ => true

/-! ## Asynchronous assert, synchronous release (AsyncFFSynchronizer, ResetSynchronizer) -/

/-- the input is at its asserting level: high for `pos = true`, low for `pos = false` -/
def asserted (pos : Bool) (inp : Bool) : Bool := inp == pos

structure AsyncObs where
  /-- current level of the input wire -/
  inp : Bool
  /-- output-clock edges since the input was last asserted (power-on counts as asserted) -/
  quiet : Nat
deriving Repr, DecidableEq

def AsyncObs.step (pos : Bool) (r : AsyncObs) : Ev → AsyncObs
  | .set v => ⟨level v, if asserted pos (level v) then 0 else r.quiet⟩
  | .oedge => ⟨r.inp, if asserted pos r.inp then 0 else r.quiet + 1⟩
  | .both => ⟨r.inp, if asserted pos r.inp then 0 else r.quiet + 1⟩
  | .iedge => r

def AsyncObs.start (i0 : Nat) : AsyncObs := ⟨level i0, 0⟩

def asyncObserve (pos : Bool) (i0 : Nat) (evs : List Ev) : AsyncObs :=
  evs.foldl (AsyncObs.step pos) (AsyncObs.start i0)

/-- **Assert/release contract.**  Asserted at once while the input is asserted; released when
`stages` output edges have passed with the input released. -/
def AsyncObs.out (stages : Nat) (pos : Bool) (r : AsyncObs) : Bool :=
  asserted pos r.inp || decide (r.quiet < stages)

def asyncOut (stages : Nat) (pos : Bool) (i0 : Nat) (evs : List Ev) : Bool :=
  (asyncObserve pos i0 evs).out stages pos

/-- level of the input wire after a schedule -/
def asyncInput (pos : Bool) (i0 : Nat) (evs : List Ev) : Bool := (asyncObserve pos i0 evs).inp

/-- the event does not drive the input to its asserting level -/
def Ev.noAssert (pos : Bool) : Ev → Bool
  | .set v => !asserted pos (level v)
  | _ => true

/-! ## Pulse transfer (PulseSynchronizer) -/

/-- An *input pulse* is an input-clock edge at which the input wire is high. -/
structure PulseObs where
  /-- current level of the input wire (starts low) -/
  inp : Bool
  /-- input pulses since the last output edge; a pulse on a coincident edge counts for the *next*
  output edge -/
  pend : Nat
  /-- for every output edge so far, most recent first: the number of input pulses that fell after
  the previous output edge (or coincident with it) and strictly before this one -/
  wins : List Nat
  /-- input pulses so far -/
  pulses : Nat
  /-- output edges strictly after the most recent input pulse (all of them if there was none) -/
  idle : Nat
  /-- every input pulse so far arrived when an output edge had fallen strictly after the previous
  input pulse (an output edge coincident with the arriving pulse counts) -/
  spaced : Bool
deriving Repr, DecidableEq

def PulseObs.start : PulseObs := ⟨false, 0, [], 0, 0, true⟩

def PulseObs.step (r : PulseObs) : Ev → PulseObs
  | .set v => { r with inp := level v }
  | .iedge =>
    if r.inp then
      { r with pend := r.pend + 1, pulses := r.pulses + 1, idle := 0,
               spaced := r.spaced && r.pend == 0 }
    else r
  | .oedge => { r with pend := 0, wins := r.pend :: r.wins, idle := r.idle + 1 }
  | .both =>
    if r.inp then
      { r with pend := 1, wins := r.pend :: r.wins, pulses := r.pulses + 1, idle := 0 }
    else
      { r with pend := 0, wins := r.pend :: r.wins, idle := r.idle + 1 }

def pulseObserve (evs : List Ev) : PulseObs := evs.foldl PulseObs.step PulseObs.start

/-- **Pulse contract, per cycle.**  The output is high exactly when the `stages`-th most recent
output edge captured an input pulse. -/
def PulseObs.out (stages : Nat) (r : PulseObs) : Bool := r.wins.getD (stages - 1) 0 != 0

def pulseOut (stages : Nat) (evs : List Ev) : Bool := (pulseObserve evs).out stages

/-- hypothesis of the pulse contract: an output edge falls between consecutive input pulses -/
def Spaced (evs : List Ev) : Prop := (pulseObserve evs).spaced = true

instance (evs : List Ev) : Decidable (Spaced evs) := by unfold Spaced; infer_instance

/-- number of input pulses in a schedule -/
def inputPulses (evs : List Ev) : Nat := (pulseObserve evs).pulses

/-- output edges that fell strictly after the last input pulse of the schedule -/
def idleEdges (evs : List Ev) : Nat := (pulseObserve evs).idle

/-- A *behaviour* maps every schedule to the output level shown after it. -/
abbrev Behaviour := List Ev → Bool

/-- number of output cycles during which the output of `out` is high in the course of `evs` (after
the schedule `pre` has already happened): the output edges after which it shows high -/
def highCyclesFrom (out : Behaviour) (pre : List Ev) : List Ev → Nat
  | [] => 0
  | e :: es =>
    (if e.isOut && out (pre ++ [e]) then 1 else 0) + highCyclesFrom out (pre ++ [e]) es

def highCycles (out : Behaviour) (evs : List Ev) : Nat := highCyclesFrom out [] evs

/-! ## Constructors -/

/-- what a constructor call does -/
inductive Ctor
  | ok
  | typeError
  | valueError
deriving Repr, DecidableEq

/-- stage counts are accepted from 2 upwards; a non-integer (`none`) or non-positive count is a
type error, a count of 1 is a value error -/
def stagesCtor : Option Int → Ctor
  | none => .typeError
  | some s => if s < 1 then .typeError else if s < 2 then .valueError else .ok

/-- the asynchronous synchroniser additionally wants one-bit input and output and a known edge -/
def asyncCtor (stages : Option Int) (wi wo : Nat) (edgeOk : Bool) : Ctor :=
  match stagesCtor stages with
  | .ok => if wi = 1 ∧ wo = 1 ∧ edgeOk then .ok else .valueError
  | r => r

/-! ## Values on wires of different shapes

The delay-line contract speaks of the *value* of the input.  When input and output wires differ in
width or signedness, "the output shows the input's value" is read as every assignment is read: the
integer the input pattern stands for, reduced to the output's width. -/

/-- the integer a `w`-bit pattern `p` stands for on an unsigned wire, or (two's complement) on a
signed one -/
def valueOf (sg : Bool) (w p : Nat) : Int :=
  if sg && decide (2 ^ w ≤ 2 * p) then (p : Int) - 2 ^ w else p

/-- the pattern a `wo`-bit wire shows when it is assigned the integer `v` -/
def patternOf (wo : Nat) (v : Int) : Nat := (v % 2 ^ wo).toNat

/-- what a `wo`-bit output shows when the delay line hands it the `w`-bit input pattern `p` -/
def delivered (sg : Bool) (w wo p : Nat) : Nat := patternOf wo (valueOf sg w p)

/-! ## Delay line in an output domain whose reset is driven

`reset_less=True` (the default): the line "is unaffected by `o_domain` reset".  `reset_less=False`:
the line is reset by the `o_domain` reset — it shows the initial value again until `stages` output
edges have passed with the reset released.  A synchronous reset acts at output edges, an
asynchronous one (`ClockDomain(async_reset=True)`) also at the moment it rises. -/

/-- an event of a schedule in which the output domain's reset wire is driven as well -/
inductive REv
  | ev (e : Ev)
  /-- drive the reset wire of the output domain to the level of `v` -/
  | rst (v : Nat)
deriving Repr, DecidableEq, Inhabited

/-- the schedule as seen by somebody who cannot see the reset wire -/
def eraseRst : List REv → List Ev
  | [] => []
  | .ev e :: es => e :: eraseRst es
  | .rst _ :: es => eraseRst es

structure FFRObs where
  /-- current value of the input wire -/
  inp : Nat
  /-- current level of the reset wire -/
  rst : Bool
  /-- value of the input wire at every output-clock edge since the line was last held in reset,
  most recent first -/
  samples : List Nat
deriving Repr, DecidableEq

/-- `resettable`: the line takes part in the domain's reset; `asyncDom`: that reset acts as soon as
it rises and not only at output edges -/
def FFRObs.step (w : Nat) (resettable asyncDom : Bool) (r : FFRObs) : REv → FFRObs
  | .ev (.set v) => { r with inp := v % 2 ^ w }
  | .ev .iedge => r
  | .ev .oedge | .ev .both =>
    if resettable && r.rst then { r with samples := [] }
    else { r with samples := r.inp :: r.samples }
  | .rst v =>
    if resettable && asyncDom && !r.rst && level v then { r with rst := level v, samples := [] }
    else { r with rst := level v }

def FFRObs.start (w i0 : Nat) : FFRObs := ⟨i0 % 2 ^ w, false, []⟩

def ffrObserve (w : Nat) (resettable asyncDom : Bool) (i0 : Nat) (evs : List REv) : FFRObs :=
  evs.foldl (FFRObs.step w resettable asyncDom) (FFRObs.start w i0)

/-- the `w`-bit pattern the line hands to the output: the `stages`-th most recent sample since the
last reset, or the initial value -/
def FFRObs.out (stages w : Nat) (init : Int) (r : FFRObs) : Nat :=
  r.samples.getD (stages - 1) (initValue w init)

/-- **Delay-line contract, any shapes, reset driven.**  The output (width `wo`) shows the value of
the input (width `w`, signed iff `sg`) sampled `stages` output edges ago, or the value of `init`. -/
def ffrOut (stages w : Nat) (sg : Bool) (wo : Nat) (init : Int) (resettable asyncDom : Bool)
    (i0 : Nat) (evs : List REv) : Nat :=
  delivered sg w wo ((ffrObserve w resettable asyncDom i0 evs).out stages w init)

/-! ## Elaboration: which primitives accept an output domain clocked on the falling edge -/

inductive Prim
  | ffSync
  | asyncFFSync
  | resetSync
  | pulseSync
deriving Repr, DecidableEq

inductive Elab
  | ok
  | domainRequirementFailed
deriving Repr, DecidableEq

/-- `AsyncFFSynchronizer` and `ResetSynchronizer` release their output at rising edges of the
output domain's clock, whatever the asynchronous edge; a domain whose active edge is the falling
one is refused.  `FFSynchronizer` and `PulseSynchronizer` are ordinary logic of the output domain
and accept either edge. -/
def elabContract (p : Prim) (negDomain : Bool) : Elab :=
  match p with
  | .asyncFFSync | .resetSync => if negDomain then .domainRequirementFailed else .ok
  | .ffSync | .pulseSync => .ok

end Amaranth.Cdc
