import AmaranthVerif.Model.Shape
import AmaranthVerif.Model.Expr
import AmaranthVerif.Spec.Denote
import AmaranthVerif.Properties.C01
