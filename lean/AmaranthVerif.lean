import AmaranthVerif.Model.Shape
import AmaranthVerif.Model.Expr
import AmaranthVerif.Spec.Denote
import AmaranthVerif.Properties.C01
import AmaranthVerif.Properties.C05
import AmaranthVerif.Properties.C17
import AmaranthVerif.Properties.C10
import AmaranthVerif.Properties.C12
