/-! Spike: the proof pattern for "the result shape always contains the exact result" (C01).
    Sign case split -> power monotonicity facts -> omega.  Two of the four sign cases shown. -/
structure Shape where
  width : Nat
  signed : Bool

namespace Shape
def wf (s : Shape) : Prop := s.signed = true → 0 < s.width
def lo (s : Shape) : Int := if s.signed then -(2 ^ (s.width - 1) : Int) else 0
def hi (s : Shape) : Int := if s.signed then (2 ^ (s.width - 1) : Int) else 2 ^ s.width
def contains (s : Shape) (v : Int) : Prop := s.lo ≤ v ∧ v < s.hi
def unify (a b : Shape) : Shape :=
  if a.signed || b.signed then
    ⟨max (if a.signed then a.width else a.width + 1) (if b.signed then b.width else b.width + 1), true⟩
  else ⟨max a.width b.width, false⟩
def add (a b : Shape) : Shape := let o := unify a b; ⟨o.width + 1, o.signed⟩
end Shape

theorem pow_mono2 {a b : Nat} (h : a ≤ b) : (2:Int) ^ a ≤ 2 ^ b := by
  have : (2:Nat) ^ a ≤ 2 ^ b := Nat.pow_le_pow_right (by decide) h
  exact_mod_cast this
theorem pow_succ2 (a : Nat) : (2:Int) ^ (a+1) = 2 * 2 ^ a := by
  rw [Int.pow_succ]; omega

theorem contains_add_uu (aw bw : Nat) (x y : Int)
    (hx : (Shape.mk aw false).contains x) (hy : (Shape.mk bw false).contains y) :
    (Shape.add ⟨aw, false⟩ ⟨bw, false⟩).contains (x + y) := by
  unfold Shape.contains Shape.lo Shape.hi Shape.add Shape.unify at *
  simp at *
  have h1 := pow_mono2 (Nat.le_max_left aw bw)
  have h2 := pow_mono2 (Nat.le_max_right aw bw)
  have h3 := pow_succ2 (max aw bw)
  omega
