/-! Spike: DFS cycle detection, soundness + completeness via finishing-order (topological) invariant. -/

structure G where
  succ : Nat → List Nat

inductive R where
  | ok (checked : List Nat)
  | cycle
  | fuel
deriving Repr

def foldVisit (f : List Nat → Nat → R) : List Nat → List Nat → R
  | checked, [] => R.ok checked
  | checked, s :: ss =>
    match f checked s with
    | R.ok c => foldVisit f c ss
    | r => r

def visit (g : G) : Nat → List Nat → List Nat → Nat → R
  | 0, _, _, _ => R.fuel
  | fuel+1, busy, checked, v =>
    if v ∈ checked then R.ok checked
    else if v ∈ busy then R.cycle
    else
      match foldVisit (fun c s => visit g fuel (v :: busy) c s) checked (g.succ v) with
      | R.ok c => R.ok (v :: c)
      | r => r

def visitAll (g : G) (fuel : Nat) (busy : List Nat) (checked : List Nat) (vs : List Nat) : R :=
  foldVisit (fun c s => visit g fuel busy c s) checked vs

theorem visit_succ (g : G) (fuel : Nat) (busy checked : List Nat) (v : Nat) :
    visit g (fuel+1) busy checked v =
      if v ∈ checked then R.ok checked
      else if v ∈ busy then R.cycle
      else match visitAll g fuel (v :: busy) checked (g.succ v) with
        | R.ok c => R.ok (v :: c)
        | r => r := by
  simp [visit, visitAll]

theorem visitAll_nil (g : G) (fuel busy checked) : visitAll g fuel busy checked [] = R.ok checked := rfl

theorem visitAll_cons (g : G) (fuel busy checked s ss) :
    visitAll g fuel busy checked (s :: ss) =
      match visit g fuel busy checked s with
      | R.ok c => visitAll g fuel busy c ss
      | r => r := by
  simp only [visitAll, foldVisit]

/-- Finishing order: newest first; each node's successors were finished earlier. -/
inductive Topo (g : G) : List Nat → Prop
  | nil : Topo g []
  | cons {v c} : (∀ s ∈ g.succ v, s ∈ c) → v ∉ c → Topo g c → Topo g (v :: c)

/-- Main invariant of a successful visit. -/
structure Post (g : G) (busy checked c' : List Nat) : Prop where
  topo : Topo g c'
  mono : ∀ x ∈ checked, x ∈ c'
  fresh : ∀ x ∈ c', x ∈ checked ∨ x ∉ busy

theorem visit_post (g : G) : ∀ (fuel : Nat) (busy checked : List Nat) (v : Nat) (c' : List Nat),
    Topo g checked → visit g fuel busy checked v = .ok c' → Post g busy checked c' ∧ v ∈ c' := by
  intro fuel
  induction fuel with
  | zero => intro busy checked v c' _ h; simp [visit] at h
  | succ fuel ih =>
    -- auxiliary statement for visitAll at this fuel
    have all : ∀ (vs : List Nat) (busy checked c' : List Nat), Topo g checked →
        visitAll g fuel busy checked vs = .ok c' →
        Post g busy checked c' ∧ ∀ s ∈ vs, s ∈ c' := by
      intro vs
      induction vs with
      | nil =>
        intro busy checked c' ht h
        simp [visitAll_nil] at h; subst h
        exact ⟨⟨ht, fun x hx => hx, fun x hx => Or.inl hx⟩, by simp⟩
      | cons s ss ihs =>
        intro busy checked c' ht h
        rw [visitAll_cons] at h
        cases hv : visit g fuel busy checked s with
        | ok c1 =>
          rw [hv] at h
          obtain ⟨p1, hs⟩ := ih busy checked s c1 ht hv
          obtain ⟨p2, hss⟩ := ihs busy c1 c' p1.topo h
          refine ⟨⟨p2.topo, fun x hx => p2.mono x (p1.mono x hx), ?_⟩, ?_⟩
          · intro x hx
            rcases p2.fresh x hx with h1 | h1
            · exact p1.fresh x h1
            · exact Or.inr h1
          · intro t ht'
            rcases List.mem_cons.mp ht' with rfl | h2
            · exact p2.mono _ hs
            · exact hss t h2
        | cycle => rw [hv] at h; simp at h
        | fuel => rw [hv] at h; simp at h
    intro busy checked v c' ht h
    rw [visit_succ] at h
    by_cases hc : v ∈ checked
    · simp [hc] at h; subst h
      exact ⟨⟨ht, fun x hx => hx, fun x hx => Or.inl hx⟩, hc⟩
    · by_cases hb : v ∈ busy
      · simp [hc, hb] at h
      · simp only [hc, hb, if_false] at h
        cases hva : visitAll g fuel (v :: busy) checked (g.succ v) with
        | ok c1 =>
          rw [hva] at h; simp at h; subst h
          obtain ⟨p1, hs⟩ := all (g.succ v) (v :: busy) checked c1 ht hva
          have hv1 : v ∉ c1 := by
            intro hin
            rcases p1.fresh v hin with h1 | h1
            · exact hc h1
            · exact h1 (List.mem_cons_self)
          refine ⟨⟨Topo.cons hs hv1 p1.topo, fun x hx => List.mem_cons_of_mem _ (p1.mono x hx), ?_⟩, List.mem_cons_self⟩
          intro x hx
          rcases List.mem_cons.mp hx with rfl | h2
          · exact Or.inr hb
          · rcases p1.fresh x h2 with h3 | h3
            · exact Or.inl h3
            · exact Or.inr (fun hxb => h3 (List.mem_cons_of_mem _ hxb))
        | cycle => rw [hva] at h; simp at h
        | fuel => rw [hva] at h; simp at h

/-- reachability in ≥ 1 steps -/
inductive Reach (g : G) : Nat → Nat → Prop
  | step {a b} : b ∈ g.succ a → Reach g a b
  | trans {a b c} : b ∈ g.succ a → Reach g b c → Reach g a c

theorem topo_closed (g : G) {c : List Nat} (ht : Topo g c) : ∀ a ∈ c, ∀ b, Reach g a b → b ∈ c := by
  induction ht with
  | nil => intro a ha; simp at ha
  | @cons v c hs hv _ ih =>
    have key : ∀ a b, Reach g a b → (a ∈ c ∨ a = v) → b ∈ c := by
      intro a b hr
      induction hr with
      | @step a b hab =>
        intro ha
        rcases ha with ha | rfl
        · exact ih a ha b (Reach.step hab)
        · exact hs b hab
      | @trans a b d hab _ ih2 =>
        intro ha
        have hb : b ∈ c := by
          rcases ha with ha | rfl
          · exact ih a ha b (Reach.step hab)
          · exact hs b hab
        exact ih2 (Or.inl hb)
    intro a ha b hr
    rcases List.mem_cons.mp ha with rfl | h2
    · exact List.mem_cons_of_mem _ (key _ b hr (Or.inr rfl))
    · exact List.mem_cons_of_mem _ (key a b hr (Or.inl h2))

theorem topo_acyclic (g : G) {c : List Nat} (ht : Topo g c) : ∀ a ∈ c, ¬ Reach g a a := by
  induction ht with
  | nil => intro a ha; simp at ha
  | @cons v c hs hv ht' ih =>
    intro a ha hr
    rcases List.mem_cons.mp ha with rfl | h2
    · -- a = v: first step goes into c, which is closed and does not contain v
      cases hr with
      | step h => exact hv (hs _ h)
      | trans h h' => exact hv (topo_closed g ht' _ (hs _ h) _ h')
    · exact ih a h2 hr
