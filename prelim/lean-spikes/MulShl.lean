/-! Spike: non-linear range lemmas for C01 (`*`, `<<`) in core Lean. -/

theorem natAbs_le_of_bounds (x : Int) (m : Nat) (h1 : -(m : Int) ≤ x) (h2 : x ≤ m) : x.natAbs ≤ m := by
  omega

theorem mul_bounds (x y : Int) (m n : Nat) (hx1 : -(m : Int) ≤ x) (hx2 : x ≤ m)
    (hy1 : -(n : Int) ≤ y) (hy2 : y ≤ n) : -((m * n : Nat) : Int) ≤ x * y ∧ x * y ≤ ((m * n : Nat) : Int) := by
  have hx := natAbs_le_of_bounds x m hx1 hx2
  have hy := natAbs_le_of_bounds y n hy1 hy2
  have h : (x * y).natAbs ≤ m * n := by
    rw [Int.natAbs_mul]; exact Nat.mul_le_mul hx hy
  omega

/-- signed × signed: the product of an a-bit and a b-bit signed value fits a signed (a+b)-bit value -/
theorem mul_ss (a b : Nat) (ha : 0 < a) (hb : 0 < b) (x y : Int)
    (hx : -(2 ^ (a - 1) : Int) ≤ x ∧ x < 2 ^ (a - 1)) (hy : -(2 ^ (b - 1) : Int) ≤ y ∧ y < 2 ^ (b - 1)) :
    -(2 ^ (a + b - 1) : Int) ≤ x * y ∧ x * y < 2 ^ (a + b - 1) := by
  have hm := mul_bounds x y (2 ^ (a - 1)) (2 ^ (b - 1))
    (by push_cast; exact hx.1) (by push_cast; omega) (by push_cast; exact hy.1) (by push_cast; omega)
  have e : (2 ^ (a - 1) * 2 ^ (b - 1) : Nat) = 2 ^ (a + b - 2) := by
    rw [← Nat.pow_add]; congr 1; omega
  rw [e] at hm
  have e2 : (2 : Int) ^ (a + b - 1) = 2 * 2 ^ (a + b - 2) := by
    have : a + b - 1 = (a + b - 2) + 1 := by omega
    rw [this, Int.pow_succ]; omega
  have hp : (0 : Int) < 2 ^ (a + b - 2) := by
    have : (0 : Nat) < 2 ^ (a + b - 2) := Nat.two_pow_pos _
    exact_mod_cast this
  push_cast at hm
  omega

/-- left shift by an amount below 2^k of an unsigned a-bit value fits unsigned a + 2^k - 1 bits -/
theorem shl_uu (a k : Nat) (x : Int) (s : Nat) (hx : 0 ≤ x ∧ x < 2 ^ a) (hs : s < 2 ^ k) :
    0 ≤ x * 2 ^ s ∧ x * 2 ^ s < 2 ^ (a + 2 ^ k - 1) := by
  have hp : (0 : Int) < 2 ^ s := by
    have : (0 : Nat) < 2 ^ s := Nat.two_pow_pos _
    exact_mod_cast this
  constructor
  · exact Int.mul_nonneg hx.1 (Int.le_of_lt hp)
  · have h1 : x * 2 ^ s < 2 ^ a * 2 ^ s := Int.mul_lt_mul_of_pos_right hx.2 hp
    have h2 : (2 : Int) ^ a * 2 ^ s = 2 ^ (a + s) := by rw [Int.pow_add]
    have h3 : (2 : Int) ^ (a + s) ≤ 2 ^ (a + 2 ^ k - 1) := by
      have : (2 : Nat) ^ (a + s) ≤ 2 ^ (a + 2 ^ k - 1) := Nat.pow_le_pow_right (by decide) (by omega)
      exact_mod_cast this
    omega
