/-! Spike: Gray code facts needed for AsyncFIFO, for arbitrary width, on Nat with testBit. -/

def gray (x : Nat) : Nat := x ^^^ (x >>> 1)

theorem gray_testBit (x i : Nat) : (gray x).testBit i = (x.testBit i != x.testBit (i+1)) := by
  simp [gray, Nat.testBit_xor, Nat.testBit_shiftRight, Nat.add_comm]

theorem gray_xor (x y : Nat) : gray (x ^^^ y) = gray x ^^^ gray y := by
  apply Nat.eq_of_testBit_eq
  intro i
  simp only [gray_testBit, Nat.testBit_xor]
  cases x.testBit i <;> cases y.testBit i <;> cases x.testBit (i+1) <;> cases y.testBit (i+1) <;> rfl

/-- gray is injective on numbers below 2^n -/
theorem gray_zero_of_lt (n : Nat) (x : Nat) (hx : x < 2 ^ n) (h : gray x = 0) : x = 0 := by
  apply Nat.eq_of_testBit_eq
  intro i
  simp only [Nat.zero_testBit]
  -- downward induction: bits ≥ n are false; bit i = bit (i+1) for all i
  have hb : ∀ k, x.testBit (n + k) = false := by
    intro k
    apply Nat.testBit_lt_two_pow
    calc x < 2 ^ n := hx
      _ ≤ 2 ^ (n + k) := Nat.pow_le_pow_right (by decide) (Nat.le_add_right n k)
  have heq : ∀ i, x.testBit i = x.testBit (i+1) := by
    intro i
    have := gray_testBit x i
    rw [h] at this
    simp only [Nat.zero_testBit] at this
    revert this
    cases x.testBit i <;> cases x.testBit (i+1) <;> simp
  -- so bit i = bit (i + m) for all m, take m with i + m ≥ n
  have hshift : ∀ m, x.testBit i = x.testBit (i + m) := by
    intro m
    induction m with
    | zero => rfl
    | succ m ih => rw [ih, heq (i + m)]; rfl
  rw [hshift n, Nat.add_comm]
  exact hb i

theorem gray_inj (n x y : Nat) (hx : x < 2 ^ n) (hy : y < 2 ^ n) (h : gray x = gray y) : x = y := by
  have hxy : x ^^^ y < 2 ^ n := Nat.xor_lt_two_pow hx hy
  have : gray (x ^^^ y) = 0 := by rw [gray_xor, h, Nat.xor_self]
  have := gray_zero_of_lt n _ hxy this
  have h2 : (x ^^^ y) ^^^ y = y := by rw [this]; simp
  rw [Nat.xor_assoc, Nat.xor_self, Nat.xor_zero] at h2
  exact h2
