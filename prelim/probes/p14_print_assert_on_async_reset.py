import warnings; warnings.simplefilter("ignore")
from amaranth.hdl import *
from amaranth.sim import Simulator
m = Module()
m.domains.sync = cd = ClockDomain(async_reset=True)
x = Signal(4, init=3)
m.d.sync += Print(Format("sync print x={:+05d} hex={:#x}", x.as_signed() - 5, x))
m.d.sync += Assert(x != 3, "x is three")
sim = Simulator(m)
async def tb(ctx):
    print("-- raising rst with no clock edge:")
    ctx.set(cd.rst, 1)
    print("-- done")
sim.add_testbench(tb)
try: sim.run()
except AssertionError as e: print("AssertionError:", e)
