import warnings; warnings.simplefilter("ignore")
from amaranth.hdl import *
from amaranth.hdl._ast import SwitchValue
from amaranth.sim import Simulator

def circuit_vs_tb(mk_target, sigs, setup, val, state_sigs):
    # circuit: sync assignment
    res = {}
    for mode in ("circuit", "tb"):
        tgt, sd, st = mk_target()
        m = Module()
        trig = Signal()
        if mode == "circuit":
            with m.If(trig):
                m.d.sync += tgt.eq(val)
        else:
            m.d.sync += Signal().eq(trig)
        sim = Simulator(m)
        sim.add_clock(Period(MHz=1))
        async def tb(ctx):
            for s, v in sd:
                ctx.set(s, v)
            if mode == "circuit":
                ctx.set(trig, 1)
                await ctx.tick()
            else:
                ctx.set(tgt, val)
            res[mode] = [ctx.get(s) for s in st]
        sim.add_testbench(tb)
        sim.run()
    return res

def t1():
    sig = Signal(8); off = Signal(3)
    return sig[0:4].bit_select(off, 4), [(off, 2)], [sig]
print("sig[0:4].bit_select(off=2,4) = 0xf:", circuit_vs_tb(t1, None, None, 0xf, None))
def t2():
    sig = Signal(8); off = Signal(3); off2 = Signal(3)
    return sig.bit_select(off, 4).bit_select(off2, 4), [(off,1),(off2,2)], [sig]
print("sig.bit_select(1,4).bit_select(2,4) = 0xf:", circuit_vs_tb(t2, None, None, 0xf, None))
def t3():
    a = Signal(2); b = Signal(8); sel = Signal()
    return Cat(Array([a[0:2], b[0:2]])[sel], Signal(1,name="x")), [(sel,1)], [a, b]
print("array:", circuit_vs_tb(t3, None, None, 0xff, None))
def t4():
    a = Signal(8); b = Signal(8); sel = Signal()
    return SwitchValue(sel, [(0, a[0:2]), (1, b[0:6])]), [(sel,0)], [a, b]
print("switchvalue slices (a[0:2] sel) = 0x3f:", circuit_vs_tb(t4, None, None, 0x3f, None))
def t5():
    sig = Signal(signed(8)); off = Signal(3)
    return sig.as_unsigned().word_select(off, 3), [(off, 2)], [sig]
print("signed word_select(2,3)=7:", circuit_vs_tb(t5, None, None, 7, None))
