import warnings; warnings.simplefilter("ignore")
import io, contextlib, itertools, random
from amaranth.hdl import *
from amaranth.sim import Simulator

rng = random.Random(9)
fills = ["", "*<", "0>", " =", "x=", ">", "<", "="]
signs = ["", "+", "-", " "]
alts = ["", "#"]
zeros = ["", "0"]
widths = ["", "1", "7", "12"]
groups = ["", "_"]
types = ["", "b", "o", "d", "x", "X", "c", "s"]
def norm(x, sh):
    x &= (1 << sh.width) - 1
    if sh.signed and sh.width and x >> (sh.width - 1): x -= 1 << sh.width
    return x
accepted = rejected = mism = 0; examples = []
shapes = [unsigned(0), unsigned(1), unsigned(7), unsigned(8), signed(1), signed(5), signed(8), unsigned(16), unsigned(21)]
specs = ["".join(p) for p in itertools.product(fills, signs, alts, zeros, widths, groups, types)]
rng.shuffle(specs)
batch = []
for spec in specs[:6000]:
    sh = rng.choice(shapes)
    sig = Signal(sh)
    try:
        fmt = Format("{:" + spec + "}", sig)
    except ValueError:
        rejected += 1
        continue
    accepted += 1
    batch.append((spec, sh, sig, fmt))
# simulate in batches of 200 prints per design
def value_to_string(v):
    b = bytearray()
    while v:
        if v & 0xff: b.append(v & 0xff)
        v >>= 8
    return b.decode()
for i in range(0, len(batch), 200):
    chunk = batch[i:i+200]
    m = Module()
    for k, (spec, sh, sig, fmt) in enumerate(chunk):
        m.d.sync += Print(Format("<{}>", k), fmt, Format("|"))
    sim = Simulator(m); sim.add_clock(Period(MHz=1))
    vals = []
    for spec, sh, sig, fmt in chunk:
        if spec.endswith("s"):
            n = sh.width // 8
            v = int.from_bytes(bytes(rng.choice(b"abcXYZ 09") for _ in range(n)), "little") if n else 0
        elif spec.endswith("c"):
            v = rng.choice([65, 97, 48, 0x7e]) & ((1 << sh.width) - 1)
        else:
            v = norm(rng.getrandbits(24), sh)
        vals.append(v)
    async def tb(ctx):
        for (spec, sh, sig, fmt), v in zip(chunk, vals): ctx.set(sig, v)
        await ctx.tick()
    sim.add_testbench(tb)
    buf = io.StringIO()
    with contextlib.redirect_stdout(buf):
        try: sim.run()
        except Exception as e: print("CRASH", type(e).__name__, e)
    out = buf.getvalue()
    if "CRASH" in out: print(out[-200:]); continue
    lines = out.split("\n")
    got = {}
    for line in lines:
        if line.startswith("<") and line.endswith(" |"):
            k, rest = line[1:].split("> ", 1); got[int(k)] = rest[:-2]
    for k, ((spec, sh, sig, fmt), v) in enumerate(zip(chunk, vals)):
        try:
            if spec.endswith("s"): exp = format(value_to_string(v), spec[:-1])
            else: exp = format(v, spec)
        except Exception as e:
            exp = "PYERR:" + type(e).__name__
        if got.get(k) != exp:
            mism += 1
            if len(examples) < 8: examples.append((spec, sh, v, got.get(k), exp))
print("specs tried", 6000, "accepted", accepted, "rejected", rejected, "mismatches", mism)
for e in examples: print("  ", e)
