import warnings; warnings.simplefilter("ignore")
import random, enum as pyenum
from amaranth.hdl import *
from amaranth.hdl import Const as HConst
from amaranth.sim import Simulator
from amaranth.lib import data, enum as aenum

rng = random.Random(11)
class E2(aenum.Enum, shape=2): A = 0; B = 1; C = 3
class ES(aenum.Enum, shape=signed(3)): N = -2; Z = 0; P = 3
class F3(aenum.Flag, shape=3): X = 1; Y = 2; Z = 4

def norm(x, sh):
    x &= (1 << sh.width) - 1
    if sh.signed and sh.width and x >> (sh.width - 1): x -= 1 << sh.width
    return x

def gen_layout(d):
    k = rng.random()
    def field():
        r = rng.random()
        if d > 0 and r < 0.35: return gen_layout(d-1)
        if r < 0.5: return rng.choice([E2, F3])   # F12: signed shaped enums break layouts
        w = rng.randint(0, 4); s = w > 0 and rng.random() < .4
        return Shape(w, s)
    if k < 0.45: return data.StructLayout({f"f{i}": field() for i in range(rng.randint(0, 3))})
    if k < 0.65: return data.UnionLayout({f"f{i}": field() for i in range(rng.randint(0, 3))})
    if k < 0.9: return data.ArrayLayout(field(), rng.randint(0, 3))
    return data.StructLayout({"only": field()})

def ref_offsets(lay):
    """independent placement rule"""
    res = {}
    if isinstance(lay, data.StructLayout):
        off = 0
        for k, sh in lay.members.items():
            res[k] = (off, Shape.cast(sh).width); off += Shape.cast(sh).width
        size = off
    elif isinstance(lay, data.UnionLayout):
        for k, sh in lay.members.items(): res[k] = (0, Shape.cast(sh).width)
        size = max([w for _, w in res.values()], default=0)
    else:
        w = Shape.cast(lay.elem_shape).width
        for i in range(lay.length): res[i] = (i * w, w)
        size = w * lay.length
    return res, size

def leaf_value(shape, raw):
    """expected python-level value of a field holding bits raw"""
    if isinstance(shape, data.Layout): return ("layout", raw)
    if isinstance(shape, type) and issubclass(shape, pyenum.Enum):
        try: return ("enum", shape(norm(raw, Shape.cast(shape))))
        except ValueError: return ("invalid",)
    return ("int", norm(raw, Shape.cast(shape)))

bad = {}
def note(k, v): bad.setdefault(k, []).append(v)
for it in range(1200):
    lay = gen_layout(2)
    offs, size = ref_offsets(lay)
    if lay.size != size: note("size", (lay, lay.size, size))
    for k, (o, w) in offs.items():
        f = lay[k]
        if (f.offset, f.width) != (o, w): note("offset", (lay, k, (f.offset, f.width), (o, w)))
    if size > 14: continue
    raws = range(1 << size) if size <= 6 else [rng.getrandbits(size) for _ in range(40)]
    sig = Signal(lay)
    m = Module(); m.d.sync += Signal().eq(sig.as_value().any())
    simres = []
    for raw in raws:
        c = lay.from_bits(raw)
        if c.as_bits() != raw: note("bits-roundtrip", (lay, raw))
        try:
            if HConst.cast(lay.const(c)).value != raw: note("const-of-const", (lay, raw))
        except TypeError as e:
            note("const-of-const:TypeError(" + type(lay).__name__ + ")", (lay, raw))
        for k, (o, w) in offs.items():
            fraw = (raw >> o) & ((1 << w) - 1)
            exp = leaf_value(lay[k].shape, fraw)
            try: got = c[k]
            except ValueError: got = "ValueError"
            if exp[0] == "int" and got != exp[1]: note("const-field-int", (lay, raw, k, got, exp))
            if exp[0] == "enum" and got != exp[1]: note("const-field-enum", (lay, raw, k, got, exp))
            if exp[0] == "layout" and (not isinstance(got, data.Const) or got.as_bits() != exp[1]): note("const-field-layout", (lay, raw, k, got, exp))
            if exp[0] == "invalid" and got != "ValueError": note("const-field-invalid", (lay, raw, k, got))
    # build const from field values and read back (struct only, int leaves)
    if isinstance(lay, data.StructLayout) and all(isinstance(s, Shape) for s in lay.members.values()):
        vals = {k: rng.randint(-20, 20) for k in lay.members}
        c = lay.const(vals)
        for k, v in vals.items():
            if c[k] != norm(v, Shape.cast(lay.members[k])): note("const-build", (lay, vals, k, c[k]))
    # simulation: view field read == slice; write through field changes only that field
    sim = Simulator(m); fails = []
    async def tb(ctx):
        for raw in list(raws)[:12]:
            ctx.set(sig.as_value(), raw)
            for k, (o, w) in offs.items():
                fv = sig[k]
                got = ctx.get(Value.cast(fv)) & ((1 << w) - 1)
                if got != (raw >> o) & ((1 << w) - 1): fails.append(("read", raw, k, got))
                sh = Shape.cast(lay[k].shape)
                if Value.cast(fv).shape() != sh: fails.append(("shape", k, Value.cast(fv).shape(), sh))
                newv = rng.getrandbits(w) if w else 0
                ctx.set(Value.cast(fv), newv)
                after = ctx.get(sig.as_value())
                mask = ((1 << w) - 1) << o
                if after != (raw & ~mask) | (newv << o): fails.append(("write", raw, k, newv, after))
                ctx.set(sig.as_value(), raw)
    sim.add_testbench(tb)
    try: sim.run()
    except Exception as e: note("sim:" + type(e).__name__ + str(e)[:60], lay); continue
    if fails: note("sim-field", (lay, fails[:3]))

# flag view ops vs python enum.Flag
class PF(pyenum.Flag): X = 1; Y = 2; Z = 4
a = Signal(F3); b = Signal(F3)
m = Module(); m.d.sync += Signal().eq(Value.cast(a).any())
sim = Simulator(m); fl = []
async def tb(ctx):
    for x in range(8):
        for y in range(8):
            ctx.set(a, F3(x)); ctx.set(b, F3(y))
            for name, hw, py in [("and", a & b, PF(x) & PF(y)), ("or", a | b, PF(x) | PF(y)), ("xor", a ^ b, PF(x) ^ PF(y)), ("inv", ~a, ~PF(x))]:
                got = ctx.get(hw)
                if got.value != py.value: fl.append((name, x, y, got, py))
sim.add_testbench(tb); sim.run()
if fl: note("flag-ops", fl[:4])
# enum const/from_bits round trip
for E in (E2, ES, F3):
    for mem in E:
        raw = HConst.cast(E.const(mem)).value
        if E.from_bits(raw) != mem: note("enum-rt", (E, mem))
for k, v in bad.items(): print(k, len(v), str(v[0])[:300])
print("done")
