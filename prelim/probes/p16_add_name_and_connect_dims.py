import warnings; warnings.simplefilter("ignore")
from amaranth.hdl import *
from amaranth.back import rtlil
from amaranth.lib import wiring
from amaranth.lib.wiring import In, Out
# (a) _add_name
m = Module()
s1 = Signal(name="a"); s2 = Signal(name="a$3"); s3 = Signal(name="a"); o = Signal(3, name="o")
m.d.comb += o.eq(Cat(s1, s2, s3))
try:
    t = rtlil.convert(m, ports=[o]); print("add_name: converted ok")
except Exception as e:
    print("add_name:", type(e).__name__, e)
# (b) connect with mismatched dimensions
A = wiring.Signature({"x": Out(1).array(2)}); B = wiring.Signature({"x": In(1).array(3)})
try:
    wiring.connect(Module(), A.create(), B.create()); print("connect dims: accepted")
except Exception as e:
    print("connect dims:", type(e).__name__, str(e)[:80])
