import warnings; warnings.simplefilter("ignore")
import random
from amaranth.hdl import *
from amaranth.sim import Simulator
from amaranth.lib.cdc import *
from amaranth.lib import io
rng = random.Random(3); bad = {}
def note(k, v): bad.setdefault(k, []).append(v)

# FFSynchronizer latency
for stages in (2, 3, 5):
    for width in (0, 1, 4):
        for init in (0, (1 << width) - 1 if width else 0):
            i = Signal(width); o = Signal(width)
            m = Module(); m.submodules += FFSynchronizer(i, o, stages=stages, init=init)
            sim = Simulator(m); sim.add_clock(Period(MHz=1))
            async def tb(ctx):
                hist = []
                for t in range(20):
                    v = rng.getrandbits(width) if width else 0
                    ctx.set(i, v); hist.append(v)      # value sampled by edge t (0-based)
                    await ctx.tick()
                    # after edge t (t+1 edges so far): output = input sampled at edge t-stages+1, else init
                    k = t - stages + 1
                    exp = hist[k] if k >= 0 else init
                    if ctx.get(o) != exp: note("ffsync", (stages, width, t, ctx.get(o), exp))
            sim.add_testbench(tb); sim.run()

# AsyncFFSynchronizer: assert immediately, release after exactly `stages` edges
for stages in (2, 3, 4):
    for edge in ("pos", "neg"):
        i = Signal(init=0 if edge == "pos" else 1); o = Signal()
        m = Module(); m.submodules += AsyncFFSynchronizer(i, o, stages=stages, async_edge=edge)
        m.domains.sync = cd = ClockDomain()
        sim = Simulator(m)
        act = 1 if edge == "pos" else 0
        async def tb(ctx):
            def clk():
                ctx.set(cd.clk, 1); ctx.set(cd.clk, 0)
            for _ in range(stages + 2): clk()          # flush power-on assertion
            if ctx.get(o) != 0: note("async-initial-release", (stages, edge))
            for rep in range(3):
                for _ in range(rng.randint(0, 3)): clk()
                ctx.set(i, act)
                if ctx.get(o) != 1: note("async-assert-immediate", (stages, edge))
                for _ in range(rng.randint(0, 3)): clk()
                if ctx.get(o) != 1: note("async-held", (stages, edge))
                ctx.set(i, 1 - act)
                for k in range(1, stages + 2):
                    clk()
                    exp = 1 if k < stages else 0
                    if ctx.get(o) != exp: note("async-release", (stages, edge, k, ctx.get(o), exp))
        sim.add_testbench(tb); sim.run()

# PulseSynchronizer: random interleavings with an output edge between consecutive input pulses
for trial in range(200):
    stages = rng.choice([2, 3, 4])
    ps = PulseSynchronizer("i", "o", stages=stages)
    m = Module(); m.submodules.ps = ps
    m.domains.i = cdi = ClockDomain(); m.domains.o = cdo = ClockDomain()
    sim = Simulator(m)
    async def tb(ctx):
        n_in = 0; n_out = 0; o_edge_since_pulse = True; prev_o = 0; width_run = 0
        for t in range(120):
            ev = rng.choice(["i", "o", "both"])
            want = rng.random() < 0.5 and o_edge_since_pulse
            ctx.set(ps.i, int(want))
            if ev in ("i", "both"):
                if want: n_in += 1; o_edge_since_pulse = False
            if ev == "i": ctx.set(cdi.clk, 1); ctx.set(cdi.clk, 0)
            elif ev == "o": ctx.set(cdo.clk, 1); ctx.set(cdo.clk, 0)
            else: ctx.set(Cat(cdi.clk, cdo.clk), 3); ctx.set(Cat(cdi.clk, cdo.clk), 0)
            if ev in ("o", "both"):
                if ev == "o" or not want: o_edge_since_pulse = True
                elif ev == "both" and want: o_edge_since_pulse = False   # coincident edge does not separate
                if ctx.get(ps.o):
                    n_out += 1; width_run += 1
                    pass  # back-to-back pulses are legitimate; single-cycle-ness is checked by the count
                else: width_run = 0
        ctx.set(ps.i, 0)
        for _ in range(stages + 3):
            ctx.set(cdo.clk, 1); ctx.set(cdo.clk, 0)
            if ctx.get(ps.o): n_out += 1
        if n_in != n_out: note("pulse-count", (trial, stages, n_in, n_out))
    sim.add_testbench(tb); sim.run()

# Buffers on simulation ports
for width in (0, 1, 3):
    for mask in range(1 << width):
        inv = tuple(bool((mask >> b) & 1) for b in range(width))
        for d in ("i", "o", "io"):
            port = io.SimulationPort(d, width, invert=inv)
            buf = io.Buffer(d, port); m = Module(); m.submodules.b = buf
            m.d.sync += Signal().eq(1)
            sim = Simulator(m)
            async def tb(ctx):
                for _ in range(8):
                    if d in ("o", "io"):
                        o = rng.getrandbits(width) if width else 0; oe = rng.getrandbits(1)
                        ctx.set(buf.o, o); ctx.set(buf.oe, oe)
                        if ctx.get(port.o) != o ^ mask: note("buf-o", (width, mask, d))
                        if ctx.get(port.oe) != ((1 << width) - 1 if oe else 0): note("buf-oe", (width, mask, d))
                    if d in ("i", "io"):
                        pi = rng.getrandbits(width) if width else 0
                        ctx.set(port.i, pi)
                        if d == "io":
                            exp = (o if oe else pi ^ mask)      # loopback of driven value while enabled
                        else: exp = pi ^ mask
                        if ctx.get(buf.i) != exp: note("buf-i", (width, mask, d, ctx.get(buf.i), exp))
            sim.add_testbench(tb); sim.run()
# port algebra
for _ in range(300):
    w1, w2 = rng.randint(0, 4), rng.randint(0, 4)
    i1 = tuple(rng.random() < .5 for _ in range(w1)); i2 = tuple(rng.random() < .5 for _ in range(w2))
    for mk in (lambda w, inv, n: io.SingleEndedPort(IOPort(w, name=n), invert=inv), lambda w, inv, n: io.SimulationPort("io", w, invert=inv, name=n),
               lambda w, inv, n: io.DifferentialPort(IOPort(w, name=n+"p"), IOPort(w, name=n+"n"), invert=inv)):
        p, q = mk(w1, i1, "p"), mk(w2, i2, "q")
        if (p + q).invert != i1 + i2 or len(p + q) != w1 + w2: note("alg-add", (i1, i2))
        if (~p).invert != tuple(not x for x in i1): note("alg-inv", i1)
        a = rng.randint(0, w1); b = rng.randint(a, w1)
        if p[a:b].invert != i1[a:b] or len(p[a:b]) != b - a: note("alg-slice", (i1, a, b))
        if w1:
            k = rng.randrange(w1)
            if p[k].invert != (i1[k],): note("alg-index", (i1, k))
        if (~(p + q))[0:w1].invert != tuple(not x for x in i1): note("alg-compose", (i1, i2))
for k, v in bad.items(): print(k, len(v), str(v[0])[:200])
print("done")
