import warnings; warnings.simplefilter("ignore")
from amaranth.hdl import *
from amaranth.sim import Simulator
from amaranth.lib.memory import Memory
from amaranth.back import rtlil

m = Module()
m.domains.sync = cd = ClockDomain(async_reset=True)
ctr = Signal(4, reset_less=True)
ctr2 = Signal(4)
m.d.sync += ctr.eq(ctr + 1)
m.d.sync += ctr2.eq(ctr2 + 1)
m.submodules.mem = mem = Memory(shape=4, depth=2, init=[0, 0])
wp = mem.write_port()
rp = mem.read_port(domain="comb")
m.d.comb += [wp.addr.eq(0), wp.data.eq(9), wp.en.eq(1), rp.addr.eq(0)]
sim = Simulator(m)
async def tb(ctx):
    print("init ctr", ctx.get(ctr), "ctr2", ctx.get(ctr2), "mem[0]", ctx.get(rp.data))
    ctx.set(cd.rst, 1)   # no clock edge at all
    print("after rst rise (no clk edge): ctr", ctx.get(ctr), "ctr2", ctx.get(ctr2), "mem[0]", ctx.get(rp.data))
    ctx.set(cd.rst, 0)
    ctx.set(cd.rst, 1)
    print("after 2nd rst rise: ctr", ctx.get(ctr), "ctr2", ctx.get(ctr2), "mem[0]", ctx.get(rp.data))
sim.add_testbench(tb)
sim.run()
