import warnings; warnings.simplefilter("ignore")
from amaranth.hdl import *
from amaranth.hdl import Const as HConst
from amaranth.lib import data
U = data.UnionLayout({"a": 4, "b": 2})
S = data.StructLayout({"a": 4, "b": 2})
for lay in (S, U):
    try: print(type(lay).__name__, "const(from_bits(5)) ->", HConst.cast(lay.const(lay.from_bits(5))).value)
    except Exception as e: print(type(lay).__name__, "const(from_bits(5)) ->", type(e).__name__, str(e)[:70])
    s = Signal(lay, init={"a": 3})
    try: print(type(lay).__name__, "Signal.like ->", Signal.like(s).as_value().init)
    except Exception as e: print(type(lay).__name__, "Signal.like ->", type(e).__name__, str(e)[:70])
class UU(data.Union):
    a: 4
    b: 2
try: print("Union class const(from_bits(5)) ->", HConst.cast(UU.const(UU.from_bits(5))).value)
except Exception as e: print("Union class ->", type(e).__name__, str(e)[:70])
