import warnings; warnings.simplefilter("ignore")
from amaranth.hdl import *
from amaranth.lib.wiring import In, Out, Signature, connect
inner = Signature({"x": Out(1)})
mid = Signature({"arr": Out(inner).array(2)})
print("unflipped ok:", mid.is_compliant(mid.create()))
f = mid.flip().create()
for what, fn in [("attribute access f.arr", lambda: f.arr),
                 ("mid.flip().is_compliant(mid.flip().create())", lambda: mid.flip().is_compliant(f)),
                 ("list(mid.flip().flatten(f))", lambda: list(mid.flip().flatten(f))),
                 ("connect(m, mid.create(), mid.flip().create())", lambda: connect(Module(), mid.create(), mid.flip().create()))]:
    try: print(what, "->", fn())
    except Exception as e: print(what, "->", type(e).__name__, str(e)[:90])
