import warnings; warnings.simplefilter("ignore")
import random, sys
from amaranth.hdl import *
from amaranth.hdl._ast import Operator, Slice, Part, Concat, SwitchValue, Signal, Const
from amaranth.sim import Simulator

def fits(sh, x):
    if sh.signed: return -(1<<(sh.width-1)) <= x < (1<<(sh.width-1))
    return 0 <= x < (1<<sh.width)
def norm(x, sh):
    x &= (1 << sh.width) - 1
    if sh.signed and sh.width and x >> (sh.width-1): x -= 1 << sh.width
    return x
def bit(x, i): return (x >> i) & 1

def ref(e, env):
    """exact integer (Python) semantics; value 'in its own shape'"""
    if isinstance(e, Const): return e.value
    if isinstance(e, Signal): return env[id(e)]
    if isinstance(e, Operator):
        ops = [ref(o, env) for o in e.operands]
        op = e.operator
        if len(ops) == 1:
            a, = ops; sh = e.operands[0].shape()
            if op == "~": return norm(~a, sh)          # documented deviation
            if op == "-": return -a
            if op in ("b", "r|"): return int(a != 0)
            if op == "r&": return int((a & ((1<<sh.width)-1)) == (1<<sh.width)-1)
            if op == "r^": return bin(a & ((1<<sh.width)-1)).count("1") % 2
            if op == "u": return norm(a, Shape(sh.width, False))
            if op == "s": return norm(a, Shape(sh.width, True))
        a, b = ops
        if op == "+": return a + b
        if op == "-": return a - b
        if op == "*": return a * b
        if op == "//": return 0 if b == 0 else a // b
        if op == "%": return 0 if b == 0 else a % b
        if op == "&": return a & b
        if op == "|": return a | b
        if op == "^": return a ^ b
        if op == "<<": return a << b
        if op == ">>": return a >> b
        return int({"==": a == b, "!=": a != b, "<": a < b, "<=": a <= b, ">": a > b, ">=": a >= b}[op])
    if isinstance(e, Slice):
        return (ref(e.value, env) >> e.start) & ((1 << (e.stop - e.start)) - 1)
    if isinstance(e, Part):
        return (ref(e.value, env) >> (ref(e.offset, env) * e.stride)) & ((1 << e.width) - 1)
    if isinstance(e, Concat):
        r = 0; p = 0
        for part in e.parts:
            r |= (ref(part, env) & ((1 << len(part)) - 1)) << p; p += len(part)
        return r
    if isinstance(e, SwitchValue):
        t = ref(e.test, env) & ((1 << len(e.test)) - 1)
        for pats, v in e.cases:
            if pats is None: return ref(v, env)
            for p in pats:
                if all(c == "-" or int(c) == bit(t, len(p)-1-i) for i, c in enumerate(p)):
                    return ref(v, env)
        return 0
    raise TypeError(e)

def gen(rng, sigs, d):
    if d == 0 or rng.random() < 0.25:
        if rng.random() < 0.7: return rng.choice(sigs)
        w = rng.randint(0, 4); s = w > 0 and rng.random() < 0.5
        return Const(rng.randint(-20, 20), Shape(w, s))
    k = rng.random()
    a = gen(rng, sigs, d-1)
    if k < 0.2:
        op = rng.choice(["~", "-", "b", "r|", "r&", "r^", "u", "s", "abs"])
        if op == "s": return a.as_signed() if len(a) else a
        if op == "u": return a.as_unsigned()
        if op == "abs": return abs(a)
        return Operator(op, [a])
    b = gen(rng, sigs, d-1)
    if k < 0.55:
        op = rng.choice(["+", "-", "*", "//", "%", "&", "|", "^", "==", "!=", "<", "<=", ">", ">="])
        return Operator(op, [a, b])
    if k < 0.65:
        if b.shape().signed or len(b) > 3: b = b.as_unsigned()[:3]
        return a << b if rng.random() < 0.5 else a >> b
    if k < 0.72:
        n = len(a); i = rng.randint(0, n); j = rng.randint(i, n); return a[i:j]
    if k < 0.80:
        if b.shape().signed or len(b) > 3: b = b.as_unsigned()[:3]
        w = rng.randint(0, 4)
        return a.bit_select(b, w) if rng.random() < 0.5 else a.word_select(b, max(w,1))
    if k < 0.86:
        return Cat(a, b, gen(rng, sigs, d-1)) if rng.random()<0.5 else a.replicate(rng.randint(0,3))
    if k < 0.92:
        return Mux(a, b, gen(rng, sigs, d-1))
    if k < 0.96:
        n = len(a)
        pats = []
        for _ in range(rng.randint(0, 3)):
            pats.append("".join(rng.choice("01-") for _ in range(n)) if rng.random() < 0.6 else rng.randint(0, (1<<n)-1) if not a.shape().signed else rng.randint(-(1<<(n-1)), (1<<(n-1))-1))
        return a.matches(*pats)
    amt = rng.randint(-3, 5)
    return rng.choice([a.shift_left, a.shift_right, a.rotate_left, a.rotate_right])(amt)

def main(seed, N):
    rng = random.Random(seed)
    bad = {}
    for it in range(N):
        sigs = []
        for i in range(3):
            w = rng.randint(0, 4); s = w > 0 and rng.random() < 0.5
            sigs.append(Signal(Shape(w, s), name=f"s{i}"))
        try:
            e = gen(rng, sigs, 3)
            e = Value.cast(e)
            sh = e.shape()
            if len(e) > 200: continue
        except (TypeError, ValueError, IndexError) as ex:
            continue
        m = Module(); o = Signal(sh, name="o"); m.d.comb += o.eq(e)
        sim = Simulator(m); out = []
        vecs = []
        for _ in range(6):
            vecs.append([norm(rng.getrandbits(8), s.shape()) for s in sigs])
        async def tb(ctx):
            for v in vecs:
                for s, x in zip(sigs, v): ctx.set(s, x)
                out.append((ctx.get(o), ctx.get(e)))
        sim.add_testbench(tb)
        try:
            sim.run()
        except Exception as ex:
            bad.setdefault("crash:" + type(ex).__name__ + ":" + str(ex)[:50], []).append((repr(e),))
            continue
        for v, (circ, tbv) in zip(vecs, out):
            env = {id(s): x for s, x in zip(sigs, v)}
            r = ref(e, env)
            if not fits(sh, r): bad.setdefault("shape-overflow", []).append((repr(e), v, r, sh))
            if circ != r: bad.setdefault("circuit", []).append((repr(e), v, circ, r))
            if tbv != r: bad.setdefault("tb", []).append((repr(e), v, tbv, r))
    for k, vs in bad.items():
        print(k, len(vs))
        for x in vs[:6]: print("   ", x)
    print("done", N)
if __name__ == "__main__": main(int(sys.argv[1]), int(sys.argv[2]))
