import warnings; warnings.simplefilter("ignore")
import random, sys
sys.path.insert(0, "/verif/prelim/probes")
from amaranth.hdl import *
from amaranth.sim import Simulator
from amaranth.lib.memory import Memory

class PermSet(set):
    """a set whose iteration order is a seeded permutation, re-drawn on every iteration"""
    def __init__(self, items, seed):
        super().__init__(items); self._rng = random.Random(seed)
    def __iter__(self):
        items = sorted(super().__iter__(), key=id)
        self._rng.shuffle(items); return iter(items)

def build(rng):
    m = Module()
    m.domains.a = cda = ClockDomain(); m.domains.b = cdb = ClockDomain(clk_edge="neg")
    x = Signal(4, name="x"); y = Signal(4, name="y"); z = Signal(8, name="z"); w = Signal(4, name="w")
    inp = Signal(4, name="inp")
    m.d.a += x.eq(x + inp)
    m.d.b += y.eq(y ^ x)
    m.d.comb += z.eq(Cat(x, y) + w)
    sub = Module(); m.submodules.sub = sub
    q = Signal(4, name="q"); sub.d.a += q.eq(z[2:6]); sub.d.comb += w.eq(q + 1)
    m.submodules.mem = mem = Memory(shape=4, depth=4, init=[1, 2, 3, 4])
    wp = mem.write_port(domain="a"); rp = mem.read_port(domain="b", transparent_for=())
    rc = mem.read_port(domain="comb")
    m.d.comb += [wp.addr.eq(x[:2]), wp.data.eq(y), wp.en.eq(inp[0]), rp.addr.eq(y[:2]), rc.addr.eq(q[:2])]
    proc_out = Signal(4, name="proc_out"); proc_out2 = Signal(4, name="proc_out2")
    return m, dict(x=x, y=y, z=z, w=w, q=q, inp=inp, rp=rp.data, rc=rc.data, po=proc_out, po2=proc_out2, cda=cda, cdb=cdb)

def run(order_seed, scen_seed):
    rng = random.Random(scen_seed)
    m, s = build(rng)
    sim = Simulator(m)
    sim.add_clock(Period(ns=7), domain="a"); sim.add_clock(Period(ns=11), phase=Period(ns=2), domain="b")
    async def proc_comb(ctx):        # replaces a comb circuit: po = x ^ y
        async for xv, yv in ctx.changed(s["x"], s["y"]):
            ctx.set(s["po"], xv ^ yv)
    async def proc_sync(ctx):        # replaces a sync circuit: po2 <= z[0:4] + 1 on domain a
        async for clk, rst, zv in ctx.tick("a").sample(s["z"]):
            ctx.set(s["po2"], (zv + 1) & 15)
    sim.add_process(proc_comb); sim.add_process(proc_sync)
    trace = []
    async def tb1(ctx):
        for i in range(30):
            ctx.set(s["inp"], rng.getrandbits(4))
            await ctx.tick("a")
            trace.append(("tb1", ctx.elapsed_time().femtoseconds, tuple(ctx.get(s[k]) for k in ("x","y","z","w","q","rp","rc","po","po2"))))
    async def tb2(ctx):
        for i in range(20):
            await ctx.delay(Period(ns=5))
            trace.append(("tb2", ctx.elapsed_time().femtoseconds, tuple(ctx.get(s[k]) for k in ("x","y","z","po"))))
    sim.add_testbench(tb1); sim.add_testbench(tb2)
    if order_seed is not None:
        eng = sim._engine
        eng._processes = PermSet(eng._processes, order_seed)
        eng._state.pending = PermSet(eng._state.pending, order_seed + 1)
        for slot in eng._state.slots: slot.pending = eng._state.pending
    sim.run()
    return trace

for scen in range(5):
    base = run(None, scen)
    diffs = 0
    for o in range(12):
        t = run(o, scen)
        if t != base:
            diffs += 1
            for a, b in zip(base, t):
                if a != b: print("scenario", scen, "order", o, "first diff", a, b); break
    print("scenario", scen, "trace len", len(base), "orders differing:", diffs)
