import warnings; warnings.simplefilter("ignore")
import hashlib
from amaranth.hdl import *
from amaranth.back import rtlil
m = Module()
o = Signal(8)
for i, d in enumerate(["alpha", "beta", "gamma", "delta", "eps"]):
    s = Signal(name=f"s_{d}")
    m.d[d] += s.eq(~s)
    m.d.comb += o[i].eq(s)
t = rtlil.convert(m, ports=[o])
print(hashlib.sha1(t.encode()).hexdigest()[:10], [l.strip() for l in t.splitlines() if " input " in l])
