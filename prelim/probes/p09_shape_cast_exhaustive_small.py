import warnings; warnings.simplefilter("ignore")
import enum, itertools
from amaranth.hdl import *
from amaranth.hdl._ast import Slice, Concat
def fits(sh, x):
    if sh.signed: return -(1<<(sh.width-1)) <= x < (1<<(sh.width-1))
    return 0 <= x < (1<<sh.width)
def minimal(elems):
    if not elems: return Shape(0)
    signed = any(e < 0 for e in elems)
    w = 0 if not signed else 1
    while not all(fits(Shape(w, signed), e) for e in elems): w += 1
    return Shape(w, signed)
bad = 0; n = 0
for start in range(-20, 21):
    for stop in range(-20, 21):
        for step in list(range(-7, 0)) + list(range(1, 8)):
            r = range(start, stop, step); n += 1
            got = Shape.cast(r); exp = minimal(list(r))
            if list(r) == [0]: exp = Shape(0)
            if got != exp:
                bad += 1
                if bad < 10: print("RANGE", r, list(r)[:5], got, exp)
print("ranges", n, "bad", bad)
# enums: property says each member counts with the shape it has as a constant, 0 being one unsigned bit
bad = 0; n = 0
vals = [-9,-8,-5,-4,-2,-1,0,1,2,3,4,7,8,15,16]
for k in (1,2,3):
    for combo in itertools.combinations(vals, k):
        E = enum.Enum("E", {f"M{i}": v for i, v in enumerate(combo)})
        got = Shape.cast(E); n += 1
        signed = any(v < 0 for v in combo)
        # each member with its const shape
        ws = []
        for v in combo:
            c = Const(v); 
            ws.append(c.shape().width + (1 if signed and not c.shape().signed else 0))
        exp = Shape(max(ws), signed)
        if got != exp:
            bad += 1
            if bad < 10: print("ENUM", combo, got, exp)
print("enums", n, "bad", bad)
# Const normalisation
bad = 0
for w in range(0, 7):
    for s in (False, True):
        if s and w == 0: continue
        for v in range(-70, 70):
            c = Const(v, Shape(w, s)).value
            assert fits(Shape(w, s), c) and (c - v) % (1 << w) == 0, (v, w, s, c)
print("const ok")
# Const.cast of Cat/Slice
import random
random.seed(1)
def rnd_const_expr(d):
    if d == 0 or random.random() < 0.3:
        w = random.randint(0, 5); s = random.random() < 0.5 and w > 0
        return Const(random.randint(-40, 40), Shape(w, s))
    if random.random() < 0.5:
        return Cat(*[rnd_const_expr(d-1) for _ in range(random.randint(0,3))])
    e = rnd_const_expr(d-1); n = len(e); a = random.randint(0, n); b = random.randint(a, n)
    return e[a:b]
from amaranth.sim import Simulator
for i in range(300):
    e = rnd_const_expr(3)
    cc = Const.cast(e)
    m = Module(); o = Signal(max(len(e),1)); m.d.comb += o.eq(e)
    sim = Simulator(m); res = {}
    async def tb(ctx): res['v'] = ctx.get(o); res['g'] = ctx.get(e)
    sim.add_testbench(tb); sim.run()
    assert cc.value == res['g'] and (cc.value - res['v']) % (1 << max(len(e),1)) == 0 and cc.shape() == e.shape(), (e, cc, res)
print("const cast ok")
for args in [(range(0,8), 8), (range(0,8), -1), (range(1,8), 0), (range(-4, 4), 4), (range(-4,4), -5), (range(0, 8, 2), 3)]:
    try:
        s = Signal(args[0], init=args[1]); print("Signal", args, "-> init", s.init)
    except Exception as e: print("Signal", args, "->", type(e).__name__)
