import warnings; warnings.simplefilter("ignore")
import random
from amaranth.hdl import *
from amaranth.sim import Simulator
from amaranth.lib.memory import Memory
from amaranth.utils import ceil_log2

def norm(x, sh):
    x &= (1 << sh.width) - 1
    if sh.signed and sh.width and x >> (sh.width - 1): x -= 1 << sh.width
    return x

def one(seed):
    rng = random.Random(seed)
    width = rng.choice([1, 2, 4, 6, 8]); signed_ = rng.random() < .3
    shape = Shape(width, signed_)
    depth = rng.choice([1, 2, 3, 4, 5, 8])
    init = [norm(rng.getrandbits(width), shape) for _ in range(rng.randint(0, depth))]
    mem = Memory(shape=shape, depth=depth, init=init)
    doms = ["a", "b"][:rng.randint(1, 2)]
    m = Module(); m.submodules.mem = mem
    cds = {}
    for d in doms:
        cds[d] = ClockDomain(d, clk_edge=rng.choice(["pos", "neg"])); m.domains += cds[d]
    wps = []
    for _ in range(rng.randint(0, 2)):
        divs = [g for g in range(1, width + 1) if width % g == 0]
        gran = rng.choice([None] + divs) if not signed_ else None
        wps.append((mem.write_port(domain=rng.choice(doms), granularity=gran), gran or width))
    rps = []
    for _ in range(rng.randint(1, 3)):
        d = rng.choice(doms + ["comb"])
        tf = [wp for wp, g in wps if wp.domain == d and rng.random() < .5] if d != "comb" else []
        rps.append(mem.read_port(domain=d, transparent_for=tf))
    sim = Simulator(m)
    # reference state
    rows = init + [0] * (depth - len(init))
    rdata = [0] * len(rps)
    clk = {d: 0 for d in doms}
    issues = []
    abits = ceil_log2(depth)
    async def tb(ctx):
        nonlocal rows
        for step in range(60):
            # random inputs
            wv = []
            for wp, g in wps:
                a = rng.getrandbits(abits) if abits else 0; dat = rng.getrandbits(width); en = rng.getrandbits(width // g)
                ctx.set(wp.addr, a); ctx.set(wp.data, dat); ctx.set(wp.en, en); wv.append((a, dat, en))
            rv = []
            for rp in rps:
                a = rng.getrandbits(abits) if abits else 0; ctx.set(rp.addr, a)
                en = 1
                if rp.domain != "comb": en = rng.getrandbits(1); ctx.set(rp.en, en)
                rv.append((a, en))
            # event: toggle a subset of clocks simultaneously
            tog = [d for d in doms if rng.random() < .6] or [rng.choice(doms)]
            active = []
            for d in tog:
                clk[d] ^= 1
                if clk[d] == (1 if cds[d].clk_edge == "pos" else 0): active.append(d)
            ctx.set(Cat(*[cds[d].clk for d in tog]), sum(clk[d] << i for i, d in enumerate(tog)))
            # reference update
            old = list(rows); new = list(rows)
            written = {}    # port index -> (addr, fullmask, data)
            collision = False
            touched = {}
            for pi, ((wp, g), (a, dat, en)) in enumerate(zip(wps, wv)):
                if wp.domain in active:
                    mask = 0
                    for k in range(width // g):
                        if (en >> k) & 1: mask |= ((1 << g) - 1) << (k * g)
                    written[pi] = (a, mask, dat)
                    if a < depth and mask:
                        if touched.get(a, 0) & mask: collision = True
                        touched[a] = touched.get(a, 0) | mask
                        cur = new[a] & ((1 << width) - 1)
                        new[a] = norm((cur & ~mask) | (dat & mask), shape)
            for ri, (rp, (a, en)) in enumerate(zip(rps, rv)):
                if rp.domain != "comb" and rp.domain in active and en and a < depth:
                    val = old[a] & ((1 << width) - 1)
                    for pi, (wp, g) in enumerate(wps):
                        if wp in rp.transparent_for and pi in written and written[pi][0] == a:
                            _, mask, dat = written[pi]
                            val = (val & ~mask) | (dat & mask)
                    rdata[ri] = norm(val, shape)
                elif rp.domain != "comb" and rp.domain in active and en and a >= depth:
                    rdata[ri] = None     # unspecified
            rows = new
            if collision: return   # write-write collision on same granules: unspecified, stop this walk
            # compare
            for ri, (rp, (a, en)) in enumerate(zip(rps, rv)):
                got = ctx.get(rp.data)
                if rp.domain == "comb":
                    if a < depth and got != rows[a]: issues.append(("comb-read", step, a, got, rows[a]))
                elif rdata[ri] is not None and got != rdata[ri]:
                    issues.append(("sync-read", step, ri, rp.domain, [w[0].domain for w in wps], got, rdata[ri], active)); rdata[ri] = got
                elif rdata[ri] is None: rdata[ri] = got
            for a in range(depth):
                if ctx.get(mem.data[a]) != rows[a]: issues.append(("row", step, a, ctx.get(mem.data[a]), rows[a])); rows[a] = ctx.get(mem.data[a])
            if len(issues) > 2: return
            # occasionally poke a row directly
            if rng.random() < .1:
                a = rng.randrange(depth); v = norm(rng.getrandbits(width), shape)
                ctx.set(mem.data[a], v); rows[a] = v
    sim.add_testbench(tb); sim.run()
    return issues
tot = 0; badn = 0
for seed in range(400):
    try: iss = one(seed)
    except Exception as e: iss = [("crash", type(e).__name__, str(e)[:100])]
    tot += 1
    if iss:
        badn += 1
        if badn <= 6: print(seed, iss[:2])
print("walks", tot, "with issues", badn)
