import warnings; warnings.simplefilter("ignore")
import random
from amaranth.hdl import *
from amaranth.hdl._ir import DriverConflict, build_netlist
from amaranth.lib.memory import Memory
rng = random.Random(2)
stats = {}
def note(k): stats[k] = stats.get(k, 0) + 1
mism = []
for it in range(4000):
    W = 4
    sig = Signal(W, name="s")
    # module tree: top, a, b, a.c
    mods = {"top": Module(), "a": Module(), "b": Module(), "c": Module()}
    mods["top"].submodules.a = mods["a"]; mods["top"].submodules.b = mods["b"]; mods["a"].submodules.c = mods["c"]
    drives = []      # (module, domain, lo, hi)
    n = rng.randint(1, 3)
    early = False
    inst_bits = None
    for _ in range(n):
        mod = rng.choice(list(mods)); dom = rng.choice(["comb", "sync", "fast"])
        lo = rng.randrange(W); hi = rng.randint(lo + 1, W)
        try:
            cond = Signal(name="c")
            if rng.random() < .4:
                with mods[mod].If(cond):
                    mods[mod].d[dom] += sig[lo:hi].eq(rng.getrandbits(hi - lo))
            else:
                mods[mod].d[dom] += sig[lo:hi].eq(rng.getrandbits(hi - lo))
            drives.append((mod, dom, lo, hi))
        except SyntaxError:
            early = True; drives.append((mod, dom, lo, hi)); break
    if rng.random() < .25:
        lo = rng.randrange(W); hi = rng.randint(lo + 1, W)
        mods[rng.choice(list(mods))].submodules.inst = Instance("foo", o_o=sig[lo:hi])
        inst_bits = (lo, hi)
    # spec
    conflict = False
    for b in range(W):
        owners = {(m_, d) for (m_, d, lo, hi) in drives if lo <= b < hi}
        if len(owners) > 1: conflict = True
        if inst_bits and inst_bits[0] <= b < inst_bits[1] and owners: conflict = True
    if early:
        got = "early"
    else:
        try:
            build_netlist(Fragment.get(mods["top"], None), ports=[sig]); got = "ok"
        except DriverConflict: got = "conflict"
        except Exception as e: got = "other:" + type(e).__name__
    note((conflict, got))
    if (conflict and got == "ok") or (not conflict and got != "ok"): mism.append((drives, inst_bits, got))
print(stats); print("mismatches", len(mism), mism[:3])
