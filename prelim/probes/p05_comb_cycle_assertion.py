import warnings; warnings.simplefilter("ignore")
from amaranth.hdl import *
from amaranth.back import rtlil
def tryit(name, f):
    m = Module()
    a = Signal(4, name="a")
    f(m, a)
    try:
        rtlil.convert(m, ports=[a])
        print(name, "-> accepted")
    except Exception as e:
        print(name, "->", type(e).__name__, (str(e).splitlines() or [""])[0][:80])
tryit("a = a[0:2]+1", lambda m,a: m.d.comb.__iadd__(a.eq(a[0:2] + 1)))
tryit("a = a[1:3]+1", lambda m,a: m.d.comb.__iadd__(a.eq(a[1:3] + 1)))
tryit("a[0:2] = a[2:4]+1 (no bit reaches itself? word-level + covers)", lambda m,a: m.d.comb.__iadd__(a[0:2].eq(a[2:4] + 1)))
tryit("a[0]=a[1] (bit-precise legal)", lambda m,a: m.d.comb.__iadd__(a[0].eq(a[1])))
tryit("a[0]=~a[1]; a[1]=a[2]&a[3]", lambda m,a: m.d.comb.__iadd__([a[0].eq(~a[1]), a[1].eq(a[2]&a[3])]))
tryit("a[0]=a[1]; a[1]=a[0]", lambda m,a: m.d.comb.__iadd__([a[0].eq(a[1]), a[1].eq(a[0])]))
tryit("a = Mux(a[3], a, 1)", lambda m,a: m.d.comb.__iadd__(a.eq(Mux(a[3], a, 1))))
tryit("a[0:2] = a[2:4].bit_select(a[2],2)", lambda m,a: m.d.comb.__iadd__(a[0:2].eq(a[2:4].bit_select(a[2], 2))))
tryit("a = a.bit_select(a[3:],2)", lambda m,a: m.d.comb.__iadd__(a.eq(a.bit_select(a[3:], 2))))
tryit("a[:2] = (a >> 1)[2:]", lambda m,a: m.d.comb.__iadd__(a[:2].eq((a >> C(1,1))[2:])))
