import warnings; warnings.simplefilter("ignore")
import random, sys, collections
from amaranth.hdl import *
from amaranth.sim import Simulator
from amaranth.lib.fifo import *

def sync_walk(cls, depth, width, seed, steps=400):
    rng = random.Random(seed)
    f = cls(width=width, depth=depth)
    m = Module(); m.submodules.f = f; m.d.sync += Signal(name="dummy").eq(1)
    sim = Simulator(m); sim.add_clock(Period(MHz=1))
    issues = []
    async def tb(ctx):
        q = collections.deque()
        age = {}   # cycles since oldest became oldest
        oldest_wait = 0
        for t in range(steps):
            w_en = rng.random() < rng.choice([0.2, 0.8]); r_en = rng.random() < rng.choice([0.2, 0.8]); d = rng.getrandbits(width) if width else 0
            ctx.set(f.w_en, w_en); ctx.set(f.w_data, d); ctx.set(f.r_en, r_en)
            w_rdy, r_rdy, r_data = ctx.get(f.w_rdy), ctx.get(f.r_rdy), ctx.get(f.r_data)
            lv = [ctx.get(f.level), ctx.get(f.r_level), ctx.get(f.w_level)]
            if any(l != len(q) for l in lv): issues.append(("level", t, lv, len(q)))
            if r_rdy and not q: issues.append(("r_rdy-empty", t))
            if r_rdy and q and r_data != q[0]: issues.append(("r_data", t, r_data, q[0]))
            if w_rdy and len(q) >= f.depth: issues.append(("w_rdy-full", t))
            free = f.depth - len(q)
            need = 1 if cls is SyncFIFO else 2
            if free >= need and not w_rdy and f.depth > 0 and not (cls is SyncFIFOBuffered and f.depth == 1 and free < 1): issues.append(("not-live-w", t, free))
            if q and not r_rdy:
                oldest_wait += 1
                if oldest_wait > 2: issues.append(("not-live-r", t, oldest_wait))
            else: oldest_wait = 0
            if r_rdy and r_en: q.popleft(); oldest_wait = 0
            if w_rdy and w_en: q.append(d)
            await ctx.tick()
            if len(issues) > 3: break
    sim.add_testbench(tb); sim.run()
    return issues

def async_walk(cls, depth, width, seed, steps=600):
    rng = random.Random(seed)
    f = cls(width=width, depth=depth)
    m = Module(); m.submodules.f = f
    m.domains.read = cdr = ClockDomain(); m.domains.write = cdw = ClockDomain()
    sim = Simulator(m)
    issues = []
    async def tb(ctx):
        q = collections.deque()
        for t in range(steps):
            w_en = rng.random() < rng.choice([0.2, 0.9]); r_en = rng.random() < rng.choice([0.2, 0.9]); d = rng.getrandbits(width) if width else 0
            ctx.set(f.w_en, w_en); ctx.set(f.w_data, d); ctx.set(f.r_en, r_en)
            w_rdy, r_rdy, r_data = ctx.get(f.w_rdy), ctx.get(f.r_rdy), ctx.get(f.r_data)
            rl, wl = ctx.get(f.r_level), ctx.get(f.w_level)
            if not (0 <= rl <= f.depth and 0 <= wl <= f.depth): issues.append(("level-range", t, rl, wl, f.depth))
            if r_rdy and not q: issues.append(("r_rdy-empty", t))
            if r_rdy and q and r_data != q[0]: issues.append(("r_data", t, r_data, q[0]))
            if w_rdy and len(q) >= f.depth: issues.append(("w_rdy-full", t, len(q)))
            ev = rng.choice(["w", "r", "both"])
            do_w = ev in ("w", "both") and w_rdy and w_en
            do_r = ev in ("r", "both") and r_rdy and r_en
            # rising edges
            if ev == "w": ctx.set(cdw.clk, 1)
            elif ev == "r": ctx.set(cdr.clk, 1)
            else: ctx.set(Cat(cdw.clk, cdr.clk), 3)
            if do_r: q.popleft()
            if do_w: q.append(d)
            if ev == "w": ctx.set(cdw.clk, 0)
            elif ev == "r": ctx.set(cdr.clk, 0)
            else: ctx.set(Cat(cdw.clk, cdr.clk), 0)
            if len(issues) > 3: break
        # drain liveness: stop writing, give edges
        ctx.set(f.w_en, 0); ctx.set(f.r_en, 0)
        for _ in range(12):
            ctx.set(Cat(cdw.clk, cdr.clk), 3); ctx.set(Cat(cdw.clk, cdr.clk), 0)
        if q and not ctx.get(f.r_rdy): issues.append(("not-live", len(q)))
    sim.add_testbench(tb); sim.run()
    return issues

tot = 0
for cls in (SyncFIFO, SyncFIFOBuffered):
    for depth in (0, 1, 2, 3, 4, 5, 8):
        for width in (0, 1, 4):
            for seed in range(3):
                iss = sync_walk(cls, depth, width, seed); tot += 1
                if iss: print(cls.__name__, depth, width, seed, iss[:3])
for cls in (AsyncFIFO, AsyncFIFOBuffered):
    for depth in (0, 2, 3, 4, 5, 8, 9):
        for width in (0, 1, 4):
            for seed in range(3):
                try: iss = async_walk(cls, depth, width, seed); tot += 1
                except Exception as e: iss = [("crash", type(e).__name__, str(e)[:80])]
                if iss: print(cls.__name__, depth, width, seed, iss[:3])
print("walks", tot)
