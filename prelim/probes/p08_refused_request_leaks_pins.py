import warnings; warnings.simplefilter("ignore")
from amaranth.build import *
from amaranth.build.res import ResourceManager, ResourceError
rm = ResourceManager(resources=[
    Resource("a", 0, Pins("P1", dir="i")),
    Resource("b", 0, Subsignal("x", Pins("P2", dir="i")), Subsignal("y", Pins("P1", dir="i"))),  # y conflicts with a
    Resource("c", 0, Pins("P2", dir="i")),  # shares P2 with b.x
], connectors=[])
rm.request("a", 0, dir="-")
try:
    rm.request("b", 0, dir="-")
except ResourceError as e:
    print("b refused:", e)
print("phys_reqd after refused b:", dict(rm._phys_reqd))
try:
    rm.request("c", 0, dir="-")
    print("c granted")
except ResourceError as e:
    print("c refused (should be granted, P2 was never granted):", e)
