import warnings; warnings.simplefilter("ignore")
from amaranth.hdl import *
from amaranth.lib import data, enum as aenum
class ES(aenum.Enum, shape=signed(3)): N = -2; Z = 0; P = 3
class EU(aenum.Enum, shape=3): A = 0; B = 5
for name, lay in [("struct{unsigned enum}", data.StructLayout({"e": EU})), ("struct{signed enum}", data.StructLayout({"e": ES})),
                  ("array[signed enum]", data.ArrayLayout(ES, 2)), ("struct{signed int}", data.StructLayout({"e": signed(3)}))]:
    try:
        s = Signal(lay); print(name, "Signal ok;", end=" ")
    except Exception as e:
        print(name, "Signal ->", type(e).__name__, str(e)[:60], end="; ")
    try:
        v = data.View(lay, Signal(lay.size))
        f = v["e"] if not isinstance(lay, data.ArrayLayout) else v[0]
        print("view field ok", Value.cast(f).shape())
    except Exception as e:
        print("view field ->", type(e).__name__, str(e)[:60])
c = data.StructLayout({"e": ES}).const({"e": ES.N})
print("const works:", c.as_bits(), c["e"])
