import warnings; warnings.simplefilter("ignore")
from amaranth.hdl import *
from amaranth.lib.fifo import *
from amaranth.back import rtlil
for cls, d in [(AsyncFIFO, 0), (AsyncFIFO, 1), (AsyncFIFO, 2), (AsyncFIFO,3), (AsyncFIFOBuffered, 0), (AsyncFIFOBuffered, 1), (AsyncFIFOBuffered, 2), (AsyncFIFOBuffered, 3), (SyncFIFO,0),(SyncFIFO,1),(SyncFIFOBuffered,1),(SyncFIFOBuffered,2)]:
    try:
        f = cls(width=4, depth=d)
        Fragment.get(f, None).prepare()
        print(cls.__name__, d, "-> depth", f.depth, "ok")
    except Exception as e:
        print(cls.__name__, d, "->", type(e).__name__, e)
