import warnings; warnings.simplefilter("ignore")
import random, sys
sys.path.insert(0, __import__("os").path.dirname(__file__))
from p10_operator_differential import ref, norm, fits, gen as gen_expr
from amaranth.hdl import *
from amaranth.hdl._ast import Operator, Slice, Part, Concat, SwitchValue, Signal, Const
from amaranth.sim import Simulator

# abstract program: list of stmts; stmt = ("assign", lhs_builder, rhs_expr) | ("if", [(cond, body)...], else_body|None) | ("switch", test, [(patterns|None, body)])
def gen_lhs(rng, targets, inputs, d):
    t = rng.choice(targets)
    k = rng.random()
    if d == 0 or k < 0.4: return t
    base = gen_lhs(rng, targets, inputs, d-1)
    n = len(base)
    if k < 0.6:
        i = rng.randint(0, n); j = rng.randint(i, n); return base[i:j]
    if k < 0.75:
        off = rng.choice(inputs)
        if off.shape().signed: off = off.as_unsigned()
        return base.bit_select(off, rng.randint(0, 3)) if rng.random() < 0.5 else base.word_select(off, rng.randint(1, 3))
    if k < 0.88:
        used = {id(x) for x in base._lhs_signals()}
        for _ in range(5):
            other = gen_lhs(rng, targets, inputs, d-1)
            if not (used & {id(x) for x in other._lhs_signals()}):
                return Cat(base, other)
        return base
    if k < 0.94:
        return base.as_signed() if len(base) else base
    idx = rng.choice(inputs)
    if idx.shape().signed: idx = idx.as_unsigned()
    idx = idx[:2]
    elems = [gen_lhs(rng, targets, inputs, d-1) for _ in range(rng.randint(1, 1 << len(idx)) if len(idx) else 1)]
    return Value.cast(Array(elems)[idx])

def gen_stmts(rng, targets, inputs, d, n):
    out = []
    for _ in range(n):
        k = rng.random()
        if d == 0 or k < 0.5:
            out.append(("assign", gen_lhs(rng, targets, inputs, 2), Value.cast(gen_expr(rng, inputs, 2))))
        elif k < 0.8:
            branches = [(Value.cast(gen_expr(rng, inputs, 1)), gen_stmts(rng, targets, inputs, d-1, rng.randint(0, 2))) for _ in range(rng.randint(1, 3))]
            els = gen_stmts(rng, targets, inputs, d-1, rng.randint(0, 2)) if rng.random() < 0.5 else None
            out.append(("if", branches, els))
        else:
            test = Value.cast(gen_expr(rng, inputs, 1)); n_ = len(test)
            cases = []
            for _ in range(rng.randint(0, 3)):
                pats = []
                for _ in range(rng.randint(1, 2)):
                    if rng.random() < 0.5: pats.append("".join(rng.choice("01-") for _ in range(n_)))
                    elif test.shape().signed: pats.append(rng.randint(-(1 << (n_-1)), (1 << (n_-1)) - 1))
                    else: pats.append(rng.randint(0, (1 << n_) - 1))
                cases.append((tuple(pats), gen_stmts(rng, targets, inputs, d-1, rng.randint(0, 2))))
            if rng.random() < 0.5: cases.append((None, gen_stmts(rng, targets, inputs, d-1, rng.randint(0, 2))))
            out.append(("switch", test, cases))
    return out

def build(m, dom, stmts):
    for s in stmts:
        if s[0] == "assign":
            m.d[dom] += s[1].eq(s[2])
        elif s[0] == "if":
            for i, (c, body) in enumerate(s[1]):
                with (m.If(c) if i == 0 else m.Elif(c)):
                    build(m, dom, body)
            if s[2] is not None:
                with m.Else():
                    build(m, dom, s[2])
        else:
            with m.Switch(s[1]):
                for pats, body in s[2]:
                    with (m.Default() if pats is None else m.Case(*pats)):
                        build(m, dom, body)

# reference: per-bit writes on dict id(sig)->int (bit patterns, unsigned)
def assign_ref(lhs, start, val, length, env, nxt):
    # writes val[0:length] into lhs[start:start+length], clipped to lhs
    n = len(lhs)
    if start >= n: return
    if start + length > n: length = n - start
    if length <= 0: return
    val &= (1 << length) - 1
    if isinstance(lhs, Signal):
        cur = nxt[id(lhs)] & ((1 << n) - 1)
        mask = ((1 << length) - 1) << start
        cur = (cur & ~mask) | (val << start)
        nxt[id(lhs)] = norm(cur, lhs.shape())
    elif isinstance(lhs, Operator): assign_ref(lhs.operands[0], start, val, length, env, nxt)
    elif isinstance(lhs, Slice): assign_ref(lhs.value, start + lhs.start, val, length, env, nxt)
    elif isinstance(lhs, Part):
        off = ref(lhs.offset, env) * lhs.stride
        assign_ref(lhs.value, start + off, val, length, env, nxt)
    elif isinstance(lhs, Concat):
        pos = 0
        for p in lhs.parts:
            lo = max(start, pos); hi = min(start + length, pos + len(p))
            if lo < hi: assign_ref(p, lo - pos, val >> (lo - start), hi - lo, env, nxt)
            pos += len(p)
    elif isinstance(lhs, SwitchValue):
        t = ref(lhs.test, env) & ((1 << len(lhs.test)) - 1)
        for pats, v in lhs.cases:
            if pats is None or any(all(c == "-" or int(c) == ((t >> (len(p)-1-i)) & 1) for i, c in enumerate(p)) for p in pats):
                assign_ref(v, start, val, length, env, nxt); return
    else: raise TypeError(lhs)

def pat_match(test_e, pats, env):
    t = ref(test_e, env); n = len(test_e); tb = t & ((1 << n) - 1)
    for p in pats:
        if isinstance(p, str):
            p = "".join(p.split())
            if all(c == "-" or int(c) == ((tb >> (n-1-i)) & 1) for i, c in enumerate(p)): return True
        else:
            if t == p: return True   # integer pattern compares as value in test's shape
    return False

def exec_ref(stmts, env, nxt):
    for s in stmts:
        if s[0] == "assign":
            v = ref(s[2], env)
            assign_ref(s[1], 0, v, len(s[1]), env, nxt)   # python >> / & give sign/zero extension + truncation
        elif s[0] == "if":
            for c, body in s[1]:
                if ref(c, env) != 0:
                    exec_ref(body, env, nxt); break
            else:
                if s[2] is not None: exec_ref(s[2], env, nxt)
        else:
            for pats, body in s[2]:
                if pats is None or pat_match(s[1], pats, env):
                    exec_ref(body, env, nxt); break

def main(seed, N):
    rng = random.Random(seed); bad = {}
    for it in range(N):
        inputs = [Signal(Shape(w, w > 0 and rng.random() < 0.5), name=f"i{i}") for i, w in enumerate(rng.choices(range(0, 5), k=3))]
        dom = rng.choice(["comb", "sync"])
        targets = [Signal(Shape(w, w > 0 and rng.random() < 0.5), name=f"t{i}", init=rng.randint(0, 3) if w >= 2 else 0) for i, w in enumerate(rng.choices(range(0, 6), k=2))]
        try:
            stmts = gen_stmts(rng, targets, inputs, 2, rng.randint(1, 4))
            m = Module(); build(m, dom, stmts)
            m.d.sync += Signal(name="dummy").eq(1)
            sim = Simulator(m)
        except (TypeError, ValueError, IndexError, SyntaxError) as ex:
            continue
        sim.add_clock(Period(MHz=1))
        vecs = [[norm(rng.getrandbits(8), s.shape()) for s in inputs] for _ in range(5)]
        got = []
        async def tb(ctx):
            for v in vecs:
                for s, x in zip(inputs, v): ctx.set(s, x)
                if dom == "sync": await ctx.tick()
                got.append([ctx.get(t) for t in targets])
        sim.add_testbench(tb)
        try: sim.run()
        except Exception as ex:
            bad.setdefault("crash:" + type(ex).__name__ + ":" + str(ex)[:60], []).append(it); continue
        state = {id(t): t.init for t in targets}
        for v, g in zip(vecs, got):
            env = {id(s): x for s, x in zip(inputs, v)}
            env.update(state)
            nxt = dict(state) if dom == "sync" else {id(t): t.init for t in targets}
            exec_ref(stmts, env, nxt)
            exp = [nxt[id(t)] for t in targets]
            if exp != g:
                bad.setdefault("mismatch", []).append((it, dom, v, g, exp, repr(m._statements)[:300])); break
            if dom == "sync": state = nxt
    for k, vs in bad.items():
        print(k, len(vs))
        for x in vs[:4]: print("   ", x)
    print("done", N)
main(int(sys.argv[1]), int(sys.argv[2]))
