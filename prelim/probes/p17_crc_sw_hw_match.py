import warnings; warnings.simplefilter("ignore")
import random
from amaranth.hdl import *
from amaranth.sim import Simulator
from amaranth.lib import crc
from amaranth.lib.crc import Algorithm, catalog

def reflect(x, n): return int(f"{x:0{n}b}"[::-1], 2) if n else 0
def williams(a, dw, words):
    """bit-serial Rocksoft model on a crc_width register"""
    w = a.crc_width; reg = a.initial_crc; top = 1 << (w-1); mask = (1<<w)-1
    for word in words:
        bits = [(word >> i) & 1 for i in range(dw)]          # LSB first
        if not a.reflect_input: bits = bits[::-1]             # MSB first
        for b in bits:
            t = ((reg & top) != 0) ^ b
            reg = (reg << 1) & mask
            if t: reg ^= a.polynomial
    if a.reflect_output: reg = reflect(reg, w)
    return reg ^ a.xor_output

rng = random.Random(5)
bad = 0; n = 0
algos = [getattr(catalog, k) for k in dir(catalog) if isinstance(getattr(catalog, k), Algorithm)]
print("catalogue entries (names):", len(algos))
for a in algos:
    for dw in (1, 3, 8, a.crc_width, a.crc_width + 5):
        words = [rng.getrandbits(dw) for _ in range(rng.randint(0, 6))]
        n += 1
        if a(dw).compute(words) != williams(a, dw, words): bad += 1; print("MISMATCH", a, dw, words)
for _ in range(3000):
    w = rng.randint(1, 20); dw = rng.randint(1, 24)
    a = Algorithm(crc_width=w, polynomial=rng.getrandbits(w), initial_crc=rng.getrandbits(w), reflect_input=rng.random()<.5, reflect_output=rng.random()<.5, xor_output=rng.getrandbits(w))
    words = [rng.getrandbits(dw) for _ in range(rng.randint(0, 5))]
    n += 1
    if a(dw).compute(words) != williams(a, dw, words): bad += 1; print("MISMATCH", a, dw, words)
print("software:", n, "cases, bad", bad)

def hw_run(a, dw, script):
    """script: list of (start, valid, data); returns crc and match_detected observed after each cycle"""
    p = a(dw).create()
    sim = Simulator(p); sim.add_clock(Period(MHz=1)); out = []
    async def tb(ctx):
        for st, va, d in script:
            ctx.set(p.start, st); ctx.set(p.valid, va); ctx.set(p.data, d)
            await ctx.tick()
            out.append((ctx.get(p.crc), ctx.get(p.match_detected)))
    sim.add_testbench(tb); sim.run(); return out

bad = 0; n = 0
for _ in range(150):
    w = rng.randint(1, 12); dw = rng.randint(1, 10)
    a = Algorithm(crc_width=w, polynomial=rng.getrandbits(w), initial_crc=rng.getrandbits(w), reflect_input=rng.random()<.5, reflect_output=rng.random()<.5, xor_output=rng.getrandbits(w))
    script = [(int(rng.random()<.2), int(rng.random()<.6), rng.getrandbits(dw)) for _ in range(20)]
    obs = hw_run(a, dw, script)
    words = []
    for (st, va, d), (c, _) in zip(script, obs):
        if st: words = []          # start: restart from initial before this word
        if va: words.append(d)
        exp = a(dw).compute(words); n += 1
        if c != exp: bad += 1; print("HW MISMATCH", a, dw, script[:5], c, exp); break
print("hardware:", n, "cycle checks, bad", bad)

# match_detected: message + own crc (crc_width multiple of data width), and wrong trailers
def trailer_words(a, dw, c):
    k = a.crc_width // dw
    ws = [(c >> (i*dw)) & ((1<<dw)-1) for i in range(k)]
    return ws if a.reflect_output else ws[::-1]   # transmission order: reflected -> LSW first
bad_true = bad_false = n = 0; even_false = 0
for _ in range(120):
    dw = rng.choice([1, 2, 4, 8]); k = rng.randint(1, 3); w = dw * k
    even = rng.random() < 0.3
    poly = rng.getrandbits(w) | 1
    if even: poly &= ~1
    ri = rng.random() < .5
    a = Algorithm(crc_width=w, polynomial=poly, initial_crc=rng.getrandbits(w), reflect_input=ri, reflect_output=ri, xor_output=rng.getrandbits(w))
    msg = [rng.getrandbits(dw) for _ in range(rng.randint(0, 4))]
    c = a(dw).compute(msg)
    good = msg + trailer_words(a, dw, c)
    obs = hw_run(a, dw, [(int(i==0), 1, d) for i, d in enumerate(good)]); n += 1
    if not obs[-1][1]: bad_true += 1; print("NO MATCH on own crc", a, dw, msg)
    wrong_c = c ^ (1 << rng.randrange(w))
    wrong = msg + trailer_words(a, dw, wrong_c)
    obs = hw_run(a, dw, [(int(i==0), 1, d) for i, d in enumerate(wrong)])
    if obs[-1][1]:
        if even: even_false += 1
        else: bad_false += 1; print("FALSE MATCH (odd poly)", a, dw, msg)
print("match:", n, "own-crc misses", bad_true, "false matches odd-poly", bad_false, "false matches even-poly", even_false)
