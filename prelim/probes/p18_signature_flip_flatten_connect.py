import warnings; warnings.simplefilter("ignore")
import random
from amaranth.hdl import *
from amaranth.sim import Simulator
from amaranth.lib import wiring, data, enum as aenum
from amaranth.lib.wiring import In, Out, Signature, connect, flipped

rng = random.Random(7)
def gen_sig(d):
    members = {}
    for i in range(rng.randint(1, 3)):
        name = f"m{i}"
        flow = rng.choice([In, Out])
        if d > 0 and rng.random() < 0.4:
            sub = gen_sig(d-1)
            if rng.random() < 0.3: sub = sub.flip()
            m = flow(sub)
        else:
            w = rng.randint(0, 4); s = w > 0 and rng.random() < .3
            shape = Shape(w, s)
            init = rng.randint(0, (1 << w) - 1) if (w and not s and rng.random() < .4) else None
            m = flow(shape, init=init)
        dims = tuple(rng.randint(0, 2) for _ in range(rng.choice([0, 0, 1, 2])))
        if dims and m.is_port: m = m.array(*dims)     # F10: arrays of sub-interfaces break flipped interfaces
        members[name] = m
    return Signature(members)

def eff_leaves(sig, obj, flip=False, path=()):
    """reference: effective direction of every leaf, independent implementation"""
    out = []
    for name, m in sig.members.items() if not isinstance(sig, wiring.FlippedSignature) else sig.flip().members.items():
        pass
    return out

def ref_flatten(sig, flipped_=False, path=()):
    # work on unflipped signature + a flip flag
    if isinstance(sig, wiring.FlippedSignature): return ref_flatten(sig.flip(), not flipped_, path)
    res = []
    for name, m in sig._Signature__members._dict.items():
        flow = m._flow
        if flipped_: flow = flow.flip()
        def dims(ds, p):
            if not ds: return [p]
            r = []
            for i in range(ds[0]): r += dims(ds[1:], p + (i,))
            return r
        for p in dims(m._dimensions, path + (name,)):
            if isinstance(m._description, (Signature, wiring.FlippedSignature)):
                res += ref_flatten(m._description, flow == In, p)   # In member: nested signature seen flipped
            else:
                res.append((p, flow))
    return res

bad = {}
for it in range(1500):
    sig = gen_sig(3)
    try:
        obj = sig.create()
    except Exception as e:
        bad.setdefault("create:" + type(e).__name__, []).append(repr(sig)); continue
    # flip twice
    if not (sig.flip().flip() is sig or sig.flip().flip() == sig): bad.setdefault("flipflip", []).append(repr(sig))
    # compliance
    if not sig.is_compliant(obj): bad.setdefault("noncompliant", []).append(repr(sig))
    fl = [(p, m.flow) for p, m, v in sig.flatten(obj)]
    rf = ref_flatten(sig)
    if fl != rf: bad.setdefault("flatten", []).append((repr(sig), fl[:4], rf[:4]))
    fobj = sig.flip().create()
    ff = [(p, m.flow) for p, m, v in sig.flip().flatten(fobj)]
    if ff != [(p, f.flip()) for p, f in rf]: bad.setdefault("flatten-flip", []).append(repr(sig))
    # connect obj with a flipped twin: every In leaf follows the Out leaf
    a = sig.create(path=("a",)); b = sig.flip().create(path=("b",))
    m = Module()
    try:
        if rng.random() < .5: connect(m, a, b)
        else: connect(m, b, a)
    except wiring.ConnectionError as e:
        if "Only input to input" in str(e) or not rf: continue
        bad.setdefault("connect-error", []).append((repr(sig), str(e)[:80])); continue
    leaves_a = {p: v for p, mm, v in sig.flatten(a)}; leaves_b = {p: v for p, mm, v in sig.flip().flatten(b)}
    sim = Simulator(m); fails = []
    async def tb(ctx):
        for p, flow in rf:
            src, dst = (leaves_a[p], leaves_b[p]) if flow == Out else (leaves_b[p], leaves_a[p])
            if len(src) == 0: continue
            v = rng.getrandbits(len(src))
            ctx.set(src, v)
            got = ctx.get(dst) & ((1 << len(src)) - 1)
            if got != v: fails.append((p, v, got))
    sim.add_testbench(tb)
    try: sim.run()
    except Exception as e: bad.setdefault("sim:" + type(e).__name__ + str(e)[:60], []).append(repr(sig)); continue
    if fails: bad.setdefault("dataflow", []).append((repr(sig), fails[:3]))
for k, v in bad.items(): print(k, len(v), str(v[0])[:300])
print("done")
