import warnings; warnings.simplefilter("ignore")
from amaranth.hdl import *
from amaranth.sim import Simulator

def run(expr_fn, sigs, vals, w=8):
    m = Module()
    out = Signal(w)
    e = expr_fn()
    m.d.comb += out.eq(e)
    sim = Simulator(m)
    res = {}
    async def tb(ctx):
        for s, v in zip(sigs, vals):
            ctx.set(s, v)
        res['circuit'] = ctx.get(out)
        res['tbget'] = ctx.get(e) & ((1<<w)-1)
    sim.add_testbench(tb)
    sim.run()
    return res

a = Signal(4); off = Signal(3); s = Signal(signed(4))
print("(~a).bit_select(off,4), a=0, off=2 ->", run(lambda: (~a).bit_select(off, 4), [a, off], [0, 2]), "expect 0b0011=3")
print("a.as_signed().bit_select(off,4), a=8, off=2 ->", run(lambda: a.as_signed().bit_select(off, 4), [a, off], [8, 2]), "expect 0b1110=14")
print("s.as_unsigned().bit_select(off,4), s=-8, off=2 ->", run(lambda: s.as_unsigned().bit_select(off, 4), [s, off], [-8, 2]), "expect 0b0010=2")
print("(~a).word_select(off,2), a=0, off=3 ->", run(lambda: (~a).word_select(off, 2), [a, off], [0, 3]), "expect 0")
print("(a>>1)... ", run(lambda: (~a) >> off, [a, off], [0, 1]), "expect 7")
print("(~a) // 2: ", run(lambda: (~a) // C(2,2), [a], [0]), "expect 7")
print("-(~a): ", run(lambda: -(~a), [a], [0]), "expect -15 &0xff = 241")
print("(~a)==15: ", run(lambda: (~a) == 15, [a], [0]), "expect 1")
print("Mux(sel, ~a, 0) ", run(lambda: Mux(off, ~a, 0), [a, off], [0, 1]), "expect 15")
print("a.as_signed() >> off: a=8, off=1 ", run(lambda: a.as_signed() >> off, [a, off], [8, 1]), "expect -4&0xff=252")
print("Cat(a,a).as_signed() + 0", run(lambda: Cat(a, a).as_signed() + 0, [a], [15], w=12), "expect -1 & 0xfff = 4095")
print("a[1:].as_signed() + 0", run(lambda: a[1:].as_signed() + 0, [a], [15]), "expect 255")
