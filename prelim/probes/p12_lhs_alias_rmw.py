import warnings; warnings.simplefilter("ignore")
from amaranth.hdl import *
from amaranth.sim import Simulator
from amaranth.back import rtlil
t = Signal(4, init=0b0101); off = Signal(2); v = Signal(1)
m = Module()
m.d.comb += Cat(t, t).bit_select(off, 1).eq(v)
sim = Simulator(m)
async def tb(ctx):
    ctx.set(off, 0); ctx.set(v, 0)
    print("compiled circuit: t =", bin(ctx.get(t)), "(addressed bit: cat bit0 = t[0] := 0 -> expect 0b100)")
sim.add_testbench(tb); sim.run()
# testbench path
t2 = Signal(4, init=0b0101); off2 = Signal(2)
m2 = Module(); m2.d.sync += Signal().eq(off2)
sim2 = Simulator(m2)
async def tb2(ctx):
    ctx.set(off2, 0); ctx.set(Cat(t2, t2).bit_select(off2, 1), 0)
    print("testbench set:    t =", bin(ctx.get(t2)))
sim2.add_testbench(tb2); sim2.run()
print([l.strip() for l in rtlil.convert(m, ports=[t, off, v], emit_src=False).splitlines() if l.strip().startswith(("assign","case","switch"))])
