import warnings; warnings.simplefilter("ignore")
from amaranth.hdl import *
from amaranth.sim import Simulator
from amaranth.lib.memory import Memory
from amaranth.back import rtlil
m = Module()
m.submodules.mem = mem = Memory(shape=4, depth=2, init=[5, 6])
rp = mem.read_port()  # sync
sim = Simulator(m)
sim.add_clock(Period(MHz=1))
cd = sim._design.fragment.domains["sync"]
async def tb(ctx):
    ctx.set(rp.addr, 1)
    await ctx.tick()
    print("after tick: data", ctx.get(rp.data), "reset_less:", rp.data.reset_less)
    ctx.set(cd.rst, 1)
    await ctx.tick()
    print("after tick with rst=1 (addr=1 -> row 6): data", ctx.get(rp.data))
sim.add_testbench(tb)
sim.run()
t = rtlil.convert(m, ports=[rp.addr, rp.data, rp.en])
print([l for l in t.splitlines() if "SRST" in l or "ARST" in l])
