import warnings; warnings.simplefilter("ignore")
from amaranth.hdl import *
from amaranth.build import *
from amaranth.lib import io
from amaranth.vendor import SiliconBluePlatform, LatticePlatform, GowinPlatform

class ICE(SiliconBluePlatform):
    device = "iCE40HX8K"; package = "CT256"; default_clk = "clk"
    resources = [Resource("clk", 0, Pins("J3", dir="i"), Clock(Period(MHz=12)), Attrs(GLOBAL=True, IO_STANDARD="SB_LVCMOS")),
                 Resource("led", 0, Pins("B5 B4", dir="o", conn=None)),
                 Resource("bus", 0, Subsignal("d", PinsN("1 2", dir="io", conn=("pmod", 0))), Subsignal("ck", DiffPairs("A1", "A2", dir="o")))]
    connectors = [Connector("pmod", 0, "C1 C2 - C3")]
class ECP(LatticePlatform):
    device = "LFE5U-25F"; package = "BG381"; speed = "6"; default_clk = "clk"
    resources = ICE.resources; connectors = ICE.connectors
class GW(GowinPlatform):
    part = "GW1NR-LV9QN88PC6/I5"; family = "GW1NR-9C"; default_clk = "clk"
    resources = ICE.resources; connectors = ICE.connectors
    def parse_part(self): super().parse_part()

class Top(Elaboratable):
    def elaborate(self, platform):
        m = Module()
        led = platform.request("led", 0, dir="-")
        m.submodules.b = b = io.Buffer("o", led)
        c = Signal(2)
        m.d.sync += c.eq(c + 1)
        m.d.comb += b.o.eq(c)
        return m
for P in (ICE, ECP, GW):
    try:
        p = P(toolchain={"ICE": "IceStorm", "ECP": "Trellis", "GW": "Apicula"}[P.__name__]) if P is not ICE else P()
        plan = p.build(Top(), do_build=False)
        for fn, content in plan.files.items():
            if fn.endswith((".pcf", ".lpf", ".cst")):
                print("==", P.__name__, fn); print(content if isinstance(content, str) else content.decode())
    except Exception as e:
        import traceback; print(P.__name__, "FAILED", type(e).__name__, e)
