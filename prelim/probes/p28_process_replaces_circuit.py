import warnings; warnings.simplefilter("ignore")
import random, sys
sys.path.insert(0, "/verif/prelim/probes")
from p10_operator_differential import ref, norm, gen as gen_expr
from amaranth.hdl import *
from amaranth.sim import Simulator
rng = random.Random(4)
bad = []
for it in range(300):
    ins = [Signal(Shape(w, w > 0 and rng.random() < .5), name=f"i{k}") for k, w in enumerate(rng.choices(range(1, 5), k=3))]
    try:
        e = Value.cast(gen_expr(rng, ins, 2)); sh = e.shape()
        if sh.width == 0 or sh.width > 40: continue
    except Exception: continue
    kind = rng.choice(["comb", "sync"])
    traces = []
    for mode in ("circuit", "process"):
        o = Signal(sh, name="o")
        m = Module(); m.domains.sync = cd = ClockDomain(async_reset=False)
        m.d.sync += Signal(name="dummy").eq(1)
        if mode == "circuit":
            if kind == "comb": m.d.comb += o.eq(e)
            else: m.d.sync += o.eq(e)
        sim = Simulator(m); sim.add_clock(Period(MHz=1))
        if mode == "process":
            if kind == "comb":
                async def proc(ctx):
                    async for vals in ctx.changed(*ins):
                        ctx.set(o, ref(e, {id(s): v for s, v in zip(ins, vals)}))
            else:
                async def proc(ctx):
                    async for clk, rst, *vals in ctx.tick().sample(*ins):
                        if rst: ctx.set(o, 0)
                        elif clk: ctx.set(o, ref(e, {id(s): v for s, v in zip(ins, vals)}))
            sim.add_process(proc)
        r2 = random.Random(it); tr = []
        async def tb(ctx):
            tr.append(ctx.get(o))
            for t in range(12):
                for s in ins:
                    if r2.random() < .6: ctx.set(s, norm(r2.getrandbits(6), s.shape()))
                if r2.random() < .15: ctx.set(cd.rst, 1)
                elif r2.random() < .5: ctx.set(cd.rst, 0)
                tr.append(ctx.get(o))
                if kind == "sync" or r2.random() < .3:
                    await ctx.tick(); tr.append(ctx.get(o))
        sim.add_testbench(tb); sim.run(); traces.append(tr)
    if traces[0] != traces[1]: bad.append((kind, repr(e)[:120], traces[0][:8], traces[1][:8]))
print("cases", it + 1, "differences", len(bad)); [print("  ", b) for b in bad[:5]]
