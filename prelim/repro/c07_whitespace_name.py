"""F23: a signal (or port, submodule) name containing white space is printed verbatim; RTLIL identifiers end at
white space, so the emitted text is not RTLIL (`wire width 1 input 0  \\a b`).
Run: PYTHONPATH=/repo /venv/bin/python c07_whitespace_name.py   (exit 1 = defect present)"""
import sys, warnings; warnings.simplefilter("ignore")
from amaranth.hdl import *
from amaranth.back import rtlil
m = Module(); a = Signal(name="a b"); o = Signal(name="o")
m.d.comb += o.eq(a)
try:
    text = rtlil.convert(m, ports=[a, o], emit_src=False)
except NameError as e:
    print("ok: rejected:", e); sys.exit(0)
bad = [l for l in text.splitlines() if l.strip().startswith("wire") and len(l.split()) != len(l.replace("\\a b", "\\a_b").split())]
print("DEFECT: unparseable line(s):", bad); sys.exit(1)
