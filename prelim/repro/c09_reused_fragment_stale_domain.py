"""F36: converting the same design object twice; the design owns a plain `Fragment` (hand-built, or obtained once by
`Fragment.get`) whose statements use an implicitly created clock domain.  The first elaboration puts the ClockDomain it
created into that Fragment (`_propagate_domains_down`; `_create_missing_domains` when the Fragment is the top itself);
on the second elaboration the Fragment "already defines" the domain, so no domain is created, `clk`/`rst` are not ports
any more and the registers are clocked by constant 0.  (F32 was the same mechanism on Instance objects; its repair does
not cover plain Fragments.)  Run with PYTHONPATH=<repo>."""
import difflib
import sys
from amaranth.hdl import Module, Signal, Fragment
from amaranth.back import rtlil

bad = 0


def twice(tag, top, ports):
    global bad
    t1 = rtlil.convert(top, ports=ports, emit_src=False)
    t2 = rtlil.convert(top, ports=ports, emit_src=False)
    if t1 == t2:
        print(f"{tag}: same text twice")
        return
    bad += 1
    print(f"{tag}: the second conversion differs")
    for line in difflib.unified_diff(t1.splitlines(), t2.splitlines(), "conversion 1", "conversion 2", lineterm="", n=0):
        print("    " + line)


# 1. a hand-built Fragment as a submodule
a, o = Signal(4, name="a"), Signal(4, name="o")
fr = Fragment()
fr.add_statements("sync", o.eq(a + 1))
m = Module()
m.submodules.core = fr
twice("1. hand-built Fragment as submodule", m, [a, o])

# 2. the same Fragment object as the top-level design
a, o = Signal(4, name="a"), Signal(4, name="o")
fr = Fragment()
fr.add_statements("sync", o.eq(a + 1))
twice("2. hand-built Fragment as top", fr, [a, o])

# 3. Fragment.get() once, reused
a, o = Signal(4, name="a"), Signal(4, name="o")
inner = Module()
inner.d.sync += o.eq(a + 1)
fr = Fragment.get(inner, None)
m = Module()
m.submodules.core = fr
twice("3. Fragment.get(module, None) obtained once, as submodule", m, [a, o])

if bad:
    print("REPRODUCED: the same design converts to different RTLIL the second time")
    sys.exit(1)
print("not reproduced")
