"""F24: a lib.data structured signal `s` with field `f` and another signal named `s.f` in the same module:
emit_signal_fields creates the alias wire `\\s.f` a second time -> bare AssertionError in back/rtlil.py Module._name.
Run: PYTHONPATH=/repo /venv/bin/python c07_field_wire_name_clash.py   (exit 1 = defect present)"""
import sys, warnings; warnings.simplefilter("ignore")
from amaranth.hdl import *
from amaranth.lib import data
from amaranth.back import rtlil
m = Module()
s = Signal(data.StructLayout({"f": 2, "g": 1}), name="s"); x = Signal(2, name="s.f"); o = Signal(5, name="o")
m.d.comb += o.eq(Cat(s.as_value(), x))
try:
    text = rtlil.convert(m, ports=[o], emit_src=False)
except AssertionError:
    print("DEFECT: AssertionError in Module._name"); sys.exit(1)
print("ok")
