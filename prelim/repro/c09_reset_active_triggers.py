"""F21: `Simulator.reset()` does not clear `PySimEngine._active_triggers` (nor `_delta_cycles`).

`PySimEngine.advance()` ends with `timeline.advance()`, which fires the expired delay wakers; a fired trigger
is queued in `_active_triggers` until the next `step_design()`.  When `run_until()` stops right there and the
simulation is reset, the stale trigger survives; the rerun's first `step_design()` runs it and re-arms its
delay, so `Simulator.advance()` visits a point in time that a fresh simulator does not.

    PYTHONPATH=/repo /venv/bin/python prelim/repro/c09_reset_active_triggers.py

prints the (now, observations) pairs after each advance() for a fresh simulator and for one that was run until
17 fs and reset; exits 1 if they differ.
"""
import os
import sys
import warnings

warnings.simplefilter("ignore")
sys.path.insert(0, os.environ.get("VERIF_REPO", "/repo"))

from amaranth.hdl import Module, Signal          # noqa: E402
from amaranth.sim import Simulator, Period       # noqa: E402


def make():
    m = Module()
    a = Signal(4)
    b = Signal(4)
    m.d.comb += b.eq(a + 1)
    trace = []

    async def tb(ctx):
        await ctx.delay(Period(fs=10))
        trace.append(ctx.get(b))
        ctx.set(a, 3)
        await ctx.delay(Period(fs=7))
        trace.append(ctx.get(b))
        await ctx.delay(Period(fs=100))
        trace.append(ctx.get(b))
    sim = Simulator(m)
    sim.add_testbench(tb)
    return sim, trace


def steps(sim, trace, n=4):
    out = []
    for _ in range(n):
        sim.advance()
        out.append((sim._engine.now, len(trace)))
    return out


fresh, t0 = make()
ref = steps(fresh, t0)
sim, t1 = make()
sim.run_until(Period(fs=17))
print("queued triggers when run_until(17 fs) returns:", len(sim._engine._active_triggers),
      " delta cycles:", sim._engine._delta_cycles)
sim.reset()
print("after reset():                               ", len(sim._engine._active_triggers),
      " delta cycles:", sim._engine._delta_cycles)
del t1[:]
got = steps(sim, t1)
print("fresh simulator, (now, observations) after each advance():", ref)
print("after run_until(17 fs) + reset():                         ", got)
print("REPRODUCED: the rerun differs from a fresh simulator" if got != ref else "not reproduced")
sys.exit(1 if got != ref else 0)
