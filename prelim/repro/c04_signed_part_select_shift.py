"""F27: a part-select (bit_select / word_select with a non-constant offset) of a *signed* value is emitted as
`$shift` with A_SIGNED=1.  By the Yosys manual ("$shift: variable shifter, performs a right *logical* shift if
the second operand is positive (or unsigned)"; simlib.v: `assign Y = $signed(A) >> B;`) the operand is sign-extended
only to max(A_WIDTH, Y_WIDTH) and then shifted logically: zeros come in.  The simulator (and Part in the netlist IR)
read the sign bit above the MSB.  a = signed(4) = -1, off = 2, width 4: simulator 0b1111, `$shift` 0b0011.
Run: PYTHONPATH=/repo /venv/bin/python c04_signed_part_select_shift.py   (exit 1 = defect present)"""
import re, sys, warnings; warnings.simplefilter("ignore")
from amaranth.hdl import *
from amaranth.back import rtlil
from amaranth.sim import Simulator

def design():
    m = Module()
    a = Signal(signed(4), name="a"); off = Signal(2, name="off"); o = Signal(4, name="o")
    m.d.comb += o.eq(a.bit_select(off, 4))
    return m, a, off, o

m, a, off, o = design()
sim = Simulator(m)
got = {}
async def tb(ctx):
    ctx.set(a, -1); ctx.set(off, 2)
    got["sim"] = ctx.get(o)
sim.add_testbench(tb); sim.run()
m, a, off, o = design()
text = rtlil.convert(m, ports=[a, off, o], emit_src=False)
cell = re.search(r"cell (\$\w+) \$\d+\n((?:    parameter .*\n)+)", text)
kind = cell.group(1)
par = dict(re.findall(r"parameter \\(\w+) (\d+)", cell.group(2)))
print("simulator: o =", bin(got["sim"]))
print("emitted cell:", kind, par)
def shift_manual(a_bits, b, A_SIGNED, A_WIDTH, Y_WIDTH):      # Y = $signed(A) >> B in a context of max(A_WIDTH, Y_WIDTH) bits
    W = max(A_WIDTH, Y_WIDTH)
    ext = a_bits | (((1 << W) - (1 << A_WIDTH)) if A_SIGNED and (a_bits >> (A_WIDTH - 1)) & 1 else 0)
    return (ext >> b) & ((1 << Y_WIDTH) - 1)
def sshr_manual(a_bits, b, A_WIDTH, Y_WIDTH):                  # Y = $signed(A) >>> B
    v = a_bits - (1 << A_WIDTH) if (a_bits >> (A_WIDTH - 1)) & 1 else a_bits
    return (v >> b) & ((1 << Y_WIDTH) - 1)
if kind == "$shift" and par.get("A_SIGNED") == "1":
    y = shift_manual(0b1111, 2, 1, int(par["A_WIDTH"]), int(par["Y_WIDTH"]))
    print("$shift by the manual: o =", bin(y))
    if y != got["sim"]:
        print("DEFECT: RTLIL and simulator differ"); sys.exit(1)
elif kind == "$sshr":
    print("$sshr by the manual: o =", bin(sshr_manual(0b1111, 2, int(par["A_WIDTH"]), int(par["Y_WIDTH"]))))
print("ok")
