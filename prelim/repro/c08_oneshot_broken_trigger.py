"""C08: a one-shot `await ctx.changed(a, b)` (or `ctx.edge(..).edge(..)`, or `ctx.tick()` of an
async-reset domain: clock edge + reset edge) raises BrokenTrigger when the *second* signal changes
after the wait has completed but before the waiting testbench gets to run (another testbench that
runs earlier in the same instant writes it, or logic changes it one delta later).

BrokenTrigger is documented for `async for` loops only ("a matching event occurs while the body of
the loop is still executing"); a plain `await` has done nothing wrong and must return.

    PYTHONPATH=/repo /venv/bin/python /verif/prelim/repro/c08_oneshot_broken_trigger.py
"""
import warnings; warnings.simplefilter("ignore")
from amaranth.hdl import *
from amaranth.sim import Simulator

def case_two_testbenches():
    m = Module()
    a = Signal(); b = Signal()
    m.d.comb += Signal(name="o").eq(a ^ b)
    sim = Simulator(m)
    seen = []
    async def writer(ctx):
        await ctx.delay(Period(ns=1))
        ctx.set(a, 1)          # completes the reader's wait
        ctx.set(b, 1)          # the second element of the (completed) wait fires: trigger marked broken
    async def reader(ctx):
        seen.append(await ctx.changed(a, b))
    sim.add_testbench(writer); sim.add_testbench(reader)
    sim.run()
    return seen

def case_tick_async_reset():
    m = Module()
    m.domains.sync = cd = ClockDomain(async_reset=True)
    q = Signal(4); m.d.sync += q.eq(q + 1)
    sim = Simulator(m)
    seen = []
    async def driver(ctx):
        await ctx.delay(Period(ns=1))
        ctx.set(cd.clk, 1)     # the tick happens
        ctx.set(cd.rst, 1)     # reset asserted in the same instant, before `waiter` resumes
    async def waiter(ctx):
        seen.append(await ctx.tick())
    sim.add_testbench(driver); sim.add_testbench(waiter)
    sim.run()
    return seen

def case_logic_one_delta_later():
    m = Module()
    m.domains.sync = cd = ClockDomain()
    r = Signal(); c = Signal()
    m.d.sync += r.eq(~r); m.d.comb += c.eq(r)
    sim = Simulator(m); sim.add_clock(Period(MHz=1))
    seen = []
    async def tb(ctx):
        seen.append(await ctx.changed(r, c))   # r changes, c follows one delta later
    sim.add_testbench(tb)
    sim.run()
    return seen

bad = 0
for f in (case_two_testbenches, case_tick_async_reset, case_logic_one_delta_later):
    try:
        print(f.__name__, "->", f())
    except Exception as e:
        bad += 1
        print(f.__name__, "-> raises", type(e).__name__)
print("DEFECT" if bad else "ok")
