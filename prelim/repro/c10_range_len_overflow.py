"""F15 (C10): Shape.cast(range) calls len() on the range, which raises OverflowError for ranges
of 2**63 or more elements, so `Signal(range(2**64))` (a 64-bit counter) cannot be declared although
its narrowest shape, unsigned(64), exists like any other's.

Run: PYTHONPATH=/repo /venv/bin/python /verif/prelim/repro/c10_range_len_overflow.py
Expected after the repair (`if not obj:` instead of `if len(obj) == 0:`): prints the three shapes.
"""
import warnings
warnings.simplefilter("ignore")
from amaranth.hdl import Shape, Signal
from amaranth.hdl._mem import MemoryData

failed = 0
for what, f, want in [
    ("Shape.cast(range(2**63 - 1))", lambda: Shape.cast(range(2**63 - 1)), "unsigned(63)"),
    ("Shape.cast(range(2**63))", lambda: Shape.cast(range(2**63)), "unsigned(63)"),
    ("Shape.cast(range(-2**63, 2**63))", lambda: Shape.cast(range(-2**63, 2**63)), "signed(64)"),
    ("Signal(range(2**64), init=5).init", lambda: Signal(range(2**64), init=5).init, "5"),
    ("MemoryData(shape=range(2**64), depth=2, init=[7]).init", lambda: list(MemoryData(shape=range(2**64), depth=2, init=[7]).init), "[7, 0]"),
]:
    try:
        got = repr(f())
    except Exception as e:
        got = f"{type(e).__name__}: {e}"
    ok = got == want
    failed += not ok
    print(f"{'ok  ' if ok else 'FAIL'} {what} -> {got} (expected {want})")
raise SystemExit(1 if failed else 0)
