"""F16 - FlagView.__invert__ under boundary KEEP / EJECT complements every bit of the shape; Python's
enum.Flag complements within _all_bits_ = 2**flag_mask.bit_length() - 1.

Run: PYTHONPATH=/repo /venv/bin/python c15_flag_invert_keep.py
Only when the shape is wider than the declared flags need. tests/test_lib_enum.py:284 pins the current
expression `(~ (sig e))`, so the finding is recorded rather than repaired.
"""
import warnings; warnings.simplefilter("ignore")
import enum as py_enum
from amaranth.hdl import Signal, Module
from amaranth.lib import enum
from amaranth.sim import Simulator

bad = 0
for boundary in (py_enum.KEEP, py_enum.EJECT, py_enum.STRICT, py_enum.CONFORM):
    class F(enum.Flag, shape=4, boundary=boundary):
        A = 1
        B = 2

    class PF(py_enum.Flag, boundary=boundary):
        A = 1
        B = 2

    a = Signal(F)
    m = Module()
    m.d.comb += Signal(4).eq((~a).as_value())
    got = {}

    async def tb(ctx):
        for x in range(4):
            ctx.set(a.as_value(), x)
            got[x] = ctx.get((~a).as_value())
    sim = Simulator(m); sim.add_testbench(tb); sim.run()
    for x in range(4):
        py = ~PF(x)
        py = py.value if isinstance(py, PF) else py & 15
        if got[x] != py:
            bad += 1
        print(boundary.name, f"~{x}: view {got[x]}  python {py}", "" if got[x] == py else "  <-- differs")
print("DEFECT PRESENT" if bad else "ok")
