"""F17 - a Signal whose shape is a signed shaped Enum with a negative member cannot be converted to RTLIL.

Run: PYTHONPATH=/repo /venv/bin/python c15_signed_enum_rtlil.py
Observed on the unmodified tree: ValueError('-2 does not fit in 3 bits') from to_binary() in
back/rtlil.py ModuleEmitter.emit_signal_wires (and emit_signal_fields for enum fields of layouts).
"""
import warnings; warnings.simplefilter("ignore")
from amaranth.hdl import Signal, Module, signed
from amaranth.lib import enum
from amaranth.back import rtlil


class ES(enum.Enum, shape=signed(3)):
    N = -2
    Z = 0
    P = 3


m = Module()
a, o = Signal(ES), Signal(ES)
m.d.comb += o.eq(a)
try:
    text = rtlil.convert(m, ports=[a.as_value(), o.as_value()])
    print([l.strip() for l in text.splitlines() if "enum_value" in l][:3])
    print("ok")
except Exception as e:
    print(type(e).__name__, e)
    print("DEFECT PRESENT")
