"""EnableInserter with a control wider than one bit around a module holding a memory (not exercised by the C03 check,
whose designs with memories use one-bit controls): the statements are enabled iff control == 1 (Switch pattern 1), a write
port iff the control is non-zero (Mux(control, en, 0)), and a synchronous read port gets a 2-bit `en` (`en & control`) on which
MemoryInstance._ReadPort asserts while the design is prepared. Run: PYTHONPATH=/repo /venv/bin/python <this file>"""
import warnings; warnings.simplefilter("ignore")
from amaranth.hdl import *
from amaranth.lib.memory import Memory
from amaranth.sim import Simulator

def run(ctlv, sync_read):
    mem = Memory(shape=4, depth=2, init=[0, 0]); wp = mem.write_port()
    rp = mem.read_port() if sync_read else None
    cnt = Signal(4); ctl = Signal(2)
    class Core(Elaboratable):
        def elaborate(self, p):
            m = Module(); m.submodules.mem = mem; m.d.sync += cnt.eq(cnt + 1); return m
    top = Module(); top.domains.sync = cd = ClockDomain(); top.submodules.c = EnableInserter(ctl)(Core())
    sim = Simulator(top)
    out = {}
    async def tb(ctx):
        ctx.set(ctl, ctlv); ctx.set(wp.en, 1); ctx.set(wp.data, 9); ctx.set(wp.addr, 1)
        ctx.set(cd.clk, 1)
        out["r"] = (ctx.get(cnt), ctx.get(mem.data[1]))
    sim.add_testbench(tb); sim.run()
    return out["r"]

for ctlv in (0, 1, 2, 3):
    c, row = run(ctlv, False)
    print(f"2-bit control = {ctlv}: counter advanced: {c == 1}; write port wrote: {row == 9}")
try:
    run(1, True)
    print("with a synchronous read port: ok")
except Exception as e:
    print("with a synchronous read port:", type(e).__name__, e)
