"""F35: a range-shaped signal with a constant-castable initial value that is not a Python int.
`orig_init not in orig_shape` compared the *object* with the range's elements: a Const raised
"Attempted to convert Amaranth value to Python boolean", a plain Enum member inside the range was refused.
Run with PYTHONPATH=<repo>."""
import enum, sys, warnings
from amaranth.hdl import Signal, Const, signed
warnings.simplefilter("ignore")


class E(enum.Enum):
    A = 3
    B = 12


bad = []
for what, mk, want in [
        ("Const(3, 4) in range(10)", lambda: Signal(range(10), init=Const(3, 4)).init, 3),
        ("Const(-2, signed(3)) in range(-4, 4)", lambda: Signal(range(-4, 4), init=Const(-2, signed(3))).init, -2),
        ("Enum member 3 in range(10)", lambda: Signal(range(10), init=E.A).init, 3),
        ("Enum member 12 in range(10)", lambda: Signal(range(10), init=E.B).init, "SyntaxError"),
        ("Const(10, 4) in range(10)", lambda: Signal(range(10), init=Const(10, 4)).init, "SyntaxError")]:
    try:
        got = mk()
    except Exception as e:
        got = type(e).__name__
    print(f"{what}: {got} (expected {want})")
    if got != want:
        bad.append(what)
if bad:
    print("REPRODUCED:", bad)
    sys.exit(1)
print("not reproduced")
