"""Boundary note (C06): the "single driver covers the whole signal" widening in
NetlistEmitter.emit_drivers turns the *unassigned* bits of a partially assigned register signal into
flip-flop outputs. If such a bit (a constant, semantically) feeds the clock or the asynchronous reset
of the very domain the signal is registered in, conversion fails with CombinationalCycle although no
signal bit depends on itself:

    m.d.sync += s[0:2].eq(...)        # s is 4 bits wide; s[2], s[3] are never assigned
    m.d.comb += cd.clk.eq(s[2])       # -> CombinationalCycle: clk -> s bit 2 -> FlipFlop bit 2 -> clk

With the upper bits in a signal of their own the same design converts. The C06 harness follows the
emitter here (a signal whose only driver is one synchronous (module, domain) pair is registered in all
its bits) and replays this witness on every run.

Run: PYTHONPATH=/repo /venv/bin/python /verif/prelim/repro/c06_widened_register_clock.py
"""
import warnings; warnings.simplefilter("ignore")
from amaranth.hdl import Module, Signal, ClockDomain, Fragment
from amaranth.hdl._ir import build_netlist


def attempt(name, split):
    m = Module()
    cd = ClockDomain("sync")
    m.domains.sync = cd
    d = Signal(2, name="d")
    if split:
        lo = Signal(2, name="s_lo"); hi = Signal(2, name="s_hi")
        m.d.sync += lo.eq(d)
        m.d.comb += cd.clk.eq(hi[0])
        ports = [d, lo, hi]
    else:
        s = Signal(4, name="s")
        m.d.sync += s[0:2].eq(d)
        m.d.comb += cd.clk.eq(s[2])
        ports = [d, s]
    try:
        build_netlist(Fragment.get(m, None), ports=ports)
        print(f"{name}: accepted")
    except Exception as e:  # noqa: BLE001
        print(f"{name}: {type(e).__name__}")
        return type(e).__name__
    return "ok"


if __name__ == "__main__":
    attempt("clock from an unassigned bit of the registered signal itself", split=False)
    attempt("same, the unassigned bits in a signal of their own        ", split=True)
