"""F20 (C20): a `{` or `}` fill character in a format specification crashes the compiled simulator.

`Format("{:{}<5}", sig, "{")` is accepted by `Format` (fill `{`, align `<`, width 5); `eval_format`
(the VCD writer's path) and Python's own `format(5, "{<5")` give `5{{{{`. The compiled simulator
(`_StatementCompiler.emit_format`, amaranth/sim/_pyrtl.py) splices the specification unescaped into a
`str.format` string -- `'{:{<5}'.format(x)` -- so `Simulator.run()` raises
`ValueError: unmatched '{' in format spec` (for `}`: `Single '}' encountered in format string`),
for Print and for Assert/Assume messages alike.

Run:  PYTHONPATH=/repo /venv/bin/python /verif/prelim/repro/c20_f20_brace_fill_char.py
Expected (after the repair): every line ends in `5{{{{` / `5}}}}`.
"""
import contextlib
import io
import warnings

warnings.simplefilter("ignore")
from amaranth.hdl import Signal, Module, Format, Print, Assert, Period
from amaranth.sim import Simulator
from amaranth.sim._pyeval import eval_format

failed = False
for fill in "{}":
    for what in ("print", "assert"):
        sig = Signal(8, init=5)
        fmt = Format("{:{}<5}", sig, fill)
        m = Module()
        m.d.sync += Print(fmt, end="") if what == "print" else Assert(0, fmt)
        sim = Simulator(m)
        sim.add_clock(Period(MHz=1))
        seen = {}

        async def tb(ctx):
            seen["eval_format"] = eval_format(sim._engine._state, fmt)
            await ctx.tick()
        sim.add_testbench(tb)
        buf = io.StringIO()
        try:
            with contextlib.redirect_stdout(buf):
                sim.run()
            got = buf.getvalue()
        except AssertionError as e:
            got = str(e).removeprefix("Assertion violated: ")
        except Exception as e:
            got = f"{type(e).__name__}: {e}"
        want = format(5, fill + "<5")
        ok = got == want
        failed |= not ok
        print(f"fill {fill!r} {what:6}: python {want!r}  eval_format {seen.get('eval_format')!r}  simulator {got!r}  {'ok' if ok else 'MISMATCH'}")
raise SystemExit(1 if failed else 0)
