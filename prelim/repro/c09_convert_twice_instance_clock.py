"""F32: converting the same design object twice; an Instance port uses ClockSignal of an implicitly created domain.
The second conversion ties the instance's clock to constant 0 (the Instance object kept the first conversion's
ClockDomain). Run with PYTHONPATH=<repo>."""
import sys
from amaranth.hdl import Module, Signal, Instance, ClockSignal
from amaranth.back import rtlil

m = Module()
a, q = Signal(name="a"), Signal(name="q")
m.submodules.u = Instance("prim", i_a=a, o_q=q, i_clk=ClockSignal("pix"))
t1 = rtlil.convert(m, ports=[a, q], emit_src=False)
t2 = rtlil.convert(m, ports=[a, q], emit_src=False)
l1 = [l for l in t1.splitlines() if "connect \\clk" in l]
l2 = [l for l in t2.splitlines() if "connect \\clk" in l]
print("first conversion: ", l1)
print("second conversion:", l2)
if t1 != t2:
    print("REPRODUCED: the same design converts to different RTLIL the second time")
    sys.exit(1)
print("not reproduced")
