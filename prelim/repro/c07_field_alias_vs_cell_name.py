"""F39: an Instance or a (non-empty) submodule named like the alias wire of a field of a structured signal used in
the same module (`hdr` with field `len` next to a cell called `hdr.len`; array signal `lane` next to a cell called
`lane[0]`).  ModuleEmitter.emit() runs emit_signal_fields before emit_submodules/emit_cells, so the repair of F24
(`name in self.builder.contents`) does not see the cell names: the alias wire is created, the cell of the same name
then hits `assert name not in self.contents` and rtlil.convert dies with a bare AssertionError (back/rtlil.py:_name).
Run: PYTHONPATH=/repo /venv/bin/python c07_field_alias_vs_cell_name.py   (exit 1 = defect present)"""
import sys, warnings; warnings.simplefilter("ignore")
from amaranth.hdl import *
from amaranth.lib import data
from amaranth.back import rtlil


def instance_dot():
    m = Module()
    hdr, o = Signal(data.StructLayout({"len": 2, "kind": 2}), name="hdr"), Signal(2, name="o")
    m.submodules["hdr.len"] = Instance("ext", i_a=hdr.len, o_o=o)
    return m, [hdr.as_value(), o]


def instance_index():
    m = Module()
    lane, o = Signal(data.ArrayLayout(2, 2), name="lane"), Signal(2, name="o")
    m.submodules["lane[0]"] = Instance("ext", i_a=lane[0], o_o=o)
    return m, [lane.as_value(), o]


def submodule_dot():
    m, sub = Module(), Module()
    hdr, o = Signal(data.StructLayout({"len": 2, "kind": 2}), name="hdr"), Signal(2, name="o")
    sub.d.comb += o.eq(hdr.len + 1)
    m.submodules["hdr.len"] = sub
    m.d.comb += Signal(2, name="k").eq(hdr.kind)
    return m, [hdr.as_value(), o]


bad = 0
for f in (instance_dot, instance_index, submodule_dot):
    m, ports = f()
    try:
        text = rtlil.convert(m, ports=ports, emit_src=False)
    except AssertionError:
        print(f"DEFECT: {f.__name__}: AssertionError in rtlil.convert")
        bad += 1
        continue
    top = text[text.index("module \\top"):]
    top = top[:top.index("\nend\n")]
    names = [l.split()[-1] for l in top.splitlines() if l.split()[:1] in (["wire"], ["memory"])]
    names += [l.split()[2] for l in top.splitlines() if l.split()[:1] == ["cell"]]
    assert len(names) == len(set(names)), names
    print(f"ok: {f.__name__}: names in top", [n for n in names if not n.startswith("$")])
sys.exit(1 if bad else 0)
