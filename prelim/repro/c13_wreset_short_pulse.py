"""Candidate finding (unchanged tree): a write-domain reset pulse of AsyncFIFO that contains a write-clock edge
but no read-clock edge (and fewer than 3 read edges before r_rst is released) leaves the read pointer stale:
after the reset the queue is NOT empty on the read side: r_rdy is high with nothing written since the reset,
r_level is outside 0..depth, and r_en pops garbage.
Run: PYTHONPATH=/repo /venv/bin/python c13_wreset_short_pulse.py [n_read_edges_inside_the_pulse]"""
import sys
from amaranth.hdl import Module, ClockDomain
from amaranth.sim import Simulator
from amaranth.lib.fifo import AsyncFIFO

inside = int(sys.argv[1]) if len(sys.argv) > 1 else 0
f = AsyncFIFO(width=8, depth=4)
m = Module()
m.submodules.f = f
m.domains.read = cdr = ClockDomain()
m.domains.write = cdw = ClockDomain()
sim = Simulator(m)

async def tb(ctx):
    def w(): ctx.set(cdw.clk, 1); ctx.set(cdw.clk, 0)
    def r(): ctx.set(cdr.clk, 1); ctx.set(cdr.clk, 0)
    def show(what):
        print(f"{what:58s} w_rdy={ctx.get(f.w_rdy)} w_level={ctx.get(f.w_level)} r_rdy={ctx.get(f.r_rdy)} "
              f"r_level={ctx.get(f.r_level)} r_data={ctx.get(f.r_data)} r_rst={ctx.get(f.r_rst)}")
    for _ in range(4): r()                      # power-on r_rst window over
    ctx.set(f.w_en, 1)
    for d in (11, 12, 13):                      # three entries written
        ctx.set(f.w_data, d); w()
    ctx.set(f.w_en, 0)
    for _ in range(3): r()                      # ... and visible on the read side
    show("3 entries written, none read")
    ctx.set(cdw.rst, 1)                         # write-domain reset pulse: one write edge,
    w()
    for _ in range(inside): r()                 # `inside` read edges,
    ctx.set(cdw.rst, 0)                         # released
    show(f"write-domain reset pulse over ({inside} read edges inside)")
    for k in range(6):
        r(); w()
        show(f"after {k + 1} more edges of both clocks, nothing written")
    ctx.set(f.r_en, 1)
    n = 0
    while ctx.get(f.r_rdy) and n < 20:
        r(); n += 1
    show(f"reader popped {n} 'entries' of a queue that was reset and never written")
sim.add_testbench(tb)
sim.run()
