"""C19 (new, found while strengthening the check against seeded mutant C19-3): the *frequency* constraint of a
requested port is rendered with `IOPort.name` (`set_frequency {{port.name}}`, `FREQUENCY PORT "{{port.name}}"`,
`create_clock ... [get_ports {{port.name}}]`), not with the name the design assigned to that top-level port.
IOPort names are `"__".join(path) + "__io"`, which is not injective: when two used ports get the same name the
design calls the second one `name$1`, the location constraints follow (iter_port_constraints_bits uses the
design's name) but the clock line still says `name` - i.e. it constrains the *other* port.
Run: PYTHONPATH=/repo /venv/bin/python /verif/prelim/repro/c19_clock_constraint_names_wrong_port_on_name_collision.py  (exit 1 = defect present)
"""
import re, sys, warnings
warnings.simplefilter("ignore")
from amaranth.hdl import *
from amaranth.build import *
from amaranth.lib import io
from amaranth.vendor import SiliconBluePlatform

class P(SiliconBluePlatform):
    device = "iCE40HX8K"; package = "CT256"
    resources = [Resource("a", 0,
        Subsignal("x__y", Pins("A1", dir="i")),                                               # a_0__x__y__io
        Subsignal("x", Subsignal("y", Pins("B1", dir="i"), Clock(Period(MHz=10)))))]        # a_0__x__y__io too, clocked
    connectors = []
class Top(Elaboratable):
    def elaborate(self, platform):
        m = Module()
        a = platform.request("a", 0, dir="-")
        m.submodules.b1 = io.Buffer("i", getattr(a, "x__y"))
        m.submodules.b2 = io.Buffer("i", a.x.y)
        return m
plan = P().build(Top(), do_build=False)
pcf = plan.files["top.pcf"]
print(pcf)
loc = dict((pin, port) for port, pin in re.findall(r"set_io (\S+) (\S+)", pcf))
clk = re.findall(r"set_frequency (\S+) (\S+)", pcf)
print("the clocked pin B1 is top-level port", loc.get("B1"), "; the frequency line names", clk)
if [n for n, _f in clk] != [loc.get("B1")]:
    print("DEFECT: the 10 MHz constraint is applied to the port on pin", {v: k for k, v in loc.items()}.get(clk[0][0]))
    sys.exit(1)
