"""F13 (C14): connect() cannot connect interfaces that contain an ARRAY OF SUB-INTERFACES.

connect() walks `signature.members.flatten()`, whose paths name members only (the indices of an
intermediate `Out(sig).array(n)` member are not part of the path), and then resolves the leaf with
`_traverse_path`, which does `getattr(<list>, 'x')`.  No flipped proxy is involved (that is F10).

Run:  PYTHONPATH=/repo /venv/bin/python /verif/prelim/repro/c14_connect_array_of_interfaces.py
Expected (property C14): the two interfaces are compliant, every leaf has exactly one output, so
connect() succeeds and b.arr[i].x follows a.arr[i].x.   Observed: AttributeError.
"""
import warnings; warnings.simplefilter("ignore")
from amaranth.hdl import *
from amaranth.lib.wiring import In, Out, Signature, connect

inner = Signature({"x": Out(1)})
A = Signature({"arr": Out(inner).array(2)})
B = Signature({"arr": In(inner).array(2)})
a, b = A.create(), B.create()
assert A.is_compliant(a) and B.is_compliant(b)
print("A leaves:", [(p, m.flow) for p, m, _ in A.flatten(a)])
print("B leaves:", [(p, m.flow) for p, m, _ in B.flatten(b)])
try:
    m = Module()
    connect(m, a, b)
    print("connect: ok,", len(m._statements.get("comb", m._statements.get(None, []))), "statements")
except Exception as e:
    print("connect:", type(e).__name__, e)
