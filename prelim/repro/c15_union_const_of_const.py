"""F11 - UnionLayout.const() rejects a lib.data.Const of its own layout.

Run: PYTHONPATH=/repo /venv/bin/python c15_union_const_of_const.py
Expected (law documented on ShapeCastable.from_bits): Const.cast(s.const(s.from_bits(raw))).value == raw.
Observed on the unmodified tree: TypeError from len(init); consequently Signal.like(Signal(UnionLayout(...))),
ctx.set(view_of_union, const) and nested initialisers {"u": some_union_const} fail too.
"""
import warnings; warnings.simplefilter("ignore")
from amaranth.hdl import Signal, Const
from amaranth.lib import data

U = data.UnionLayout({"a": 4, "b": 2})
S = data.StructLayout({"u": U, "x": 1})
fails = 0
for what, f in [
    ("UnionLayout.const(from_bits(5))", lambda: Const.cast(U.const(U.from_bits(5))).value),
    ("Signal.like(Signal(UnionLayout))", lambda: Signal.like(Signal(U, init={"a": 3})).as_value().init),
    ("StructLayout.const({'u': union_const})", lambda: S.const({"u": U.from_bits(5)}).as_bits()),
]:
    try:
        print(what, "->", f())
    except Exception as e:
        fails += 1
        print(what, "->", type(e).__name__, str(e)[:80])
print("DEFECT PRESENT" if fails else "ok")
