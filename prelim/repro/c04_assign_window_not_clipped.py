"""F25: hdl/_ir.py emit_assign does not clip the assignment window at an array element (SwitchValue) that is
shorter than the array's unified shape (netlist counterpart of F2).
(a) `Array([a, b[0:1]])[idx].bit_select(off, 2).eq(v)` emits `assign \\b [1] \\v [0]`: with idx=1, off=1 the
    netlist writes b[1], outside the element b[0:1] (the simulator leaves b[1] alone);
(b) with a second driver on another bit of `b`, emit_drivers crashes with IndexError (driven_bits[bit]).
Run: PYTHONPATH=/repo /venv/bin/python c04_assign_window_not_clipped.py   (exit 1 = defect present)"""
import sys, warnings; warnings.simplefilter("ignore")
from amaranth.hdl import *
from amaranth.back import rtlil
from amaranth.sim import Simulator
def design(second_driver):
    m = Module()
    a = Signal(4, name="a"); b = Signal(2, name="b"); idx = Signal(1, name="idx"); off = Signal(2, name="off"); v = Signal(2, name="v")
    m.d.comb += Array([a, b[0:1]])[idx].bit_select(off, 2).eq(v)
    if second_driver:
        m.d.sync += b[1].eq(v[0])
    return m, [a, b, idx, off, v]
bad = 0
m, ports = design(False)
text = rtlil.convert(m, ports=ports, emit_src=False)
if "assign \\b [1]" in text:
    print("DEFECT (a): netlist assigns b[1] through the element b[0:1]"); bad = 1
m, (a, b, idx, off, v) = design(False)
sim = Simulator(m)
async def tb(ctx):
    ctx.set(idx, 1); ctx.set(off, 1); ctx.set(v, 3)
    print("simulator: b =", ctx.get(b), "(b[1] must stay 0)")
sim.add_testbench(tb); sim.run()
try:
    m, ports = design(True)
    rtlil.convert(m, ports=ports, emit_src=False)
except IndexError as e:
    print("DEFECT (b): IndexError in emit_drivers:", e); bad = 1
sys.exit(bad)
