"""F22 (C11): the simulator loaded the initial value into a synchronous memory read port's `data`
whenever the domain's reset was asserted, although memory read ports have no reset (the netlist's
$memrd_v2 has SRST/ARST tied to 0, ResetInserter leaves memory ports alone).

Property C11: "a synchronous read port ... holds its output when disabled", and "the simulator and the
emitted RTLIL agree". Run:  PYTHONPATH=/repo /venv/bin/python c11_f22_reset_clears_read_port.py
Before the fix (amaranth/sim/_pyrtl.py: reset list taken after the read-port data signals were added):
    sync reset, en=0, clock edge       -> data 0   (expected 6)
    async reset rising, no clock edge  -> data 0   (expected 6)
After the fix both lines print 6.
"""
import warnings; warnings.simplefilter("ignore")
from amaranth.hdl import Module, ClockDomain
from amaranth.sim import Simulator
from amaranth.lib.memory import Memory


def run(async_reset):
    m = Module()
    m.domains.a = cd = ClockDomain("a", async_reset=async_reset)
    m.submodules.mem = mem = Memory(shape=4, depth=2, init=[5, 6])
    rp = mem.read_port(domain="a")
    sim = Simulator(m)
    out = {}

    async def tb(ctx):
        ctx.set(rp.addr, 1); ctx.set(rp.en, 1)
        ctx.set(cd.clk, 1); ctx.set(cd.clk, 0)          # capture row 1 = 6
        assert ctx.get(rp.data) == 6
        ctx.set(rp.en, 0)
        ctx.set(cd.rst, 1)                               # async: takes effect here
        out["after_rst_rise"] = ctx.get(rp.data)
        ctx.set(cd.clk, 1)                               # sync: takes effect here
        out["after_edge"] = ctx.get(rp.data)
    sim.add_testbench(tb); sim.run()
    return out


ok = True
o = run(False)
print("sync reset, en=0, clock edge       -> data", o["after_edge"], "(expected 6)")
ok &= o["after_edge"] == 6
o = run(True)
print("async reset rising, no clock edge  -> data", o["after_rst_rise"], "(expected 6)")
ok &= o["after_rst_rise"] == 6
print("OK" if ok else "DEFECT REPRODUCED")
raise SystemExit(0 if ok else 1)
