"""F14 (C19): request() raises RuntimeError when an attribute value is None (or a callable returning None)
and is not the last key: `resolve()` does `del attrs[attr_key]` while iterating `attrs.items()`.
dsl.Attrs documents None as "remove this attribute"; Attrs.__repr__ prints it as `!key`.
Run: PYTHONPATH=/repo /venv/bin/python /verif/prelim/repro/c19_attrs_none_mutation.py   (exit 1 = defect present)
"""
import sys, warnings
warnings.simplefilter("ignore")
from amaranth.build import *
from amaranth.build.res import ResourceManager

bad = 0
cases = {
    "None first": lambda: Resource("a", 0, Pins("P1", dir="i"), Attrs(PULLMODE=None, IO_TYPE="LVCMOS33")),
    "None last (works)": lambda: Resource("a", 0, Pins("P1", dir="i"), Attrs(IO_TYPE="LVCMOS33", PULLMODE=None)),
    "callable returning None": lambda: Resource("a", 0, Pins("P1", dir="i"), Attrs(PULLMODE=lambda p: None, IO_TYPE="LVCMOS33")),
    "sub-signal removes an inherited attribute": lambda: Resource("a", 0, Subsignal("s", Pins("P1", dir="i"), Attrs(PULLMODE=None)),
                                                              Attrs(PULLMODE="UP", IO_TYPE="LVCMOS33")),
}
for name, mk in cases.items():
    rm = ResourceManager([mk()], [])
    try:
        v = rm.request("a", 0, dir="-")
        port = v.s if hasattr(v, "s") else v
        print(f"{name}: granted, attrs = {dict(port.io.metadata[0].attrs)}")
    except RuntimeError as e:
        print(f"DEFECT {name}: RuntimeError: {e}"); bad += 1
sys.exit(1 if bad else 0)
