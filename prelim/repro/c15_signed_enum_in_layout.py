"""F12 - a signed shaped enumeration cannot be a layout field.

Run: PYTHONPATH=/repo /venv/bin/python c15_signed_enum_in_layout.py
Expected: a field whose shape is `Enum, shape=signed(3)` reads back the member that was stored.
Observed on the unmodified tree: Signal(layout) / View[...] raise TypeError (EnumView gets an unsigned slice),
lib.data.Const[...] passes the unsigned pattern 6 to from_bits (ValueError) where the member is -2.
"""
import warnings; warnings.simplefilter("ignore")
from amaranth.hdl import Signal, signed
from amaranth.lib import data, enum


class ES(enum.Enum, shape=signed(3)):
    N = -2
    Z = 0
    P = 3


fails = 0
lay = data.StructLayout({"e": ES, "x": 2})
for what, f in [
    ("Signal(StructLayout({'e': ES}))", lambda: Signal(lay)),
    ("Signal(ArrayLayout(ES, 2))", lambda: Signal(data.ArrayLayout(ES, 2))),
    ("View(layout, Signal(5))['e']", lambda: data.View(lay, Signal(5))["e"]),
    ("layout.const({'e': ES.N})['e']", lambda: lay.const({"e": ES.N})["e"]),
]:
    try:
        print(what, "->", f())
    except Exception as e:
        fails += 1
        print(what, "->", type(e).__name__, str(e)[:80])
print("DEFECT PRESENT" if fails else "ok")
