"""Boundary note (C06, not a numbered finding): Module._add_statement's early domain check treats a
part-select target as driving its whole operand (LHSMaskCollector.visit_value: "Could be more
accurate ..."), so a design that the whole-design check accepts can be refused early:

    m.d.comb += s[0:4].bit_select(o, 1).eq(1)     # o is 1 bit wide: only s[0], s[1] can be written
    m.d.sync += s[3].eq(1)                        # SyntaxError: "... bit 3 ... already driven from d.comb"

The same two statements in two different modules (or added through Fragment.add_statements) convert
without any error. The C06 conflict generator therefore only uses part-select targets whose offset
reaches every bit of the operand.

Run: PYTHONPATH=/repo /venv/bin/python /verif/prelim/repro/c06_early_partselect_overapprox.py
"""
import warnings; warnings.simplefilter("ignore")
from amaranth.hdl import Module, Signal, Fragment, ClockDomain, SyntaxError
from amaranth.hdl._ir import build_netlist

s = Signal(4, name="s"); o = Signal(1, name="o")
m = Module()
m.d.comb += s[0:4].bit_select(o, 1).eq(1)
try:
    m.d.sync += s[3].eq(1)
    print("one module: accepted")
except SyntaxError as e:
    print("one module: SyntaxError:", e)

f = Fragment()
f.add_domains(ClockDomain("sync"))
f.add_statements("comb", s[0:4].bit_select(o, 1).eq(1))
f.add_statements("sync", s[3].eq(1))
build_netlist(f, ports=[s, o])
print("same statements through Fragment.add_statements: accepted by the whole-design check")
