"""F6 (C13): AsyncFIFO(depth=1) and AsyncFIFOBuffered(depth=1 or 2) construct but do not elaborate.

`AsyncFIFO.elaborate` computes `w_full` from `produce_w_gry[-2]`, but the Gray counters are
`depth_bits + 1 = 1` bit wide when depth == 1 (the inner FIFO of AsyncFIFOBuffered(depth<=2) has depth 1).

Run:  PYTHONPATH=/repo /venv/bin/python /verif/prelim/repro/c13_f6_asyncfifo_depth1_elaborate.py
Expected on the current tree: three lines ending in "IndexError: Index -2 is out of bounds for a 1-bit value",
exit status 1.  On a repaired tree: three "ok" lines, and a depth-1 FIFO that passes one word at a time.
"""
import sys
import warnings
warnings.simplefilter("ignore")
from amaranth.hdl import Fragment, Module, ClockDomain
from amaranth.lib.fifo import AsyncFIFO, AsyncFIFOBuffered

bad = 0
for cls, depth, exact in [(AsyncFIFO, 1, True), (AsyncFIFOBuffered, 1, False), (AsyncFIFOBuffered, 2, True)]:
    f = cls(width=8, depth=depth, exact_depth=exact)       # the constructor accepts the depth ...
    m = Module()
    m.submodules.f = f
    m.domains.read = ClockDomain()
    m.domains.write = ClockDomain()
    try:
        Fragment.get(m, None).prepare()                    # ... but elaboration raises
        print(f"{cls.__name__}(depth={depth}, exact_depth={exact}) -> depth {f.depth}: ok")
    except Exception as e:  # noqa: BLE001
        bad += 1
        print(f"{cls.__name__}(depth={depth}, exact_depth={exact}) -> depth {f.depth}: {type(e).__name__}: {e}")
sys.exit(1 if bad else 0)
