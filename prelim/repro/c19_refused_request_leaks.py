"""F7 (C19): a refused ResourceManager.request() leaves part of its bookkeeping behind.

`resolve()` records into `_phys_reqd`, `_io_clocks` and `_pins` leaf by leaf, so ANY exception raised after
the first leaf (pin conflict -> ResourceError, missing connector pin -> NameError, unsupported xdr ->
ValueError from PinBuffer) leaves the entries made so far allocated:
  1. a later, legitimate request for those pins is refused;
  2. the clock of a refused request is rendered into the constraint file (for a port that does not exist);
  3. the PinBuffer of a refused request is added to the design by Platform.prepare(), so the constraint file
     places a port of a request that was never granted.
Run: PYTHONPATH=/repo /venv/bin/python /verif/prelim/repro/c19_refused_request_leaks.py   (exit 1 = defect present)
"""
import sys, warnings
warnings.simplefilter("ignore")
from amaranth.hdl import *
from amaranth.build import *
from amaranth.build.res import ResourceManager, ResourceError
from amaranth.vendor import SiliconBluePlatform

bad = 0

def table():
    return [
        Resource("a", 0, Pins("P1", dir="i")),
        Resource("b", 0, Subsignal("x", Pins("P2", dir="io"), Clock(Period(MHz=100))),
                         Subsignal("y", Pins("P1", dir="i"))),          # y conflicts with a
        Resource("c", 0, Pins("P2", dir="i")),                          # shares P2 with b.x only
        Resource("d", 0, Pins("P3", dir="io")),
        Resource("e", 0, Subsignal("x", Pins("P4", dir="io")), Subsignal("y", Pins("9", dir="i", conn=("pmod", 0)))),
        Resource("f", 0, Pins("P4", dir="i")),
    ]
conns = [Connector("pmod", 0, "P5 P6")]

# 1a. pin conflict
rm = ResourceManager(table(), conns)
rm.request("a", 0, dir="-")
try:
    rm.request("b", 0, dir="-"); print("b granted?!"); bad += 1
except ResourceError as e:
    print("b refused (expected):", e)
before = (dict(rm._phys_reqd), list(rm.iter_port_clock_constraints()))
print("  _phys_reqd after the refusal:", dict(rm._phys_reqd), " port clocks:", [(p.name, f) for p, f in before[1]])
try:
    rm.request("c", 0, dir="-"); print("c granted (expected)")
except ResourceError as e:
    print("DEFECT 1a: c refused although P2 was never granted:", e); bad += 1
# 1b. unsupported data rate: the resource itself can never be requested again
try:
    rm.request("d", 0, dir="i", xdr=3)
except ValueError as e:
    print("d refused (expected):", e)
try:
    rm.request("d", 0, dir="i", xdr=0); print("d granted (expected)")
except ResourceError as e:
    print("DEFECT 1b: d refused after its own refused request:", e); bad += 1
# 1c. missing connector pin
try:
    rm.request("e", 0, dir="-")
except NameError as e:
    print("e refused (expected):", e)
try:
    rm.request("f", 0, dir="-"); print("f granted (expected)")
except ResourceError as e:
    print("DEFECT 1c: f refused although P4 was never granted:", e); bad += 1

# 2./3. the constraint file
class P(SiliconBluePlatform):
    device = "iCE40HX8K"; package = "CT256"
    resources = table(); connectors = conns
class Top(Elaboratable):
    def elaborate(self, platform):
        m = Module()
        platform.request("a", 0, dir="-")
        try:
            platform.request("b", 0)          # Pin-style request (dir from the declaration): refused
        except ResourceError:
            pass
        return m
plan = P().build(Top(), do_build=False)
pcf = plan.files["top.pcf"]
print(pcf)
if "b_0__x__io" in pcf:
    print("DEFECT 2/3: the constraint file places/clocks b_0__x__io, a port of a request that was refused"); bad += 1
sys.exit(1 if bad else 0)
