"""F26: a zero-width IOPort as a top-level port: emit_io_port_wires indexes value[0] -> IndexError.
Run: PYTHONPATH=/repo /venv/bin/python c07_zero_width_ioport.py   (exit 1 = defect present)"""
import sys, warnings; warnings.simplefilter("ignore")
from amaranth.hdl import *
from amaranth.back import rtlil
try:
    text = rtlil.convert(Module(), ports=[IOPort(0, name="p")], emit_src=False)
except IndexError as e:
    print("DEFECT: IndexError in emit_io_port_wires:", e); sys.exit(1)
print("ok:", [l.strip() for l in text.splitlines() if "wire" in l])
