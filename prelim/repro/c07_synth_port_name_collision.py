"""F19 (second mechanism): a user signal named like a synthesised submodule port (`port$<cell>$<bit>`, hdl/_ir.py
_compute_ports) in the same submodule: the port table entry is overwritten and rtlil.convert dies with KeyError in
ModuleEmitter.sigspec.  Run: PYTHONPATH=/repo /venv/bin/python c07_synth_port_name_collision.py  (exit 1 = defect)"""
import re, sys, warnings; warnings.simplefilter("ignore")
from amaranth.hdl import *
from amaranth.back import rtlil

def design(other_name):
    top = Module(); sub = Module(); top.submodules.sub = sub
    m1 = Signal(5, name="m1"); y = Signal(4, name="y"); c = Signal(name="c")
    x = Signal(4, name=other_name); o = Signal(5, name="o"); p = Signal(4, name="p")
    with sub.If(c):
        sub.d.comb += m1[0:4].eq(y)           # only four of the five bits of m1 are driven (by one cell of the submodule)
    sub.d.comb += p.eq(x + 1)                 # x is also used in the submodule
    top.d.sync += m1[4].eq(c)                 # the fifth bit has another driver, so the drivers are per bit range
    top.d.comb += o.eq(m1)                    # m1 is read in the parent: an output port that matches no signal
    return top, [o, p, y, c, x]

top, ports = design("x")
text = rtlil.convert(top, ports=ports, emit_src=False)
synth = sorted(set(re.findall(r"\\(port\$\d+\$\d+)", text)))
print("synthesised port names:", synth)
bad = 0
for name in synth:
    top, ports = design(name)
    try:
        rtlil.convert(top, ports=ports, emit_src=False)
    except Exception as e:
        print(f"DEFECT: a signal named {name!r}: {type(e).__name__} {e}")
        bad = 1
sys.exit(bad)
