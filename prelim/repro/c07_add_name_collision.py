"""F19: three signals named `a`, `a$3`, `a` in one module: the de-duplicated name `a$<len(assigned)>` collides with
the user's name and rtlil.convert dies with a bare AssertionError in hdl/_ir.py:_add_name.
Run: PYTHONPATH=/repo /venv/bin/python c07_add_name_collision.py   (exit 1 = defect present)"""
import sys, warnings; warnings.simplefilter("ignore")
from amaranth.hdl import *
from amaranth.back import rtlil
m = Module()
s1 = Signal(name="a"); s2 = Signal(name="a$3"); s3 = Signal(name="a"); o = Signal(3, name="o")
m.d.comb += o.eq(Cat(s1, s2, s3))
try:
    text = rtlil.convert(m, ports=[o], emit_src=False)
except AssertionError as e:
    print("DEFECT: AssertionError in _add_name"); sys.exit(1)
names = [l.split()[-1] for l in text.splitlines() if l.strip().startswith("wire")]
assert len(names) == len(set(names)), names
print("ok: wires", names)
