"""F5 (C06): a combinational cycle that re-enters a word-level cell through a *sibling* output bit
ends in a bare AssertionError from Netlist.check_comb_cycles instead of CombinationalCycle.

Run: PYTHONPATH=/repo /venv/bin/python /verif/prelim/repro/c06_comb_cycle_assertion.py
Expected (property C06): CombinationalCycle for both. Observed on the unmodified tree: AssertionError.

Why: traverse(o0) of the adder marks its sibling outputs o1..o4 busy. The walk o0 -> a1 -> o1 hits the
busy sibling o1 and creates Cycle(start=o1). No frame on the stack has net == o1 (o1 was only *marked*),
so nobody raises, the cycle object is returned to the top-level loop, and `assert traverse(net) is None`
fails. Smallest repair: in the frame of a word-level cell, also raise when cycle.start is one of
`extra_nets`.
"""
import warnings; warnings.simplefilter("ignore")
from amaranth.hdl import Module, Signal, Const, Fragment
from amaranth.hdl._ir import build_netlist


def attempt(name, build):
    m = Module()
    a = Signal(4, name="a")
    build(m, a)
    try:
        build_netlist(Fragment.get(m, None), ports=[a])
        print(f"{name}: accepted")
    except Exception as e:  # noqa: BLE001
        print(f"{name}: {type(e).__name__}")


attempt("a.eq(a[1:3] + 1)            ", lambda m, a: m.d.comb.__iadd__(a.eq(a[1:3] + 1)))
attempt("a[:2].eq((a >> C(1, 1))[2:])", lambda m, a: m.d.comb.__iadd__(a[:2].eq((a >> Const(1, 1))[2:])))
attempt("a.eq(a[0:2] + 1)   (control: reported correctly)", lambda m, a: m.d.comb.__iadd__(a.eq(a[0:2] + 1)))
attempt("a[0:2].eq(a[2:4] + 1)  (control: legal)", lambda m, a: m.d.comb.__iadd__(a[0:2].eq(a[2:4] + 1)))
