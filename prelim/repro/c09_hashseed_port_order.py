"""F3: the RTLIL of a design with two or more implicitly created clock domains depends on PYTHONHASHSEED.

`Fragment._create_missing_domains` iterates `collector.used_domains - collector.defined_domains`, a `set` of
`str`; the order of `new_domains`, hence of the clock/reset ports that `Fragment.prepare` appends, follows the
string hash seed.

    for s in 1 2 3 4; do PYTHONHASHSEED=$s PYTHONPATH=/repo /venv/bin/python prelim/repro/c09_hashseed_port_order.py; done

prints different digests / input port orders on the unrepaired tree; one digest after the fix (`sorted(...)`).
Run without arguments it re-executes itself under four hash seeds and exits 1 if the texts differ.
"""
import hashlib
import os
import subprocess
import sys
import warnings

warnings.simplefilter("ignore")


def text():
    from amaranth.hdl import Module, Signal
    from amaranth.back import rtlil
    m = Module()
    o = Signal(4)
    for i, d in enumerate(["alpha", "beta", "gamma", "delta"]):
        s = Signal(name=f"s_{d}")
        m.d[d] += s.eq(~s)              # the domain is used, never declared
        m.d.comb += o[i].eq(s)
    return rtlil.convert(m, ports=[o], emit_src=False)


if __name__ == "__main__":
    if len(sys.argv) > 1:
        t = text()
        print(hashlib.sha256(t.encode()).hexdigest()[:12],
              [l.split()[-1] for l in t.splitlines() if " input " in l])
        sys.exit(0)
    outs = set()
    for seed in ("1", "2", "3", "4"):
        env = dict(os.environ, PYTHONHASHSEED=seed)
        env.setdefault("PYTHONPATH", os.environ.get("VERIF_REPO", "/repo"))
        p = subprocess.run([sys.executable, __file__, "child"], env=env, capture_output=True, text=True)
        line = [l for l in p.stdout.splitlines() if "conda" not in l][-1]
        print(f"PYTHONHASHSEED={seed}: {line}")
        outs.add(line)
    print("REPRODUCED: the text depends on the hash seed" if len(outs) > 1 else "not reproduced: one text for all seeds")
    sys.exit(1 if len(outs) > 1 else 0)
