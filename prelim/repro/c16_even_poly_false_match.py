"""C16 recorded finding "C16-even-poly": `Algorithm` accepts even polynomials; for every such polynomial
`Processor.match_detected` is asserted not only after message + own CRC but also after message + a
*different* trailer (the CRC xor-ed with the kernel word 2**(w-1) ^ (poly >> 1) of the one-bit step).
Lean: theorem Amaranth.C16.even_poly_false_match (general), residue_only (odd polynomials never).

Run:  PYTHONPATH=/repo /venv/bin/python prelim/repro/c16_even_poly_false_match.py
"""
import warnings; warnings.simplefilter("ignore")
from amaranth.hdl import Period
from amaranth.sim import Simulator
from amaranth.lib.crc import Algorithm


def run(algo, words):
    p = algo(1).create()
    sim = Simulator(p); sim.add_clock(Period(MHz=1)); out = []
    async def tb(ctx):
        for i, x in enumerate(words):
            ctx.set(p.start, i == 0); ctx.set(p.valid, 1); ctx.set(p.data, x)
            await ctx.tick()
        out.append(ctx.get(p.match_detected))
    sim.add_testbench(tb); sim.run()
    return out[0]


algo = Algorithm(crc_width=4, polynomial=0x6, initial_crc=0xf, reflect_input=False, reflect_output=False,
                 xor_output=0x0)                    # even polynomial, accepted
msg = [1]
crc = algo(1).compute(msg)                          # 0b1110
good = [(crc >> i) & 1 for i in (3, 2, 1, 0)]       # CRC, most significant bit first
bad_crc = crc ^ ((1 << 3) ^ (0x6 >> 1))             # xor the kernel word 0b1011 -> 0b0101
bad = [(bad_crc >> i) & 1 for i in (3, 2, 1, 0)]
print("true trailer     ", good, "match_detected =", run(algo, msg + good))
print("corrupted trailer", bad, "match_detected =", run(algo, msg + bad))
assert good != bad and run(algo, msg + good) == 1
assert run(algo, msg + bad) == 1, "finding no longer reproduces"

# polynomial 0 (also accepted): a single flipped trailer bit goes unnoticed
algo0 = Algorithm(crc_width=3, polynomial=0, initial_crc=7, reflect_input=False, reflect_output=False, xor_output=0)
crc0 = algo0(1).compute([1])
t0 = [(crc0 >> i) & 1 for i in (2, 1, 0)]
t1 = [((crc0 ^ 1) >> i) & 1 for i in (2, 1, 0)]
print("poly 0: true", t0, run(algo0, [1] + t0), " one bit flipped", t1, run(algo0, [1] + t1))
assert run(algo0, [1] + t1) == 1
print("REPRODUCED: match_detected asserted after a corrupted trailer (even polynomial)")
