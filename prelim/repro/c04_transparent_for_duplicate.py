"""F29: a write port listed twice in `transparent_for` of a synchronous read port: back/rtlil.py emit_read_port builds
TRANSPARENCY_MASK with `sum(1 << id ...)`, so the duplicate turns bit 0 + bit 0 into bit 1 (and, truncated to the number
of write ports, into no transparency at all); the simulator treats the port as transparent.
Run: PYTHONPATH=/repo /venv/bin/python c04_transparent_for_duplicate.py   (exit 1 = defect present)"""
import re, sys, warnings; warnings.simplefilter("ignore")
from amaranth.hdl import *
from amaranth.lib.memory import Memory
from amaranth.back import rtlil
from amaranth.sim import Simulator, Period

def design(dup):
    m = Module()
    m.submodules.mem = mem = Memory(shape=4, depth=2, init=[3, 5])
    wp = mem.write_port()
    rp = mem.read_port(transparent_for=(wp, wp) if dup else (wp,))
    m.d.comb += [wp.addr.eq(0), wp.data.eq(9), wp.en.eq(1), rp.addr.eq(0), rp.en.eq(1)]
    o = Signal(4, name="o")
    m.d.comb += o.eq(rp.data)
    return m, o

masks = {}
for dup in (False, True):
    m, o = design(dup)
    text = rtlil.convert(m, ports=[o], emit_src=False)
    masks[dup] = re.search(r"TRANSPARENCY_MASK (\S+)", text).group(1)
    m, o = design(dup)
    sim = Simulator(m); sim.add_clock(Period(MHz=1))
    got = {}
    async def tb(ctx):
        await ctx.tick()
        got["o"] = ctx.get(o)
    sim.add_testbench(tb); sim.run()
    print(f"transparent_for={'(wp, wp)' if dup else '(wp,)'}: TRANSPARENCY_MASK {masks[dup]}, simulator reads {got['o']} after the first edge "
          f"(9 = transparent, 3 = old data)")
if masks[True] != masks[False]:
    print("DEFECT: the duplicate changes the mask"); sys.exit(1)
print("ok")
