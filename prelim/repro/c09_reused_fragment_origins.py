"""F37: converting the same design object twice; an Elaboratable's elaborate() returns a Fragment it keeps.
`Fragment.get` prepends the Elaboratable to that Fragment's `origins` on every elaboration, so from the second
elaboration on the tuple names it twice and `Design._assign_names` raises DuplicateElaboratable ("included twice in
the hierarchy, as top and top").  Run with PYTHONPATH=<repo>."""
import sys
from amaranth.hdl import Elaboratable, Module, Signal, Fragment
from amaranth.back import rtlil


class Cached(Elaboratable):
    def __init__(self, fragment):
        self.fragment = fragment

    def elaborate(self, platform):
        return self.fragment


def outcomes(top, ports, n=3):
    out = []
    for _ in range(n):
        try:
            out.append(rtlil.convert(top, ports=ports, emit_src=False))
        except Exception as e:  # noqa: BLE001
            out.append(f"{type(e).__name__}: {e}")
    return out


bad = 0
for tag in ("top", "submodule"):
    a, o = Signal(4, name="a"), Signal(4, name="o")
    fr = Fragment()
    fr.add_statements("comb", o.eq(a + 1))
    top = Cached(fr)
    if tag == "submodule":
        m = Module()
        m.submodules.core = top
        top = m
    res = outcomes(top, [a, o])
    print(f"{tag}: origins after three conversions: {[type(x).__name__ for x in fr.origins]}")
    for k, r in enumerate(res):
        print(f"   conversion {k + 1}: " + (f"{r.count(chr(10))} lines of RTLIL" if r.startswith("attribute") else r))
    if len(set(res)) != 1:
        bad += 1
if bad:
    print("REPRODUCED: the same design converts the first time and is refused afterwards")
    sys.exit(1)
print("not reproduced")
