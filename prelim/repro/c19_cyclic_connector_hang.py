"""Boundary of C19 (hypothesis `Acyclic` of map_names_terminates): Pins.map_names does not return on a cyclic
connector chain (`while ":" in name: name = mapping[name]`); Connector/ResourceManager accept the table.
Run: PYTHONPATH=/repo /venv/bin/python /verif/prelim/repro/c19_cyclic_connector_hang.py  (replays in a child with a 5 s time-out)
"""
import subprocess, sys, textwrap
child = textwrap.dedent('''
    import warnings; warnings.simplefilter("ignore")
    from amaranth.build import *
    from amaranth.build.res import ResourceManager
    rm = ResourceManager([Resource("a", 0, Pins("1", dir="i", conn=("p", 0)))],
                         [Connector("p", 0, {"1": "1"}, conn=("q", 0)), Connector("q", 0, {"1": "1"}, conn=("p", 0))])
    print("table accepted:", dict(rm._conn_pins), flush=True)
    rm.request("a", 0, dir="-")
    print("request returned", flush=True)
''')
try:
    p = subprocess.run([sys.executable, "-c", child], capture_output=True, text=True, timeout=5)
    print(p.stdout, p.stderr[-300:])
    print("request returned or raised")
except subprocess.TimeoutExpired as e:
    print((e.stdout or b"").decode() if isinstance(e.stdout, bytes) else (e.stdout or ""))
    print("HANG: request('a', 0) did not return within 5 s (cyclic chain p_0:1 -> q_0:1 -> p_0:1)")
    sys.exit(1)
